#!/bin/bash
# usage: batch.sh C01 C02 ...  -- for each /tmp/wt-<prop>: run the property's check on seed1..3 (scratch copies) and start the
# confirmation runs (verify_seed.sh) in the background; prints one line per seed
for pr in "$@"; do
  for n in 1 2 3; do
    out=$(SEED_LINES=200 bash /verif/lint/seedtest.sh /tmp/wt-$pr/seed$n.diff $pr 2>&1)
    keys=$(echo "$out" | grep -v "^KNOWN" | grep "key:" | sed 's/ *key: //' | cut -c1-110 | head -4 | tr '\n' ';')
    if echo "$out" | grep -q "DOES NOT APPLY"; then echo "$pr seed$n: PATCH DOES NOT APPLY";
    elif [ -n "$keys" ]; then echo "$pr seed$n: caught  $keys"; else echo "$pr seed$n: MISSED   $(head -1 /tmp/wt-$pr/seed$n.md | cut -c1-160)"; fi
  done
  (for n in 1 2 3; do bash /verif/lint/verify_seed.sh /tmp/wt-$pr $n; done > /tmp/verify_$pr.log 2>&1 &)
done
