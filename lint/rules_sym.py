"""SYM — lexical symbol resolution (C15): the scope a declaration is tested against, inserted into and later looked up in
are the same expression of (context, dot level); the AST walkers that carry the symbol context agree; uses look symbols up
in the context of the point of use; dots are counted one per token."""
import re
from mir import (op_place, op_local, const_int, describe_origin, TRANSPARENT_CALLEES, natural_loop)
import tables as T
from rules_tab import err_return_in_region
from rules_tab import report_error_in_region as _rep0


def report_error_in_region(f, region):
    """an error message is pushed in the region (error/error_span, or an error parent opened with push_parent)"""
    if _rep0(f, region):
        return True
    for b in region:
        t = f.blocks[b]["term"]
        if t["k"] == "call" and re.search(r"Report::push_parent$", re.sub(r"::<[^<>]*>", "", t.get("resolved") or t.get("callee") or "")):
            return True
        # a local helper that does the reporting (one level): it takes the report and pushes a message on every path
        if t["k"] == "call" and t.get("resolved_local") and any("diagn::report::Report" in (x or "") for x in t.get("arg_tys", [])):
            h = f.prog.fn(t.get("resolved") or "")
            if h is not None and h.id != f.id and len(h.blocks) < 60:
                pushes = [bi for bi, t2 in h.calls() if re.search(r"Report::(error|error_span|push_parent|message)$", re.sub(r"::<[^<>]*>", "", t2.get("resolved") or t2.get("callee") or ""))]
                rets = [bi for bi in h.reachable() if h.blocks[bi]["term"]["k"] == "return"]
                if pushes and rets and all(any(h.dominates(p_, r_) for p_ in pushes) for r_ in rets):
                    return True
    return False

R = "SYM"

DEEP_TRANSPARENT = set(TRANSPARENT_CALLEES) | {"std::ops::Try::branch", "std::convert::Into::into", "std::convert::From::from", "std::iter::IntoIterator::into_iter"}


def short_callee(t):
    c = t.get("callee") if t.get("trait") else (t.get("resolved") or t.get("callee"))
    c = c or "indirect"
    prev = None
    while prev != c:
        prev = c
        c = re.sub(r"::<[^<>]*>", "", c)
        c = re.sub(r"<[^<>]*>", "", c)
    c = re.sub(r":{3,}", "::", c).strip(":")
    return "::".join(c.split("::")[-2:])


INLINE_STOP = re.compile(r"SymbolManager::<T>::(get_parent|get_children|get_children_mut|traverse|get|get_mut|try_get_by_name|get_by_name|declare)$|OverlapChecker::|FileServer|file_navigation::|BigInt::|DefList::|ItemRef::|SymbolContext::new_global$|Report::|Walker::|EvalContext::|eval_asm::|instruction::|matcher::")


def _inline_call(f, t, d):
    """a call of a small loop-free local helper is replaced by the helper's own result expression (one function deep), so
    that factoring an expression out into a helper does not change what the rules see"""
    if not t.get("resolved_local") or t.get("resolved_kind") != "item":
        return None
    r = t.get("resolved") or ""
    if INLINE_STOP.search(r) or r == f.id:
        return None
    g = f.prog.fn(r)
    if g is None or g.kind not in ("Fn", "AssocFn") or len(g.blocks) > 16:
        return None
    if any(natural_loop(g, h) for h in g.reachable()):
        return None
    body = deep(g, g.origin_local(0), d - 1, inline=False)
    if "var:" in body or body in ("_", "unknown", "multi") or "upvar:" in body:
        return None
    args = [deep(f, a, d - 1) for a in t["args"]]

    def sub(m):
        i = int(m.group(1))
        return args[i - 1] if 1 <= i <= len(args) else m.group(0)
    return re.sub(r"\bP(\d+)\b", sub, body)


def deep(f, o, d=6, inline=True):
    """nested provenance expression of an operand/origin: parameters by position, calls with their arguments, field paths;
    references, dereferences, clones and `?` are looked through"""
    if isinstance(o, dict):
        if op_place(o) is None:
            return str(o.get("const", "const"))
        o = f.origin_op(o)
    if o is None or d <= 0:
        return "_"
    k = o[0]
    if k == "param":
        return "P%d" % o[1]
    if k == "call":
        t = o[1]
        c = t.get("callee") or ""
        if (c in DEEP_TRANSPARENT or re.search(r"(Option|Result)::<.*>::(unwrap|expect|as_ref|as_mut|clone)$", c)) and t["args"]:
            return deep(f, t["args"][0], d, inline)
        if inline:
            x = _inline_call(f, t, d)
            if x is not None:
                return x
        return "%s(%s)" % (short_callee(t), ", ".join(deep(f, a, d - 1, inline) for a in t["args"]))
    if k == "const":
        if o[1].get("static"):
            return "static:" + o[1]["static"]
        return str(o[1].get("const", "const"))
    if k in ("ref", "cast"):
        return deep(f, o[1], d)
    if k == "place":
        projs = o[2]
        base = o[1]
        # `(a, b).0` is `a`
        while base[0] == "agg" and base[1].get("agg") == "tuple" and projs and isinstance(projs[0], dict) and "f" in projs[0] and str(projs[0].get("name", "")).isdigit() and int(projs[0]["name"]) < len(base[1]["ops"]):
            op_ = base[1]["ops"][int(projs[0]["name"])]
            projs = projs[1:]
            if op_place(op_) is None:
                return str(op_.get("const", "const")) if not projs else "const"
            base = f.origin_op(op_)
            if base[0] == "place":
                projs = list(base[2]) + list(projs)
                base = base[1]
        if not projs:
            return deep(f, base, d, inline)
        o = ("place", base, projs)
        s = deep(f, o[1], d)
        if f.kind == "Closure" and o[1] == ("param", 1):
            up = f.upvar_names()
            for i, pr in enumerate(projs):
                if isinstance(pr, dict) and "f" in pr:
                    if pr["f"] in up and all(x == "deref" for x in projs[:i]):
                        s = "upvar:" + up[pr["f"]]
                        projs = projs[i + 1:]
                    break
        if o[1][0] == "binop" and o[1][1]["op"].endswith("WithOverflow") and projs and isinstance(projs[0], dict) and projs[0].get("name") == "0":
            projs = projs[1:]
        for pr in projs:
            if pr == "deref":
                continue
            if isinstance(pr, dict) and "f" in pr:
                s += "." + pr["name"]
            elif isinstance(pr, dict) and "downcast" in pr:
                s += "@" + pr["downcast"]
            elif isinstance(pr, dict) and "cidx" in pr:
                s += "[%s]" % pr["cidx"]
            elif isinstance(pr, dict) and "idx" in pr:
                io = f.origin_local(pr["idx"]) if isinstance(pr["idx"], int) else None
                s += "[%s]" % (str(io[1].get("const", "")).replace("_usize", "") if io and io[0] == "const" else "")
        return s
    if k == "agg":
        rv = o[1]
        if rv["agg"] == "adt":
            nm = rv["adt"].rsplit("::", 1)[-1]
            if rv.get("variant") and rv["variant"] != nm:
                nm = rv["variant"]
            fl = rv.get("fields") or []
            return "%s{%s}" % (nm, ", ".join(("%s: " % n if not n.isdigit() else "") + deep(f, x, d - 1) for n, x in zip(fl, rv["ops"])))
        return "%s(%s)" % (rv["agg"], ", ".join(deep(f, x, d - 1) for x in rv["ops"]))
    if k == "multi":
        return "var:" + (f.local_name(o[1]) or "tmp")
    if k == "binop":
        rv = o[1]
        return "(%s %s %s)" % (deep(f, rv["l"], d - 1), rv["op"].replace("WithOverflow", ""), deep(f, rv["r"], d - 1))
    if k == "discr":
        return "discr(%s)" % deep(f, o[1], d)
    return k


def _calls(f, suffix):
    return [(bi, t) for bi, t in f.calls() if (t.get("resolved") or t.get("callee") or "").endswith(suffix) or short_callee(t).endswith(suffix)]


def _switch_on_call_result(f, bi, t):
    """for a call returning Option: (some_edge, none_edge, switch_block) of the match on its result"""
    dl = t["dest"]["l"]
    for b in sorted(f.reachable()):
        tt = f.blocks[b]["term"]
        if tt["k"] != "switch":
            continue
        dloc = op_local(tt["discr"])
        if dloc is None:
            continue
        o = f.origin_local(dloc)
        if o[0] != "discr":
            continue
        base = o[1]
        # discriminant of the call result (possibly through a copy/ref)
        while base[0] in ("ref", "cast"):
            base = base[1]
        if base[0] == "call" and base[1] is t:
            vs = o[2].get("variants") or {}
            some = none = None
            for v, tg in tt["targets"]:
                if vs.get(v) == "Some":
                    some = tg
                elif vs.get(v) == "None":
                    none = tg
            if some is None:
                some = tt["otherwise"]
            if none is None:
                none = tt["otherwise"]
            return some, none, b
    return None



def _choices(f, op, depth=0):
    """the values an operand can hold, one per defining block: follows copies, tuple field reads and two-way assignments"""
    pl = (op.get("copy") or op.get("move")) if isinstance(op, dict) else None
    if pl is None or depth > 6:
        return [(None, deep(f, op, 6))]
    l, proj = pl["l"], pl.get("p") or []
    ds = f.full_defs(l)
    if not ds:
        return [(None, deep(f, op, 6))]
    out = []
    for d in ds:
        if d[0] != "stmt" and d[0] != "assign" and not (len(d) > 3 and isinstance(d[3], dict)):
            return [(None, deep(f, op, 6))]
        st = d[3]
        if st["k"] != "assign" or st["place"]["p"]:
            return [(None, deep(f, op, 6))]
        rv = st["rv"]
        if rv["k"] == "agg" and rv.get("agg") == "tuple" and len(proj) == 1 and isinstance(proj[0], dict) and isinstance(proj[0].get("f"), int) and proj[0]["f"] < len(rv["ops"]):
            sub = rv["ops"][proj[0]["f"]]
            out += [((d[1] if (len(ds) > 1 or b is None) else b), e) for b, e in _choices(f, sub, depth + 1)]
        elif rv["k"] == "use" and not proj:
            inner = _choices(f, rv["op"], depth + 1)
            out += [(d[1] if (b is None or len(ds) > 1) else b, e) for b, e in inner]
        else:
            return [(None, deep(f, op, 6))]
    return out


def _dup_location(f, err, note, span_param):
    e_ch = _choices(f, err["args"][-1])
    n_ch = _choices(f, note["args"][-1])
    other_re = r"SymbolManager::get\(P1, HashMap::get\(.*\)@Some\.0\)\.span"
    if len(e_ch) != 2 or len(n_ch) != 2:
        return False, "the error is always located at `%s`" % e_ch[0][1][:60]
    # the comparison of the two positions, and the same-file guard in front of it
    cmpb = None
    for bi, si, st in f.stmts():
        if st["k"] == "assign" and st["rv"]["k"] == "binop" and st["rv"]["op"] in ("Lt", "Gt"):
            l_, r_ = deep(f, st["rv"]["l"], 8), deep(f, st["rv"]["r"], 8)
            if "Span::location(" in l_ and "Span::location(" in r_:
                this_left = l_.startswith("Span::location(%s)" % span_param)
                this_first_when_true = (st["rv"]["op"] == "Lt") == this_left
                cmpb = (bi, st["place"]["l"], this_first_when_true)
    for bi, t in f.calls():
        m_ = re.search(r"PartialOrd::(lt|gt)$", t.get("callee") or "")
        if m_ and len(t["args"]) == 2 and t.get("target") is not None:
            l_, r_ = deep(f, t["args"][0], 8), deep(f, t["args"][1], 8)
            if "Span::location(" in l_ and "Span::location(" in r_:
                this_left = l_.startswith("Span::location(%s)" % span_param)
                cmpb = (t["target"], t["dest"]["l"], (m_.group(1) == "lt") == this_left)
    # `a.location().zip(b.location()).map_or(false, |(x, y)| x.0 < y.0)`: the comparison sits in a closure over the zipped pair
    if cmpb is None:
        from mir import closure_of_origin
        for bi, t in f.calls():
            if not re.search(r"Option::<T>::(map_or|is_some_and|map_or_else)$", t.get("callee") or "") or t.get("target") is None:
                continue
            a0 = deep(f, t["args"][0], 8)
            m_ = re.search(r"Option::zip\(Span::location\((.*?)\), Span::location\(", a0)
            if not m_:
                continue
            zip_this_first = m_.group(1) == span_param
            g = f.prog.fn(closure_of_origin(f.origin_op(t["args"][-1])) or "")
            if g is None:
                continue
            for b2, s2, st2 in g.stmts():
                if st2["k"] == "assign" and st2["rv"]["k"] == "binop" and st2["rv"]["op"] in ("Lt", "Gt"):
                    l_, r_ = deep(g, st2["rv"]["l"], 6), deep(g, st2["rv"]["r"], 6)
                    if re.search(r"\.0\.0$", l_) and re.search(r"\.1\.0$", r_):
                        left_is_first = True
                    elif re.search(r"\.1\.0$", l_) and re.search(r"\.0\.0$", r_):
                        left_is_first = False
                    else:
                        continue
                    first_when_true = (st2["rv"]["op"] == "Lt") == left_is_first      # `the first of the pair comes first` when true
                    cmpb = (bi, t["dest"]["l"], first_when_true == zip_this_first)
    if cmpb is None:
        return False, "the two positions are not compared"
    guard = False
    for bi, si, st in f.stmts():
        if st["k"] == "assign" and st["rv"]["k"] == "binop" and st["rv"]["op"] == "Eq" and all(".file_handle" in deep(f, o_, 6) for o_ in (st["rv"]["l"], st["rv"]["r"])):
            tt = f.blocks[bi]["term"]
            if tt["k"] == "switch" and f.edge_dominates(bi, tt["otherwise"], cmpb[0]):
                guard = True
    for bi, t in f.calls():
        if (t.get("callee") or "").endswith("PartialEq::eq") and all(".file_handle" in deep(f, a, 6) for a in t["args"]):
            bt = T.bool_test(f, t)
            if bt and f.edge_dominates(bt[2], bt[0], cmpb[0]):
                guard = True
    if not guard:
        return False, "the positions are compared without asking whether both spans lie in the same file"
    # the branch on the comparison's answer
    for b in sorted(f.reachable()):
        tt = f.blocks[b]["term"]
        if tt["k"] != "switch" or op_local(tt["discr"]) is None:
            continue
        root = f.copy_root(op_local(tt["discr"]))
        if root != f.copy_root(cmpb[1]):
            continue
        ft = [tg for v, tg in tt["targets"] if v == "0"]
        if not ft:
            continue
        t_edge, f_edge = tt["otherwise"], ft[0]
        def pick(ch, edge):
            xs = [e for bb, e in ch if bb is not None and f.edge_dominates(b, edge, bb)]
            return xs[0] if len(xs) == 1 else None
        et, ef, nt, nf = pick(e_ch, t_edge), pick(e_ch, f_edge), pick(n_ch, t_edge), pick(n_ch, f_edge)
        if None in (et, ef, nt, nf):
            continue
        if not cmpb[2]:
            et, ef, nt, nf = ef, et, nf, nt
        # `this before other`: the error goes to the other one, the note to this one; otherwise the error is at this declaration
        if re.fullmatch(other_re, et) and nt == span_param and ef == span_param and re.fullmatch(other_re, nf):
            return True, ""
        return False, "with the declaration being made written first the error is located at `%s`, otherwise at `%s`" % (et[:50], ef[:50])
    return False, "no branch on the answer of the position comparison"


def option_tests(f, pred):
    """tests of an Option value whose provenance expression satisfies pred: `match`/`if let` (a switch on its discriminant) as
    well as `.is_some()` / `.is_none()`.  Returns (switch_block, some_edge, none_edge) triples."""
    out = []
    for b in sorted(f.reachable()):
        tt = f.blocks[b]["term"]
        if tt["k"] != "switch" or op_local(tt["discr"]) is None:
            continue
        dl = op_local(tt["discr"])
        o = f.origin_local(dl)
        if o[0] == "discr" and (o[2].get("adt") or "").startswith("std::option::Option"):
            if pred(deep(f, o[1], 6)):
                vs = o[2].get("variants") or {}
                some = [tg for v, tg in tt["targets"] if vs.get(v) == "Some"] or [tt["otherwise"]]
                none = [tg for v, tg in tt["targets"] if vs.get(v) == "None"] or [tt["otherwise"]]
                out.append((b, some[0], none[0]))
            continue
        if o[0] == "discr" and "ControlFlow" in (o[2].get("adt") or ""):
            # `opt?`: Continue = Some, Break = None
            base = o[1]
            while base and base[0] in ("ref", "cast"):
                base = base[1]
            if base and base[0] == "call" and (base[1].get("callee") or "").endswith("Try::branch") and base[1]["args"] \
                    and "Option" in ((base[1].get("arg_tys") or [""])[0]) and pred(deep(f, base[1]["args"][0], 6)):
                vs = o[2].get("variants") or {}
                some = [tg for v, tg in tt["targets"] if vs.get(v) == "Continue"] or [tt["otherwise"]]
                none = [tg for v, tg in tt["targets"] if vs.get(v) == "Break"] or [tt["otherwise"]]
                out.append((b, some[0], none[0]))
            continue
        # bool from is_some / is_none (possibly negated)
        neg = False
        if o[0] == "unop" and o[1]["op"] == "Not":
            neg = True
            o = f.origin_op(o[1]["x"])
        if o[0] == "call" and re.search(r"Option::<T>::(is_some|is_none)$", o[1].get("callee") or "") and pred(deep(f, o[1]["args"][0], 6)):
            ft = [tg for v, tg in tt["targets"] if v == "0"]
            if not ft:
                continue
            t_edge, f_edge = tt["otherwise"], ft[0]
            if neg:
                t_edge, f_edge = f_edge, t_edge
            if o[1]["callee"].endswith("is_some"):
                out.append((b, t_edge, f_edge))
            else:
                out.append((b, f_edge, t_edge))
    return out


def result_tests(f, pred):
    """tests of a Result value (discriminant switch, `.is_ok()`, `.is_err()`): (switch_block, ok_edge, err_edge)"""
    out = []
    for b in sorted(f.reachable()):
        tt = f.blocks[b]["term"]
        if tt["k"] != "switch" or op_local(tt["discr"]) is None:
            continue
        o = f.origin_local(op_local(tt["discr"]))
        if o[0] == "discr" and (o[2].get("adt") or "").startswith("std::result::Result"):
            if pred(deep(f, o[1], 6)):
                vs = o[2].get("variants") or {}
                ok = [tg for v, tg in tt["targets"] if vs.get(v) == "Ok"] or [tt["otherwise"]]
                er = [tg for v, tg in tt["targets"] if vs.get(v) == "Err"] or [tt["otherwise"]]
                out.append((b, ok[0], er[0]))
            continue
        neg = False
        if o[0] == "unop" and o[1]["op"] == "Not":
            neg = True
            o = f.origin_op(o[1]["x"])
        if o[0] == "call" and re.search(r"Result::<T, E>::(is_ok|is_err)$", o[1].get("callee") or "") and pred(deep(f, o[1]["args"][0], 6)):
            ft = [tg for v, tg in tt["targets"] if v == "0"]
            if not ft:
                continue
            t_edge, f_edge = tt["otherwise"], ft[0]
            if neg:
                t_edge, f_edge = f_edge, t_edge
            if o[1]["callee"].endswith("is_ok"):
                out.append((b, t_edge, f_edge))
            else:
                out.append((b, f_edge, t_edge))
    return out


def _gt_test(f, want_l=None):
    """`L > len(X)` comparisons: list of (block, stmt, deep(L), deep(X-len), true_edge, false_edge)"""
    out = []
    for bi, si, st in f.stmts():
        if st["k"] == "assign" and st["rv"]["k"] == "binop" and st["rv"]["op"] == "Gt":
            tt = f.blocks[bi]["term"]
            if tt["k"] != "switch" or op_local(tt["discr"]) != st["place"]["l"]:
                continue
            ft = [tg for v, tg in tt["targets"] if v == "0"]
            if not ft:
                continue
            out.append((bi, st, deep(f, st["rv"]["l"]), deep(f, st["rv"]["r"]), tt["otherwise"], ft[0]))
    return out


def declare_rules(run):
    prog = run.prog
    f = run.anchor(R, "SymbolManager::<T>::declare")
    if f is None:
        return
    gts = [g for g in _gt_test(f) if re.match(r"^P\d+$", g[2]) and re.match(r"^Vec::len\(P\d+\.\w+\)$", g[3])]
    if len(gts) != 1:
        run.violation(R, R + "|declare|level-test", f.loc(), "mechanism not found: `hierarchy_level > ctx.hierarchy.len()` test in SymbolManager::declare (a declaration that skips a nesting level must be an error)")
        return
    gb, gst, L, lenX, gtrue, gfalse = gts[0]
    X = re.match(r"^Vec::len\((.*)\)$", lenX).group(1)
    treg = T.dominated_region(f, gtrue, gb)
    run.check(report_error_in_region(f, treg) and err_return_in_region(f, treg), R, R + "|declare|level-test", f.loc(gst["span"]),
              "a declaration with more dots than the enclosing nesting is reported and rejected", "the `skips a nesting level` edge no longer reports and returns Err")
    scope = "SymbolManager::get_parent(P1, None{}, Index::index(%s, Range{start: 0_usize, end: %s}))" % (X, L)
    # duplicate test
    gets = [(bi, t) for bi, t in _calls(f, "HashMap::get")]
    ins = [(bi, t) for bi, t in _calls(f, "HashMap::insert") if "get_children" in deep(f, t["args"][0])]
    push = [(bi, t) for bi, t in _calls(f, "Vec::push") if re.search(r"^P1\.\w+$", deep(f, t["args"][0])) and "SymbolDecl{" in deep(f, t["args"][1], 2)]
    ok = len(gets) == 1 and len(ins) == 1 and len(push) == 1
    if not ok:
        run.violation(R, R + "|declare|shape", f.loc(), "mechanism not found: one duplicate lookup, one insertion into the scope's children and one push of the declaration (found %d/%d/%d)" % (len(gets), len(ins), len(push)))
        return
    gbk, gt = gets[0]
    ibk, it = ins[0]
    pbk, pt = push[0]
    d_scope = deep(f, gt["args"][0])
    i_scope = deep(f, it["args"][0])
    want_get = "SymbolManager::get_children(P1, %s)" % scope
    want_ins = "SymbolManager::get_children_mut(P1, %s)" % scope
    run.check(d_scope == want_get, R, R + "|declare|dup-scope", f.loc(gt["span"]), "duplicates are looked up among the children of ctx.hierarchy[0..level]",
              "the duplicate test looks in `%s`, expected the children of the scope named by the first `level` enclosing labels (`%s`)" % (d_scope, want_get))
    run.check(i_scope == want_ins, R, R + "|declare|insert-scope", f.loc(it["span"]), "the declaration is inserted into the same scope it was tested against",
              "the declaration is inserted into `%s`, but duplicates are tested in `%s`: a name could be declared twice in one scope, or land in another scope than the one it is looked up in" % (i_scope, d_scope))
    kname = deep(f, gt["args"][1])
    iname = deep(f, it["args"][1])
    run.check(kname == iname and re.match(r"^P\d+$", kname) is not None, R, R + "|declare|same-name", f.loc(it["span"]), "tested and inserted under the same name parameter",
              "the duplicate test uses `%s`, the insertion `%s`" % (kname, iname))
    sw = _switch_on_call_result(f, gbk, gt)
    okd = False
    if sw:
        some, none, sb = sw
        sreg = T.dominated_region(f, some, sb)
        okd = report_error_in_region(f, sreg) and err_return_in_region(f, sreg) and f.edge_dominates(sb, none, ibk) and f.edge_dominates(sb, none, pbk)
    run.check(okd, R, R + "|declare|dup-is-error", f.loc(gt["span"]), "a second declaration of a name in one scope is reported and rejected; insertion happens only on the `not found` edge",
              "SymbolManager::declare can insert a name that is already declared in that scope (or no longer reports the duplicate)")
    # the duplicate is reported at the new declaration; the note points at the existing one
    if sw:
        some, none, sb = sw
        sreg = T.dominated_region(f, some, sb)
        errs = [t for b, t in T.region_calls(f, sreg) if re.search(r"Report::(push_parent|error_span)$", short_callee(t))]
        notes = [t for b, t in T.region_calls(f, sreg) if short_callee(t).endswith("Report::note_span")]
        span_param = None
        for i in range(1, f.arg_count + 1):
            if (f.local_ty(i) or "").endswith("diagn::span::Span"):
                span_param = "P%d" % i
        okl = len(errs) == 1 and len(notes) == 1 and span_param is not None
        why = "expected one error and one note in the duplicate branch"
        if okl:
            okl, why = _dup_location(f, errs[0], notes[0], span_param)
        run.check(okl, R, R + "|declare|dup-location", f.loc(gt["span"]), "a duplicate is reported at the later of the two declarations (same file: by position; otherwise the one being made), with a note at the other",
                  "SymbolManager::declare does not locate a duplicate at the declaration written later (%s): declarations are not collected in source order (functions after labels, the contents of #if blocks last), and positions of different files cannot be compared; the first error would not lie on the line that introduced the duplicate" % why)
    run.check(f.edge_dominates(gb, gfalse, ibk) and f.edge_dominates(gb, gfalse, pbk), R, R + "|declare|level-before-insert", f.loc(it["span"]),
              "insertion only behind the nesting-level test", "a declaration can be inserted without having passed the nesting-level test")
    # the new declaration: depth = level, context = enclosing[0..level] + name, item_ref = index of the pushed element
    decl = deep(f, pt["args"][1], 7)
    m_depth = re.search(r"depth: (P\d+)", decl)
    run.check(bool(m_depth) and m_depth.group(1) == L, R, R + "|declare|depth", f.loc(pt["span"]), "the declaration records its dot level as depth",
              "SymbolDecl.depth is `%s`, expected the dot level `%s`" % (m_depth.group(1) if m_depth else "?", L))
    m_ref = re.search(r"item_ref: ItemRef::new\(Vec::len\((P1\.\w+)\)\)", decl)
    run.check(bool(m_ref) and m_ref.group(1) == deep(f, pt["args"][0]), R, R + "|declare|item-ref", f.loc(pt["span"]), "the item reference is the index the declaration is pushed at",
              "the ItemRef is not the length of the declaration list before the push: lookups would return another declaration")
    # new context
    ctxs = [st for bi, si, st in f.stmts() if st["k"] == "assign" and st["rv"]["k"] == "agg" and st["rv"].get("agg") == "adt" and st["rv"]["adt"].endswith("SymbolContext")]
    okc = len(ctxs) == 1
    why = ""
    if okc:
        hv = ctxs[0]["rv"]["ops"][0]
        hl = f.copy_root(op_local(hv)) if op_local(hv) is not None else None
        src = deep(f, hv, 7)
        want_src = "Iterator::collect(Iterator::cloned(iter(Index::index(%s, Range{start: 0_usize, end: %s}))))" % (X, L)
        pushes = [(bi, t) for bi, t in _calls(f, "Vec::push") if op_local(t["args"][0]) is not None and _root_of_ref(f, t["args"][0]) == hl]
        base_ok = src.replace("slice::iter", "iter").endswith(want_src.split("Iterator::collect", 1)[1]) or \
            src == "slice::to_vec(Index::index(%s, Range{start: 0_usize, end: %s}))" % (X, L)        # the same copy of enclosing[0..level]
        okc = base_ok and len(pushes) == 1 and deep(f, pushes[0][1]["args"][1]) == kname
        why = "context built from `%s` with %d push(es)" % (src, len(pushes))
    run.check(okc, R, R + "|declare|new-context", f.loc(), "the context after a declaration is the first `level` enclosing labels plus the declared name",
              "the context recorded for the declaration is not enclosing[0..level] + name (%s): later `.child` names would resolve against the wrong parent" % why)


def _root_of_ref(f, op):
    o = f.origin_op(op)
    while o and o[0] in ("ref", "cast"):
        o = o[1]
    if o and o[0] == "multi":
        return o[1]
    if o and o[0] == "call":
        return o[1]["dest"]["l"]
    l = op_local(op)
    return f.copy_root(l) if l is not None else None


def lookup_rules(run):
    prog = run.prog
    f = run.anchor(R, "SymbolManager::<T>::try_get_by_name")
    if f is not None:
        gts = [g for g in _gt_test(f) if re.match(r"^P\d+$", g[2]) and re.match(r"^Vec::len\(P\d+\.\w+\)$", g[3])]
        ok = len(gts) == 1
        if ok:
            gb, gst, L, lenX, gtrue, gfalse = gts[0]
            X = re.match(r"^Vec::len\((.*)\)$", lenX).group(1)
            tr = _calls(f, "SymbolManager::traverse")
            ok = len(tr) == 1
            if ok:
                tb, tt = tr[0]
                want = "SymbolManager::get_parent(P1, None{}, Index::index(%s, Range{start: 0_usize, end: %s}))" % (X, L)
                got = deep(f, tt["args"][1])
                hier = deep(f, tt["args"][2])
                ok = got == want and re.match(r"^P\d+$", hier) is not None and f.edge_dominates(gb, gfalse, tb)
                # the true edge returns None without a lookup
                treg = T.dominated_region(f, gtrue, gb)
                ok = ok and not any(True for _ in T.region_calls(f, treg))
                # the result of traverse is what is returned
                ok = ok and tt["dest"]["l"] == 0 and not tt["dest"]["p"]
                run.check(ok, R, R + "|lookup|scope", f.loc(tt["span"]), "a reference with k dots is looked up below the first k enclosing labels of the context of use; too many dots find nothing",
                          "try_get_by_name looks `%s` up below `%s`, expected `%s` (and nothing when the level exceeds the nesting)" % (hier, got, want))
        if not ok and len(gts) != 1:
            # the same decision taken by a checked slice: `ctx.hierarchy.get(0..level)` is None exactly when level exceeds the nesting
            SL = r"slice::get\((P\d+\.\w+), Range\{start: 0_usize, end: (P\d+)\}\)"
            tests = option_tests(f, lambda d: bool(re.fullmatch(SL, d)))
            tr = _calls(f, "SymbolManager::traverse")
            if len(tests) == 1 and len(tr) == 1:
                sb, some, none = tests[0]
                tb, tt = tr[0]
                got = deep(f, tt["args"][1], 8)
                hier = deep(f, tt["args"][2])
                m = re.fullmatch(r"SymbolManager::get_parent\(P1, None\{\}, (" + SL + r")@(Some|Continue)\.0\)", got)
                nreg = T.dominated_region(f, none, sb)
                ok2 = m is not None and re.match(r"^P\d+$", hier) is not None and f.edge_dominates(sb, some, tb) and tt["dest"]["l"] == 0 and not tt["dest"]["p"] \
                    and not any((t_.get("callee") or "").find("SymbolManager") >= 0 for _, t_ in T.region_calls(f, nreg))
                run.check(ok2, R, R + "|lookup|scope", f.loc(tt["span"]), "a reference with k dots is looked up below the first k enclosing labels of the context of use (checked slice); too many dots find nothing",
                          "try_get_by_name looks `%s` up below `%s`, expected the parent named by the checked slice of the first `level` enclosing labels" % (hier, got))
            else:
                run.violation(R, R + "|lookup|scope", f.loc(), "mechanism not found: level test in try_get_by_name")
    # traverse / get_parent: descend one name at a time from index 0, recursing on the rest
    for name, last_is_result in (("SymbolManager::<T>::traverse", True), ("SymbolManager::<T>::get_parent", False)):
        g = run.anchor(R, name)
        if g is None:
            continue
        gets = _calls(g, "HashMap::get")
        rec = [(bi, t) for bi, t in g.calls() if (t.get("resolved") or "") == g.id or short_callee(t).endswith(name.split("::<T>::")[-1]) and "SymbolManager" in (t.get("callee") or "")]
        ok = len(gets) == 1 and len(rec) == 1
        why = "%d lookups, %d recursive calls" % (len(gets), len(rec))
        if ok:
            gb, gt = gets[0]
            rb, rt = rec[0]
            key = deep(g, gt["args"][1])
            scope = deep(g, gt["args"][0])
            rest = deep(g, rt["args"][2])
            parent = deep(g, rt["args"][1])
            ok = (key in ("Index::index(P3, 0_usize)", "P3[0]") and scope == "SymbolManager::get_children(P1, P2)" and rest == "Index::index(P3, RangeFrom{start: 1_usize})"
                  and parent.startswith("Some{") and "HashMap::get(" in parent)
            why = "key `%s` in `%s`, recursion on `%s` below `%s`" % (key, scope, rest, parent)
            tests = option_tests(g, lambda d: d.startswith("HashMap::get(SymbolManager::get_children(P1, P2)"))
            if ok and tests:
                sb, some, none = tests[0]
                ok = g.edge_dominates(sb, some, rb)
                nreg = T.dominated_region(g, none, sb)
                # not found -> None (written out, or propagated by `?`)
                ok = ok and (any(st["k"] == "assign" and st["place"]["l"] == 0 and st["rv"]["k"] == "agg" and st["rv"].get("variant") == "None" for b in nreg for st in g.blocks[b]["stmts"])
                             or any(g.blocks[b]["term"]["k"] == "call" and (g.blocks[b]["term"].get("callee") or "").endswith("FromResidual::from_residual") and g.blocks[b]["term"]["dest"]["l"] == 0 for b in nreg))
            else:
                ok = False
        if not ok and len(gets) == 1 and not rec:
            # the same descent written as a loop: a cursor starts at the parent; each path component, in order, is looked up among the
            # cursor's children; a missing name yields nothing; the child becomes the cursor; the cursor is the answer
            gb, gt = gets[0]
            scope = deep(g, gt["args"][0], 5)
            key = deep(g, gt["args"][1], 5)
            mcur = re.fullmatch(r"SymbolManager::get_children\(P1, (var:\w+)\)", scope)
            if mcur and re.fullmatch(r"Iterator::next\((?:slice::iter\()?P3\)?\)@Some\.0", key):
                cur = [l for l in range(g.arg_count + 1, len(g.locals)) if g.local_name(l) and ("var:" + g.local_name(l)) == mcur.group(1)]
                okl = len(cur) == 1
                if okl:
                    ds = g.full_defs(cur[0])
                    exprs = sorted(deep(g, d[3]["rv"]["op"], 7) if d[0] == "stmt" and d[3]["rv"]["k"] == "use" else "?" for d in ds)
                    child = "Some{HashMap::get(%s, %s)@" % (scope, key)
                    okl = len(ds) == 2 and "P2" in exprs and any(e.startswith(child) and e.endswith(".0}") for e in exprs)
                    # a missing name: None, by `?` or written out
                    tests = option_tests(g, lambda d: d.startswith("HashMap::get(" + scope))
                    okl = okl and bool(tests)
                    if okl:
                        sb, some, none = tests[0]
                        nreg = T.dominated_region(g, none, sb)
                        okl = any(g.blocks[b]["term"]["k"] == "call" and (g.blocks[b]["term"].get("callee") or "").endswith("FromResidual::from_residual") and g.blocks[b]["term"]["dest"]["l"] == 0 for b in nreg) or \
                            any(st["k"] == "assign" and st["place"]["l"] == 0 and st["rv"]["k"] == "agg" and st["rv"].get("variant") == "None" for b in nreg for st in g.blocks[b]["stmts"])
                    # the answer is the cursor
                    okl = okl and any(d[0] == "stmt" and d[3]["rv"]["k"] == "use" and op_local(d[3]["rv"]["op"]) is not None and g.copy_root(op_local(d[3]["rv"]["op"])) == cur[0] for d in g.full_defs(0))
                ok = okl
                why = "loop form: cursor `%s`, key `%s`" % (mcur.group(1), key)
        run.check(ok, R, R + "|descend|" + name.split("::<T>::")[-1], g.loc(), "%s descends through the first name of the path in the children of the parent and recurses on the rest; a missing name yields nothing" % name.split("::<T>::")[-1],
                  "%s no longer descends name by name (%s)" % (name, why))
    g = run.anchor(R, "SymbolManager::<T>::get_by_name")
    if g is not None:
        tr = _calls(g, "SymbolManager::try_get_by_name")
        ok = len(tr) == 1
        if ok:
            tb, tt = tr[0]
            ok = [deep(g, a) for a in tt["args"]] == ["P1", "P4", "P5", "P6"]
            sw = _switch_on_call_result(g, tb, tt)
            if ok and sw:
                some, none, sb = sw
                nreg = T.dominated_region(g, none, sb)
                ok = report_error_in_region(g, nreg) and err_return_in_region(g, nreg)
                sreg = T.dominated_region(g, some, sb)
                ok = ok and any(st["k"] == "assign" and st["place"]["l"] == 0 and st["rv"]["k"] == "agg" and st["rv"].get("variant") == "Ok" and "try_get_by_name" in deep(g, st["rv"]["ops"][0]) for b in sreg for st in g.blocks[b]["stmts"])
            else:
                ok = False
        run.check(ok, R, R + "|lookup|unknown-is-error", g.loc(), "get_by_name passes context, level and path on unchanged; an undeclared name is reported and rejected",
                  "get_by_name no longer reports an unknown symbol as an error (or does not pass its context/level/path on unchanged)")


WALKERS = {
    "asm::decls::symbol::collect": "declares the symbols",
    "asm::matcher::match_all": "matches instructions (arguments may name symbols)",
    "asm::resolver::iter::ResolveIterator::<'ast, 'decls>::next": "resolution pass",
    "asm::resolver::iter::ResolveIterator::<'ast, 'decls>::next_simple": "constants pre-pass",
    "asm::defs::bankdef::define": "bank definitions (their fields may name symbols)",
}


def walker_rules(run):
    """sibling AST walkers: each one that keeps a symbol context replaces it, on every Symbol node, by the context recorded
    for that node's declaration"""
    prog = run.prog
    # discovery: every function that keeps a `SymbolDecl.ctx` (the context recorded for a declaration) in a local or a field
    # of its own; all assignments to that local/field are the updates and initialisations of "the current context"
    found = {}
    for f in prog.real_fns():
        holders = set()
        evs = []
        for bi, si, st in f.stmts():
            if st["k"] != "assign" or st["rv"]["k"] not in ("use", "ref"):
                continue
            pl = st["place"]
            src = deep(f, st["rv"]["op"], 5) if st["rv"]["k"] == "use" else deep(f, {"copy": st["rv"]["place"]}, 5)
            fld = None
            for pr in pl["p"]:
                if isinstance(pr, dict) and "f" in pr:
                    fld = pr["name"]
            if pl["p"] and fld is None:
                continue
            h = ("field", fld) if fld else ("local", pl["l"])
            evs.append((h, bi, st, src))
        for bi, t in f.calls():
            d = t["dest"]
            if d["p"]:
                continue
            evs.append((("local", d["l"]), bi, t, deep(f, ("call", t, bi), 5)))
        for h, bi, st, src in evs:
            if re.search(r"SymbolManager::get\(.*\)\.ctx$", src) and (h[0] == "field" or f.local_name(h[1])):
                holders.add(h)
        for h, bi, st, src in evs:
            if h in holders:
                found.setdefault(f.id, []).append((bi, st, src))
    for fid in sorted(set(found) | set(WALKERS)):
        f = prog.fn(fid)
        if f is None:
            run.violation(R, R + "|walker|anchor|" + fid, "-", "mechanism not found: AST walker %s" % fid)
            continue
        if fid not in WALKERS:
            run.violation(R, R + "|walker|unaudited|" + fid, f.loc(), "%s keeps a symbol context but is not in the audited list of AST walkers" % fid)
            continue
        ups = found.get(fid, [])
        upd = [(bi, st, src) for bi, st, src in ups if re.search(r"SymbolManager::get\(.*item_ref.*\)\.ctx$", src) or re.search(r"SymbolManager::get\(.*\)\.ctx$", src)]
        init = [(bi, st, src) for bi, st, src in ups if "new_global" in src or "GLOBAL_SYMBOL_CTX" in src]
        other = [x for x in ups if x not in upd and x not in init]
        key = R + "|walker|" + fid
        ok = len(upd) == 1 and not other
        why = "updates: %s" % [s for _, _, s in ups]
        if ok:
            ub, ust, usrc = upd[0]
            # the declaration looked up is the node's own item_ref
            ok = bool(re.search(r"SymbolManager::get\(P\d+\.symbols, .*@Symbol\.0\.item_ref\)\.ctx$", usrc))
            why = "the context is taken from `%s`" % usrc
            # the update happens on every path through the Symbol arm
            arm = None
            for b, arms, _o, _p, _v in T.enum_switch_arms(f, "AstAny"):
                for v, tg in arms.items():
                    if v == "Symbol":
                        arm = (b, tg)
            if arm is None:
                # `let AstAny::Symbol(..) = node else { continue }`
                for b in sorted(f.reachable()):
                    tt = f.blocks[b]["term"]
                    if tt["k"] == "switch":
                        o = f.origin_local(op_local(tt["discr"])) if op_local(tt["discr"]) is not None else None
                        if o and o[0] == "discr":
                            vs = o[2].get("variants") or {}
                            for v, tg in tt["targets"]:
                                if vs.get(v) == "Symbol":
                                    arm = (b, tg)
            if ok and arm is not None and any(not f.dominates(ib, arm[0]) for ib, _, _ in init):
                ok = False
                why = "the context is set back to the global one while walking (at %s), not only before the first node: a dotted name after that point would lose its enclosing labels" % ", ".join(
                    f.loc((ist.get("span") if isinstance(ist, dict) else None)) for ib, ist, _ in init if not f.dominates(ib, arm[0]))
            if ok and arm is not None:
                sb, entry = arm
                ok = f.dominates(entry, ub) or entry == ub
                # from the arm entry, the loop back edge / function exit cannot be reached without passing the update,
                # except by returning Err
                if ok:
                    seen = set()
                    work = [entry]
                    bad = None
                    while work:
                        x = work.pop()
                        if x in seen or x == ub:
                            continue
                        seen.add(x)
                        tt = f.blocks[x]["term"]
                        if tt["k"] == "return":
                            if not _returns_err_only(f, x):
                                bad = x
                            continue
                        for s_ in f.succs(x):
                            if s_ == sb or (s_ not in seen and f.dominates(s_, sb) and s_ != entry):
                                # back to (a dominator of) the dispatch: next node without an update
                                bad = x
                            else:
                                work.append(s_)
                    if bad is not None:
                        ok = False
                        why = "a path through the Symbol arm reaches the next node (or a non-error return) without updating the context"
            elif ok:
                ok = False
                why = "no Symbol arm found"
            if ok and not init:
                # the context lives in a field of the walker: every construction of the walker starts it as the global context
                ty = re.sub(r"<.*$", "", re.sub(r"^&(mut )?", "", f.local_ty(1))) if f.arg_count >= 1 else None
                cons = []
                for g in prog.real_fns():
                    for b2, s2, st2 in g.stmts():
                        if st2["k"] == "assign" and st2["rv"]["k"] == "agg" and st2["rv"].get("agg") == "adt" and ty and re.sub(r"<.*$", "", st2["rv"]["adt"]) == ty and "symbol_ctx" in (st2["rv"].get("fields") or []):
                            cons.append(deep(g, st2["rv"]["ops"][st2["rv"]["fields"].index("symbol_ctx")]))
                if not cons or not all("GLOBAL_SYMBOL_CTX" in c or "new_global" in c for c in cons):
                    ok = False
                    why = "the context does not start as the global context (constructions: %s)" % cons
        run.check(ok, R, key, f.loc(), "%s (%s): every Symbol node replaces the context by the one recorded for its declaration; starts global" % (fid.rsplit("::", 1)[-1], WALKERS[fid]),
                  "%s: %s; names with leading dots after this node would resolve against the wrong label in this phase only" % (fid, why))
    run.floor(R, "AST walkers with a symbol context", len([x for x in found if x in WALKERS]), 4)
    # the context handed to evaluation is the walker's current one
    n = 0
    for f in prog.real_fns():
        for bi, si, st in f.stmts():
            if st["k"] == "assign" and st["rv"]["k"] == "agg" and st["rv"].get("agg") == "adt" and st["rv"]["adt"].endswith("ResolverContext"):
                fl = st["rv"].get("fields") or []
                if "symbol_ctx" not in fl:
                    continue
                n += 1
                src = deep(f, st["rv"]["ops"][fl.index("symbol_ctx")])
                root = f.raw.get("root") or f.id
                okx = bool(re.match(r"^P1\.symbol_ctx$", src)) or src.endswith(".symbol_ctx") or "GLOBAL_SYMBOL_CTX" in src or src.endswith(".ctx")
                run.check(okx, R, "%s|resolver-context|%s" % (R, root), f.loc(st["span"]), "%s hands its current symbol context to evaluation" % root,
                          "%s builds a ResolverContext whose symbol context is `%s`, not the walker's current context" % (root, src))
    run.floor(R, "ResolverContext constructions", n, 2)


def _returns_err_only(f, b):
    """does return block b (or its straight-line predecessors) set _0 to Err / come from a `?` residual"""
    seen = set()
    work = [b]
    while work:
        x = work.pop()
        if x in seen:
            continue
        seen.add(x)
        for st in f.blocks[x]["stmts"]:
            if st["k"] == "assign" and st["place"]["l"] == 0 and st["rv"]["k"] == "agg":
                return st["rv"].get("variant") == "Err"
        for p_ in f.preds(x):
            tt = f.blocks[p_]["term"]
            if tt["k"] == "call" and (tt.get("callee") or "").endswith("FromResidual::from_residual") and tt["dest"]["l"] == 0:
                return True
            if len(seen) < 6:
                work.append(p_)
    return False


def use_rules(run):
    prog = run.prog
    f = run.anchor(R, "asm::resolver::eval::eval_variable")
    if f is not None:
        gs = _calls(f, "SymbolManager::get_by_name")
        ok = len(gs) == 1
        got = []
        if ok:
            gb, gt = gs[0]
            got = [deep(f, a) for a in gt["args"]]
            ok = (got[0].endswith(".symbols") and got[3] == "P3.symbol_ctx" and re.match(r"^P4\.hierarchy_level$", got[4]) is not None and got[5] == "P4.hierarchy")
        run.check(ok, R, R + "|use|context-of-use", f.loc(), "a variable is looked up with the context of the point of use, the written dot level and the written path",
                  "eval_variable looks symbols up with %s: expected (decls.symbols, report, span, ctx.symbol_ctx, query.hierarchy_level, query.hierarchy)" % got)
        # Unknown value: only returned when guessing is allowed
        cg = _calls(f, "ResolverContext::can_guess")
        okg = len(cg) == 1
        if okg:
            cb, ct = cg[0]
            sw = T.switch_after(f, ct["target"], ct["dest"]["l"]) if ct["target"] is not None else None
            if sw is None:
                # `!ctx.can_guess()`
                for bi, si, st in f.stmts():
                    if st["k"] == "assign" and st["rv"]["k"] == "unop" and op_local(st["rv"]["x"]) == ct["dest"]["l"]:
                        sw2 = T.switch_after(f, bi, st["place"]["l"])
                        if sw2:
                            sw = (sw2[1], sw2[0])
                            ct = dict(ct, target=bi)
            okg = sw is not None
            if okg:
                freg = T.dominated_region(f, sw[1], ct["target"])
                okg = report_error_in_region(f, freg) and err_return_in_region(f, freg)
        run.check(okg, R, R + "|use|unresolved-is-error", f.loc(), "a symbol without a value is an error as soon as guessing is not allowed (last pass)",
                  "eval_variable can return an unknown value when guessing is not allowed: a symbol that never gets a value would assemble to garbage instead of `unresolved symbol`")
    # Expr::Variable -> EvalVariableQuery field mapping
    n = 0
    for g in prog.real_fns():
        for bi, si, st in g.stmts():
            if st["k"] == "assign" and st["rv"]["k"] == "agg" and st["rv"].get("agg") == "adt" and st["rv"]["adt"].endswith("EvalVariableQuery"):
                fl = st["rv"]["fields"]
                n += 1
                lv = deep(g, st["rv"]["ops"][fl.index("hierarchy_level")])
                hv = deep(g, st["rv"]["ops"][fl.index("hierarchy")])
                okv = bool(re.search(r"@Variable\.1$", lv)) and bool(re.search(r"@Variable\.2$", hv))
                root = g.raw.get("root") or g.id
                run.check(okv, R, "%s|use|query-fields|%s" % (R, root), g.loc(st["span"]), "the variable query carries the node's own level and path",
                          "the variable query is built with level `%s` and path `%s`, expected the Variable node's fields 1 and 2" % (lv, hv))
    run.floor(R, "EvalVariableQuery constructions", n, 1)


PARSE_SITES = ["asm::parser::symbol::parse", "asm::parser::directive_const::parse", "expr::parser::ExpressionParser::<'a, 'src>::parse_variable"]


def parse_rules(run):
    """dots are counted one per Dot token, starting from zero, and that count is what the node records"""
    prog = run.prog
    for name in PARSE_SITES:
        f = run.anchor(R, name)
        if f is None:
            continue
        # the counter is whatever local the node records as its level
        ls = set()
        for bi, si, st in f.stmts():
            if st["k"] == "assign" and st["rv"]["k"] == "agg" and st["rv"].get("agg") == "adt":
                fl = st["rv"].get("fields") or []
                for nme, o in zip(fl, st["rv"]["ops"]):
                    if op_local(o) is not None and (nme == "hierarchy_level" or (st["rv"].get("variant") == "Variable" and nme == "1")):
                        ls.add(f.copy_root(op_local(o)))
        ls = sorted(ls)
        ok = len(ls) == 1
        why = "the node's level is not recorded from a single counter"
        node_f, node_l = f, (ls[0] if ls else None)
        if ok:
            # the dots may be counted by a helper shared between the parsers: `(span, level, name) = parse_decl_name(..)?`
            d0 = f.full_defs(ls[0])
            if len(d0) == 1 and d0[0][0] == "stmt" and d0[0][3]["rv"]["k"] == "use":
                m_h = re.fullmatch(r"(\w+(?:::\w+)*)\(.*\)@(?:Continue|Ok)\.0\.(\d+)", deep(f, d0[0][3]["rv"]["op"], 5))
                if m_h:
                    hs = [h for h in prog.real_fns() if h.id.startswith("asm::parser::") and h.id.endswith("::" + m_h.group(1).split("::")[-1])]
                    if len(hs) == 1:
                        h = hs[0]
                        k = int(m_h.group(2))
                        for b2, s2, st2 in h.stmts():
                            if st2["k"] == "assign" and st2["rv"]["k"] == "agg" and st2["rv"].get("agg") == "tuple" and len(st2["rv"]["ops"]) > k:
                                us = [1 for b3, s3, st3 in h.stmts() if st3["k"] == "assign" and st3["place"]["l"] == 0 and st3["rv"]["k"] == "agg" and st3["rv"].get("variant") == "Ok"
                                      and op_local(st3["rv"]["ops"][0]) is not None and h.copy_root(op_local(st3["rv"]["ops"][0])) == h.copy_root(st2["place"]["l"])]
                                if us and op_local(st2["rv"]["ops"][k]) is not None:
                                    f = h
                                    ls = [h.copy_root(op_local(st2["rv"]["ops"][k]))]
        if ok:
            l = ls[0]
            defs = f.full_defs(l)
            inits = []
            incs = []
            other = []
            for d in defs:
                if d[0] != "stmt" or d[3]["k"] != "assign":
                    other.append(d)
                    continue
                rv = d[3]["rv"]
                if rv["k"] == "use" and const_int(rv["op"]) == 0:
                    inits.append(d)
                    continue
                o = f.origin_op(rv["op"]) if rv["k"] == "use" else None
                if o and o[0] == "place" and o[1][0] == "binop":
                    o = o[1]
                if o and o[0] == "binop" and o[1]["op"].startswith("Add") and const_int(o[1]["r"]) == 1 and op_local(o[1]["l"]) is not None and f.copy_root(op_local(o[1]["l"])) == l:
                    incs.append(d)
                    continue
                other.append(d)
            ok = len(inits) == 1 and len(incs) == 1 and not other
            why = "%d initialisation(s) to 0, %d increment(s) by 1, %d other assignment(s)" % (len(inits), len(incs), len(other))
            if ok:
                ib = incs[0][1]
                dots = [(bi, t) for bi, t in _calls(f, "Walker::maybe_expect") if any("Dot" in str(a.get("const", "")) for a in t["args"]) or any("Dot" in deep(f, a) for a in t["args"])]
                # ... or through a helper of the parser that wraps maybe_expect (e.g. one that first asks for a line break)
                for bi, t in f.calls():
                    h_ = prog.fn(t.get("resolved") or "")
                    if h_ is not None and h_.id != f.id and re.search(r"::maybe_expect_\w+$", h_.id) and _calls(h_, "Walker::maybe_expect") \
                            and (any("Dot" in str(a.get("const", "")) for a in t["args"]) or any("Dot" in deep(f, a) for a in t["args"])):
                        dots.append((bi, t))
                okd = False
                for bi, t in dots:
                    sw = _switch_on_call_result(f, bi, t)
                    if sw and f.edge_dominates(sw[2], sw[0], ib):
                        okd = True
                ok = okd
                why = "the increment is not on the `a Dot token was consumed` edge"
            if ok and f is not node_f:
                f, l = node_f, node_l      # back to the parser that builds the node
            if ok:
                # recorded in the node
                rec = False
                for bi, si, st in f.stmts():
                    if st["k"] == "assign" and st["rv"]["k"] == "agg" and st["rv"].get("agg") == "adt":
                        fl = st["rv"].get("fields") or []
                        for nme, o in zip(fl, st["rv"]["ops"]):
                            if op_local(o) is not None and f.copy_root(op_local(o)) == l and (nme == "hierarchy_level" or (st["rv"].get("variant") == "Variable" and nme == "1")):
                                rec = True
                ok = rec
                why = "the counter is not what the node records as its level"
        run.check(ok, R, R + "|parse|" + name, f.loc(), "%s counts one level per leading dot and records the count" % name.rsplit("::", 1)[-1],
                  "%s: %s" % (name, why))


def returned_counter(f):
    """the local whose value is returned as `Ok(counter)` (followed back through copies)"""
    for bi, si, st in f.stmts():
        if st["k"] == "assign" and st["place"]["l"] == 0 and not st["place"]["p"] and st["rv"]["k"] == "agg" and st["rv"].get("variant") == "Ok" and st["rv"]["ops"]:
            l = op_local(st["rv"]["ops"][0])
            if l is not None:
                return f.copy_root(l)
    return None


def counter_increments(f, counter):
    """blocks holding `counter += 1`"""
    out = []
    for bi, si, st in f.stmts():
        if st["k"] == "assign" and st["rv"]["k"] == "binop" and st["rv"]["op"].startswith("Add") and const_int(st["rv"]["r"]) == 1:
            ll = op_local(st["rv"]["l"])
            if ll is not None and counter is not None and f.copy_root(ll) == counter:
                out.append(bi)
    return out


def prepass_rules(run):
    """the constants / #if pre-pass terminates on `no progress`; that is only sound when the per-round count is the number of
    constants that have a value in this round: every constant node is evaluated or answered `Resolved` in every round"""
    prog = run.prog
    f = run.anchor(R, "asm::resolver::constant::resolve_constants_simple")
    g = run.anchor(R, "asm::resolver::constant::resolve_constant_simple")
    if f is not None:
        cs = _calls(f, "constant::resolve_constant_simple")
        ok = len(cs) == 1
        why = "%d call(s) of resolve_constant_simple" % len(cs)
        if ok:
            cb, ct = cs[0]
            arm = None
            for b, arms, oth, pl, vs in T.enum_switch_arms(f, "AstSymbolKind"):
                if "Constant" in arms:
                    arm = (b, arms["Constant"])
            if arm is None:
                for b in sorted(f.reachable()):
                    tt = f.blocks[b]["term"]
                    if tt["k"] == "switch" and op_local(tt["discr"]) is not None:
                        o = f.origin_local(op_local(tt["discr"]))
                        if o[0] == "discr" and "AstSymbolKind" in (o[2].get("adt") or ""):
                            vs = o[2].get("variants") or {}
                            for v, tg in tt["targets"]:
                                if vs.get(v) == "Constant":
                                    arm = (b, tg)
                            if arm is None and any(vs.get(v) == "Label" for v, tg in tt["targets"]):
                                arm = (b, tt["otherwise"])
            ok = arm is not None
            why = "no match on the symbol kind"
            if ok:
                sb, entry = arm
                loop = set()
                for h in sorted(f.reachable()):
                    l_ = natural_loop(f, h)
                    if cb in l_:
                        loop |= l_
                        hdr = h
                incs = counter_increments(f, returned_counter(f))
                # from the Constant arm, the next round of the loop cannot be reached without the call (or without
                # counting the constant)
                seen = set()
                work = [entry]
                bad = False
                while work:
                    x = work.pop()
                    if x in seen or x == cb or x in incs:
                        continue
                    seen.add(x)
                    for s_ in f.succs(x):
                        if f.blocks[s_]["cleanup"]:
                            continue
                        if s_ not in loop:
                            continue
                        if f.dominates(s_, sb) and s_ != entry:
                            bad = True
                        else:
                            work.append(s_)
                ok = not bad
                why = "a constant node can be skipped without being evaluated or counted"
            if ok:
                # after the call, the counter is incremented by one exactly on the Resolved answer
                after = [b for b in incs if f.dominates(cb, b)]
                ok = len(after) == 1
                why = "the count is not incremented once per resolved constant"
                if ok:
                    okr = False
                    for b, arms, oth, pl, vs in T.enum_switch_arms(f, "ResolutionState"):
                        if "Resolved" in arms and f.edge_dominates(b, arms["Resolved"], after[0]):
                            okr = True
                        elif "Unresolved" in arms and oth is not None and f.edge_dominates(b, oth, after[0]):
                            okr = True
                    ok = okr
                    why = "the increment is not on the `Resolved` answer"
        run.check(ok, R, R + "|prepass|count-all", f.loc(), "every constant node is evaluated (or answered from its frozen value) and counted once per round",
                  "resolve_constants_simple: %s: the round count is no longer the number of constants with a value, so the `no progress` exit of the pre-pass can fire while constants are still being resolved (constants used before their declaration stay unknown)" % why)
    if g is not None:
        # the early answer for a frozen constant is `Resolved`
        okf = True
        for bi, si, st in g.stmts():
            if st["k"] == "assign" and st["rv"]["k"] == "use" and deep(g, st["rv"]["op"]).endswith(".resolved"):
                tt = g.blocks[bi]["term"]
                if tt["k"] == "switch" and op_local(tt["discr"]) == st["place"]["l"]:
                    okf = False
                    reg = T.dominated_region(g, tt["otherwise"], bi)
                    for x in reg:
                        for st2 in g.blocks[x]["stmts"]:
                            if st2["k"] == "assign" and st2["place"]["l"] == 0 and st2["rv"]["k"] == "agg" and st2["rv"].get("variant") == "Ok" and "Resolved{}" == deep(g, st2["rv"]["ops"][0]):
                                okf = True
        run.check(okf, R, R + "|prepass|frozen-counts", g.loc(), "a constant frozen in an earlier round answers `Resolved` (and is counted)",
                  "resolve_constant_simple no longer answers `Resolved` for an already resolved constant: the pre-pass count is not monotone")


def conditional_scope_rule(run):
    """a label declared inside a selected `#if` arm is an enclosing label for the dotted names after the block, as if the arm's
    lines stood in place.  Declarations are made round by round while `#if`s are still undecided; the declaration walker therefore
    has to treat an undecided DirectiveIf node specially (defer or later re-parent what follows it).  A walker that steps over
    DirectiveIf like any other node declares the dotted names after the block under the label before it, for good."""
    f = run.anchor(R, "asm::decls::symbol::collect")
    if f is None:
        return
    handles_if = False
    for b, arms, oth, pl, vs in T.enum_switch_arms(f, "AstAny"):
        if "DirectiveIf" in arms:
            handles_if = True
    redeclares = not any(True for sb, some_, none_ in option_tests(f, lambda d: d.endswith(".item_ref")))
    run.check(handles_if or redeclares, R, R + "|walker|conditional-scope", f.loc(),
              "the declaration walker defers or re-parents what follows an undecided #if",
              "decls::symbol::collect steps over an undecided `#if` like any other node and never re-declares a symbol: a dotted name after the block is declared under the label that precedes the block, although the selected arm declares a label (`a:` / `#if true { b: }` / `.c:` gives `a.c`, and `ld b.c` fails; `#if true { first: }` / `.loop:` fails with `skips a nesting level`)")


def simple_lookup_context(run):
    """conditions of `#if` and the constants they depend on are evaluated before addresses exist, by the `simple` / `certain`
    variable evaluators; a dotted name in them has to be looked up in the context of the place where it is written, like
    everywhere else -- not in the global context"""
    n = 0
    for name in ("asm::resolver::eval::eval_variable_simple", "asm::resolver::eval::eval_variable_certain"):
        f = run.prog.fn(name)
        if f is None:
            run.violation(R, R + "|lookup|simple-context|" + name, "-", "mechanism not found: %s" % name)
            continue
        for bi, t in f.calls():
            c = t.get("resolved") or t.get("callee") or ""
            if not re.search(r"SymbolManager(::<.*>)?::(try_get_by_name|get_by_name)$", c):
                continue
            n += 1
            ctxs = [deep(f, a, 4) for a, ty in zip(t["args"], t.get("arg_tys") or []) if "SymbolContext" in ty]
            ok = bool(ctxs) and not any("new_global" in d or "GLOBAL" in d for d in ctxs)
            run.check(ok, R, R + "|lookup|simple-context|" + name.rsplit("::", 1)[-1], f.loc(t["span"]), "%s looks names up in the context of use" % name.rsplit("::", 1)[-1],
                      "%s looks every name up in the global context (%s): a dotted name in an `#if` condition (or in a constant feeding one) is never found - `a:` / `.dbg = true` / `#if .dbg { }` fails with `unknown symbol .dbg`, although `.dbg` works in the same place inside an instruction or a data directive" % (name.rsplit("::", 1)[-1], ctxs))
    run.floor(R, "lookups of the simple evaluators", n, 2)
