#!/bin/bash
# usage: seedtest.sh <patch.diff> <prop> [prop...]   -- apply a seeded change to a scratch copy of /repo and run the checks on it
P=$(readlink -f $1); shift
T=$(mktemp -d /tmp/casm-seed-XXXX)
rsync -a --exclude target --exclude .git /repo/ $T/
( cd $T && patch -p1 -s < $P ) || { echo "PATCH DOES NOT APPLY"; rm -rf $T; exit 3; }
for prop in "$@"; do
  echo "--- $prop on $(basename $P)"
  python3 /verif/lint/check.py $prop --repo $T --no-evidence 2>&1 | grep -v "^      bb" | cut -c1-400 | head -${SEED_LINES:-12}
done
rm -rf $T
