"""UNIT — byte index vs character index (C13, crash class of C03).

Union-find over usize values (locals, tuple components, usize struct fields); classes merge through copies,
+/- with a non-constant, comparisons, Range{start,end}, argument/parameter and return/destination links.
A class containing both a Byte seed and a Char seed is a violation, reported with the chain of statements."""
import re
from collections import defaultdict, deque
from mir import (peel, op_place, op_local, const_int, describe_origin)

USIZE = ("usize",)
BYTE_RESULT = re.compile(r"^(core::str::<impl str>::len|std::string::String::len|core::str::<impl str>::find|core::char::methods::<impl char>::len_utf8|std::char::methods::<impl char>::len_utf8)$")
CHAR_VEC_TY = re.compile(r"(Vec<char>|\[char\]|\[char; \d+\])")


class UF:
    def __init__(self):
        self.p = {}
        self.adj = defaultdict(list)

    def find(self, x):
        self.p.setdefault(x, x)
        r = x
        while self.p[r] != r:
            r = self.p[r]
        while self.p[x] != r:
            self.p[x], x = r, self.p[x]
        return r

    def union(self, a, b, why):
        self.adj[a].append((b, why))
        self.adj[b].append((a, why))
        ra, rb = self.find(a), self.find(b)
        if ra != rb:
            self.p[ra] = rb

    def path(self, a, b):
        prev = {a: None}
        dq = deque([a])
        while dq:
            x = dq.popleft()
            if x == b:
                break
            for y, why in self.adj.get(x, ()):
                if y not in prev:
                    prev[y] = (x, why)
                    dq.append(y)
        if b not in prev:
            return []
        out = []
        cur = b
        while prev[cur] is not None:
            x, why = prev[cur]
            out.append(why)
            cur = x
        out.reverse()
        return out


def is_usize(ty):
    return ty == "usize"


def node_of_place(f, pl):
    """node for a usize-valued place: local, tuple field of a local, or named struct field (global per ADT field)"""
    if not pl["p"]:
        return ("l", f.id, pl["l"])
    projs = [p for p in pl["p"] if p != "deref"]
    if not projs:
        # `*r` for r: &mut usize - the node of what r was borrowed from (through reborrows), else of the reference itself
        cur = pl["l"]
        for _ in range(6):
            ds_ = f.full_defs(cur)
            if len(ds_) == 1 and ds_[0][0] == "stmt" and ds_[0][3]["k"] == "assign" and ds_[0][3]["rv"]["k"] == "ref" and not (1 <= cur <= f.arg_count):
                tp = ds_[0][3]["rv"]["place"]
                if not [x for x in tp["p"] if x != "deref"]:
                    if not tp["p"]:
                        return ("l", f.id, tp["l"])
                    cur = tp["l"]
                    continue
                return node_of_place(f, tp)
            break
        return ("l", f.id, cur)
    if len(projs) == 1 and isinstance(projs[0], dict) and "f" in projs[0]:
        pr = projs[0]
        base_ty = f.local_ty(pl["l"])
        if pr["name"].isdigit():
            # tuple component of a local (through refs as well)
            return ("t", f.id, pl["l"], pr["name"])
        # struct field: one node per (struct type, field)
        bt = re.sub(r"^&(mut )?", "", base_ty)
        bt = re.sub(r"<.*$", "", bt)
        return ("fld", bt, pr["name"])
    if len(projs) == 2 and all(isinstance(x, dict) and "f" in x for x in projs) and projs[1]["name"].isdigit():
        # e.g. (_x as Some).0 handled elsewhere; struct.field.0
        return ("fld2", f.id, pl["l"], projs[0]["name"], projs[1]["name"])
    if len(projs) >= 2 and isinstance(projs[0], dict) and "downcast" in projs[0] and isinstance(projs[1], dict) and "f" in projs[1]:
        rest = projs[2:]
        if not rest:
            return ("dc", f.id, pl["l"], projs[0]["downcast"], projs[1]["name"])
        if len(rest) == 1 and isinstance(rest[0], dict) and "f" in rest[0]:
            return ("dc2", f.id, pl["l"], projs[0]["downcast"], projs[1]["name"], rest[0]["name"])
    return None


def place_ty(f, pl):
    ty = f.local_ty(pl["l"])
    for pr in pl["p"]:
        if isinstance(pr, dict) and "f" in pr:
            ty = pr["ty"]
        elif pr == "deref":
            ty = re.sub(r"^&(mut )?", "", ty)
    return ty


LAYOUT_FILES = ("src/util/bitvec_format.rs", "src/util/bitvec.rs")
TEXT_UNITS = ("Byte", "Char")
LAYOUT_UNITS = ("Bit", "OutByte", "AddrUnit")


def addr_unit_params(prog):
    """(function id, parameter index) pairs that receive an address-unit width (a field named *addr*unit* at some call site)"""
    from rules_sym import deep
    out = set()
    for f in prog.real_fns():
        for bi, t in f.calls():
            g = prog.fn(t.get("resolved") or "")
            if g is None:
                continue
            for i, a in enumerate(t["args"]):
                if op_place(a) is None or i + 1 > g.arg_count or g.local_ty(i + 1) != "usize":
                    continue
                d = deep(f, a, 4)
                if re.search(r"\.(addr(ess)?_unit)$", d):
                    out.add((g.id, i + 1))
    return out


def unit(run, scope_files=None, layout=False):
    R = "UNIT"
    prog = run.prog
    uf = UF()
    const_adds = []
    seeds = {}     # node -> (unit, why)
    fns = [f for f in prog.real_fns() if scope_files is None or any(f.file.startswith(s) for s in scope_files)]

    def seed(n, unit_, why):
        if n is None:
            return
        seeds.setdefault(n, []).append((unit_, why))

    def opnode(f, op):
        pl = op_place(op)
        if pl is None:
            return None
        ty = place_ty(f, pl)
        if ty != "usize":
            return None
        return node_of_place(f, pl)

    def loc(f, span):
        return "%s:%d" % (span["file"], span["line"])

    au_params = addr_unit_params(prog) if layout else set()

    def is_addr_unit(f, op):
        """does the operand hold an address-unit width: such a parameter of this function, or of the function a closure
        captured it from"""
        l_ = op_local(op)
        if l_ is None:
            return False
        root_fn = f
        o_ = f.origin_op(op)
        while o_ and o_[0] in ("ref", "cast"):
            o_ = o_[1]
        if o_ and o_[0] == "param" and (f.id, o_[1]) in au_params:
            return True
        if f.kind == "Closure" and o_ and o_[0] == "place" and o_[1] == ("param", 1):
            up = f.upvar_names()
            for pr in o_[2]:
                if isinstance(pr, dict) and "f" in pr and pr["f"] in up:
                    par = prog.fn(f.raw.get("parent"))
                    if par is not None:
                        for i_ in range(1, par.arg_count + 1):
                            if par.local_name(i_) == up[pr["f"]] and (par.id, i_) in au_params:
                                return True
                    break
        return False

    for f in fns:
        # parameters and return
        for bi, si, st in f.stmts():
            if st["k"] != "assign":
                continue
            rv = st["rv"]
            dst_ty = place_ty(f, st["place"])
            where = "%s (%s)" % (loc(f, st["span"]), f.id.rsplit("::", 1)[-1])
            if rv["k"] == "use" and dst_ty == "usize":
                a = node_of_place(f, st["place"])
                b = opnode(f, rv["op"])
                if a and b:
                    uf.union(a, b, "copy at " + where)
            elif rv["k"] == "use" and re.match(r"^\(usize, usize\)$", dst_ty):
                pl = op_place(rv["op"])
                if pl is not None and not st["place"]["p"]:
                    for k in ("0", "1"):
                        a = ("t", f.id, st["place"]["l"], k)
                        if not pl["p"]:
                            b = ("t", f.id, pl["l"], k)
                        else:
                            nb = node_of_place(f, pl)
                            b = None
                            if nb and nb[0] == "dc":
                                b = ("dc2",) + nb[1:] + (k,)
                            elif nb and nb[0] == "fld":
                                b = ("fldt",) + nb[1:] + (k,)
                        if b:
                            uf.union(a, b, "tuple copy at " + where)
            elif rv["k"] == "binop":
                op = rv["op"].replace("WithOverflow", "")
                l, r = rv["l"], rv["r"]
                ln, rn = opnode(f, l), opnode(f, r)
                if op in ("Add", "Sub"):
                    cc = const_int(r) if const_int(r) is not None else const_int(l)
                    vn = ln if const_int(r) is not None else rn
                    if cc and vn and not st["span"].get("mac"):
                        const_adds.append((vn, f, op, cc, st["span"]))
                    # result node: for WithOverflow the result is a tuple (usize,bool) local: component 0
                    if "WithOverflow" in rv["op"]:
                        res = ("t", f.id, st["place"]["l"], "0") if not st["place"]["p"] else None
                    else:
                        res = node_of_place(f, st["place"]) if dst_ty == "usize" else None
                    for x in (ln, rn):
                        if x and res:
                            uf.union(x, res, "%s at %s" % (op, where))
                    if ln and rn:
                        uf.union(ln, rn, "%s operands at %s" % (op, where))
                elif op in ("Lt", "Le", "Gt", "Ge", "Eq", "Ne"):
                    if ln and rn:
                        uf.union(ln, rn, "comparison at " + where)
                elif op == "Div" and layout and f.file in LAYOUT_FILES and dst_ty == "usize" and is_addr_unit(f, r):
                    seed(node_of_place(f, st["place"]), "AddrUnit", "bit position divided by the address unit at " + where)
            elif rv["k"] == "agg":
                if rv["agg"] == "tuple" and not st["place"]["p"]:
                    for k, o in enumerate(rv["ops"]):
                        n = opnode(f, o)
                        if n:
                            uf.union(("t", f.id, st["place"]["l"], str(k)), n, "tuple built at " + where)
                elif rv["agg"] == "adt":
                    adt = rv["adt"]
                    if adt.endswith("ops::Range") or adt.endswith("ops::RangeInclusive") or adt.endswith("ops::RangeFrom") or adt.endswith("ops::RangeTo"):
                        ns = [opnode(f, o) for o in rv["ops"]]
                        rn_ = ("rng", f.id, st["place"]["l"]) if not st["place"]["p"] else None
                        for n in ns:
                            if n and rn_:
                                uf.union(n, rn_, "range bound at " + where)
                    elif adt.endswith("::Option") or adt.endswith("::Result"):
                        pass
                    else:
                        # struct literal: usize fields
                        short = re.sub(r"<.*$", "", adt)
                        for name, o in zip(rv.get("fields", []), rv["ops"]):
                            n = opnode(f, o)
                            if n:
                                uf.union(("fld", short, name), n, "field %s.%s initialised at %s" % (short.rsplit("::", 1)[-1], name, where))
            elif rv["k"] == "ref":
                pass
            # indexing projections: chars[i] on [char]/Vec<char> places
            for pl in [st["place"]] + [p for p in _rv_places(rv)]:
                for i, pr in enumerate(pl["p"]):
                    if isinstance(pr, dict) and "idx" in pr:
                        base = dict(pl)
                        base["p"] = pl["p"][:i]
                        bty = place_ty(f, base)
                        if re.match(r"^\[char(; \d+)?\]$", bty):
                            seed(("l", f.id, pr["idx"]), "Char", "index into a [char] at " + where)
        for bi, t in f.calls():
            c = t.get("callee") or ""
            r_ = t.get("resolved") or ""
            rf = t.get("resolved_full") or ""
            where = "%s (%s)" % (loc(f, t["span"]), f.id.rsplit("::", 1)[-1])
            args = t["args"]
            atys = t.get("arg_tys", [])
            dty = f.local_ty(t["dest"]["l"]) if not t["dest"]["p"] else ""
            dn = ("l", f.id, t["dest"]["l"]) if dty == "usize" and not t["dest"]["p"] else None
            # ---- seeds from std
            if BYTE_RESULT.match(c) and dn:
                # the length of a freshly formatted string is a display width, not an offset into source text
                o_ = peel(f.origin_op(args[0])) if args else ("unknown",)
                hops = 0
                while o_[0] == "call" and (o_[1].get("callee") or "") in ("std::hint::must_use", "std::ops::Deref::deref", "std::string::String::as_str") and o_[1]["args"] and hops < 4:
                    o_ = peel(f.origin_op(o_[1]["args"][0]))
                    hops += 1
                formatted = o_[0] == "call" and ((o_[1].get("callee") or "") in ("std::fmt::format", "alloc::fmt::format") or
                                                 # `n.to_string()` of an integer: digits only
                                                 ((o_[1].get("callee") or "").endswith("ToString::to_string") and re.fullmatch(r"&?(usize|u8|u16|u32|u64|u128|isize|i8|i16|i32|i64|i128)", ((o_[1].get("arg_tys") or [""])[0]))))
                if not formatted:
                    seed(dn, "Byte", "result of %s at %s" % (c.rsplit("::", 1)[-1], where))
            if c in ("std::vec::Vec::<T, A>::len", "core::slice::<impl [T]>::len") and atys and CHAR_VEC_TY.search(atys[0]) and dn:
                seed(dn, "Char", "length of a Vec<char> at " + where)
            if layout and f.file in LAYOUT_FILES:
                if c in ("std::vec::Vec::<T, A>::len", "core::slice::<impl [T]>::len") and atys and re.search(r"(Vec<u8>|\[u8\])", atys[0]) and dn:
                    seed(dn, "OutByte", "number of output bytes collected (Vec<u8>::len) at " + where)
                if r_.endswith("BitVec::read_bit") or r_.endswith("BitVec::write_bit"):
                    seed(opnode(f, args[1]), "Bit", "bit index given to %s at %s" % (r_.rsplit("::", 1)[-1], where))
                if r_.endswith("BitVec::len") and dn:
                    seed(dn, "Bit", "BitVec::len at " + where)
            if c in ("std::cmp::min", "std::cmp::max", "std::cmp::Ord::min", "std::cmp::Ord::max", "std::cmp::Ord::clamp") and dn:
                for a in args:
                    n_ = opnode(f, a)
                    if n_:
                        uf.union(dn, n_, "min/max at " + where)
            if c in ("core::slice::<impl [T]>::len",) and atys and re.search(r"\[u8\]", atys[0]) and dn:
                o_ = peel(f.origin_op(args[0]))
                if o_[0] == "call" and (o_[1].get("callee") or "").endswith("as_bytes"):
                    seed(dn, "Byte", "length of str::as_bytes() at " + where)
            if c == "std::iter::Iterator::count" and atys and "Chars" in atys[0] and dn:
                seed(dn, "Char", "Chars::count at " + where)
            if c == "std::ops::Index::index" and len(args) == 2 and atys:
                n = opnode(f, args[1])
                if CHAR_VEC_TY.search(atys[0]) and atys[1] == "usize":
                    seed(n, "Char", "index into a Vec<char> at " + where)
                if CHAR_VEC_TY.search(atys[0]) and "ops::Range" in atys[1]:
                    rl = op_local(args[1])
                    if rl is not None:
                        seed(("rng", f.id, f.copy_root(rl)), "Char", "Vec<char> indexed by a range at " + where)
                if re.search(r"^&(mut )?(str|std::string::String)$", atys[0]):
                    rl = op_local(args[1])
                    if rl is not None:
                        seed(("rng", f.id, f.copy_root(rl)), "Byte", "str indexed by a range at " + where)
            if c in ("core::str::<impl str>::get", "core::str::<impl str>::get_unchecked", "core::str::<impl str>::is_char_boundary", "core::str::<impl str>::split_at") and len(args) >= 2:
                n = opnode(f, args[1])
                if n:
                    seed(n, "Byte", "%s at %s" % (c.rsplit("::", 1)[-1], where))
                rl = op_local(args[1])
                if rl is not None:
                    seed(("rng", f.id, f.copy_root(rl)), "Byte", "str::get with a range at " + where)
            if c == "std::iter::Iterator::next" and "CharIndices" in (atys[0] if atys else ""):
                # Option<(usize, char)>: payload component 0 is a byte offset
                if not t["dest"]["p"]:
                    seed(("dc", f.id, t["dest"]["l"], "Some", "0", "0"), "Byte", "CharIndices offset at " + where)
                    seed(("dc2", f.id, t["dest"]["l"], "Some", "0", "0"), "Byte", "CharIndices offset at " + where)
            # ---- local calls: link arguments and results
            tg, known = prog.call_targets(f, t)

            def argnode(a):
                """node of a usize argument, or of the usize a `&usize` / `&mut usize` argument points to"""
                pl_ = op_place(a)
                if pl_ is None:
                    return None
                ty_ = place_ty(f, pl_)
                if ty_ == "usize":
                    return node_of_place(f, pl_)
                if re.match(r"^&(mut )?usize$", ty_) and not pl_["p"]:
                    ds_ = f.full_defs(pl_["l"])
                    if len(ds_) == 1 and ds_[0][0] == "stmt" and ds_[0][3]["k"] == "assign" and ds_[0][3]["rv"]["k"] == "ref":
                        return node_of_place(f, ds_[0][3]["rv"]["place"])
                    if 1 <= pl_["l"] <= f.arg_count:
                        return ("l", f.id, pl_["l"])
                return None

            for gid in tg:
                g = prog.fn(gid)
                if g is None:
                    continue
                actuals = list(enumerate(args))
                if g.kind == "Closure" and re.search(r"::(call|call_mut|call_once)$", c) and len(args) == 2:
                    # closure call: the second argument is the tuple of actual arguments
                    tl = op_local(args[1])
                    tds = f.full_defs(tl) if tl is not None else []
                    if len(tds) == 1 and tds[0][0] == "stmt" and tds[0][3]["rv"]["k"] == "agg" and tds[0][3]["rv"].get("agg") == "tuple":
                        actuals = [(i + 1, o) for i, o in enumerate(tds[0][3]["rv"]["ops"])]
                    else:
                        actuals = []
                for i, a in actuals:
                    if i + 1 > g.arg_count:
                        break
                    pty = g.local_ty(i + 1)
                    if pty == "usize" or re.match(r"^&(mut )?usize$", pty or ""):
                        n = argnode(a)
                        if n:
                            uf.union(n, ("l", g.id, i + 1), "argument %d of %s at %s" % (i + 1, g.id.rsplit("::", 1)[-1], where))
                if g.ret == "usize" and dn:
                    uf.union(dn, ("l", g.id, 0), "result of %s at %s" % (g.id.rsplit("::", 1)[-1], where))
                if re.match(r"^\(usize, usize\)$", g.ret) and not t["dest"]["p"]:
                    for k in ("0", "1"):
                        uf.union(("t", f.id, t["dest"]["l"], k), ("t", g.id, 0, k), "result component %s of %s at %s" % (k, g.id.rsplit("::", 1)[-1], where))
                m = re.match(r"^std::option::Option<\(usize, usize\)>$", g.ret)
                if m and not t["dest"]["p"]:
                    for k in ("0", "1"):
                        uf.union(("dc2", f.id, t["dest"]["l"], "Some", "0", k), ("dc2", g.id, 0, "Some", "0", k), "optional result of %s at %s" % (g.id.rsplit("::", 1)[-1], where))
            # Option<(usize,usize)>::unwrap : payload -> tuple
            if c in ("std::option::Option::<T>::unwrap", "std::option::Option::<T>::expect") and atys and atys[0] == "std::option::Option<(usize, usize)>" and not t["dest"]["p"]:
                al = op_local(args[0])
                if al is not None:
                    src_call = peel(f.origin_local(al))
                    for k in ("0", "1"):
                        uf.union(("t", f.id, t["dest"]["l"], k), ("dc2", f.id, f.copy_root(al), "Some", "0", k), "unwrap at " + where)
        # moves between Option<(usize,usize)> locals and copies of dest locals are handled via copy_root above
    # the Option<(usize,usize)> returned by Span::location is a byte range: seed from its definition (struct field)
    for f in fns:
        if f.id.endswith("diagn::span::Span::location"):
            for k in ("0", "1"):
                seed(("dc2", f.id, 0, "Some", "0", k), "Byte", "Span::location returns the byte range of the span")
        if f.id.endswith("diagn::span::Span::new"):
            for i in range(1, f.arg_count + 1):
                if f.local_ty(i) == "usize":
                    seed(("l", f.id, i), "Byte", "Span::new takes byte offsets")
    # aggregate `Some((a,b))` -> dc2 nodes; and `(x as Some).0` tuple reads are covered by node_of_place ('dc'/'dc2')
    for f in fns:
        for bi, si, st in f.stmts():
            if st["k"] == "assign" and st["rv"]["k"] == "agg" and st["rv"].get("agg") == "adt" and st["rv"]["adt"].endswith("::Option") and st["rv"].get("variant") == "Some" and not st["place"]["p"]:
                o = op_place(st["rv"]["ops"][0]) if st["rv"]["ops"] else None
                if o is not None and not o["p"] and re.match(r"^\(usize, usize\)$", f.local_ty(o["l"])):
                    for k in ("0", "1"):
                        uf.union(("dc2", f.id, st["place"]["l"], "Some", "0", k), ("t", f.id, o["l"], k), "Some(..) built at %s:%d" % (st["span"]["file"], st["span"]["line"]))
    # evaluate
    classes = defaultdict(list)
    for n, ss in seeds.items():
        classes[uf.find(n)].append((n, ss))
    n_classes = 0
    n_conf = 0
    for root, members in sorted(classes.items(), key=lambda x: str(x[0])):
        units = set(u for n, ss in members for (u, w) in ss)
        n_classes += 1
        lay = sorted(u for u in units if u in LAYOUT_UNITS)
        if len(lay) > 1:
            n_conf += 1
            a_ = [(n, w) for n, ss in members for (u, w) in ss if u == lay[0]]
            b_ = [(n, w) for n, ss in members for (u, w) in ss if u == lay[1]]
            chain = uf.path(a_[0][0], b_[0][0])
            fnames = sorted(set(_fn_of(x) for x in [a_[0][0], b_[0][0]] if _fn_of(x)))
            run.violation("UNIT5", "UNIT5|mixed|%s|%s" % ("+".join(lay), "|".join(fnames)), b_[0][1].split(" at ")[-1].split(" ")[0] if " at " in b_[0][1] else "-",
                          "quantities of different units meet in one value: %s [%s] and %s [%s]; bit positions, output byte counts and addresses in address units differ by the factors 8 and the address unit" % (lay[0], a_[0][1], lay[1], b_[0][1]),
                          ["%s: %s" % (lay[0], a_[0][1])] + chain + ["%s: %s" % (lay[1], b_[0][1])])
        if len([u for u in units if u in TEXT_UNITS]) > 1:
            n_conf += 1
            bs = [(n, w) for n, ss in members for (u, w) in ss if u == "Byte"]
            cs_ = [(n, w) for n, ss in members for (u, w) in ss if u == "Char"]
            best = None
            for c in cs_[:6]:
                for b in bs[:40]:
                    ch = uf.path(b[0], c[0])
                    if ch and (best is None or len(ch) < len(best[2])):
                        best = (b, c, ch)
            if best is None:
                best = (bs[0], cs_[0], uf.path(bs[0][0], cs_[0][0]))
            b, c, chain = best
            fnames = sorted(set(_fn_of(x) for x in [b[0], c[0]] if _fn_of(x)))
            key = "UNIT|mixed|" + "|".join(fnames)
            run.violation(R, key, c[1].split(" at ")[-1].split(" ")[0] if " at " in c[1] else "-",
                          "a byte offset and a character index meet in one value: Byte seed [%s]; Char seed [%s]. With a multi-byte character before the position the value is wrong: wrong line/column, or a slice off a character boundary (panic)" % (b[1], c[1]),
                          ["Byte: " + b[1]] + chain + ["Char: " + c[1]])
    # UNIT4: a byte offset moved by a literal number of bytes
    byte_roots = set()
    for root, members in classes.items():
        if any(u == "Byte" for n, ss in members for (u, w) in ss):
            byte_roots.add(root)
    audited = run.table("unit")["literal_byte_steps"] if hasattr(run, "table") else {}
    n4 = 0
    seen4 = set()
    for vn, f, op, cc, span in const_adds:
        if uf.find(vn) not in byte_roots:
            continue
        k4 = (f.id, op, cc)
        if k4 in seen4:
            continue
        seen4.add(k4)
        n4 += 1
        key = "UNIT4|%s|%s%d" % (f.id, "+" if op == "Add" else "-", cc)
        if f.id in audited:
            run.exception("UNIT4", key, "%s:%d" % (span["file"], span["line"]), "%s moves a byte offset by the literal %d (%s)" % (f.id, cc, audited[f.id]))
        else:
            run.violation("UNIT4", key, "%s:%d" % (span["file"], span["line"]),
                          "%s moves a byte offset by the literal %d: a literal byte count is only a character boundary next to an ASCII character; stepping over an arbitrary character needs char::len_utf8()" % (f.id, cc))
    run.count("unit4_literal_steps", n4)
    run.count("unit_seeded_classes", n_classes)
    run.count("unit_seeds", sum(len(v) for v in seeds.values()))
    run.count("unit_functions", len(fns))
    if layout:
        run.count("unit_layout_seeds", sum(1 for v in seeds.values() for (u, w) in v if u in LAYOUT_UNITS))
    if n_conf == 0:
        run.ok(R, "UNIT|no-mixed-class", "-", "no value class mixes byte offsets and character indices (%d seeded classes, %d seeds, %d functions)" % (n_classes, sum(len(v) for v in seeds.values()), len(fns)))
    return n_classes, sum(len(v) for v in seeds.values())


def _fn_of(n):
    if n[0] in ("l", "t", "dc", "dc2", "rng", "fld2"):
        return n[1]
    return None


def _rv_places(rv):
    from mir import rv_places
    return list(rv_places(rv))


def unit2(run):
    """token lengths come from the character walker (char_indices offsets / src.len()), never from a literal"""
    R = "UNIT2"
    prog = run.prog
    n = 0
    for f in prog.real_fns():
        if not f.id.startswith("syntax::token::"):
            continue
        if not re.search(r"\(syntax::token::TokenKind, usize\)", f.ret):
            continue
        for bi, si, st in f.stmts():
            if st["k"] == "assign" and st["rv"]["k"] == "agg" and st["rv"]["agg"] == "tuple" and len(st["rv"]["ops"]) == 2:
                ty = f.local_ty(st["place"]["l"]) if not st["place"]["p"] else ""
                if ty != "(syntax::token::TokenKind, usize)":
                    continue
                n += 1
                op = st["rv"]["ops"][1]
                c = const_int(op)
                key = "UNIT2|%s" % f.id
                if c is not None:
                    run.violation(R, key + "|literal", f.loc(st["span"]),
                                  "%s returns a token length that is the literal %d: a byte count that ignores the width of the character it covers; for a multi-byte character the tokenizer stops in the middle of it and the next slice panics" % (f.id, c))
                else:
                    o = peel(f.origin_op(op))
                    d = describe_origin(f, o)
                    ok = d.endswith(".length") or "len_utf8" in d or d.endswith("::len")
                    if not ok and o[0] == "call":
                        # e.g. src.chars().next().map_or(1, |c| c.len_utf8()): width of the character itself
                        from mir import closure_of_origin
                        for a in o[1]["args"]:
                            cid = closure_of_origin(f.origin_op(a))
                            g = prog.fn(cid) if cid else None
                            if g is not None and any((t2.get("callee") or "").endswith("len_utf8") for _, t2 in g.calls()):
                                ok = True
                                d += " (closure computes char::len_utf8)"
                    run.check(ok, R, key, f.loc(st["span"]), "%s: token length comes from %s" % (f.id, d),
                              "%s: token length comes from `%s`, not from the character walker" % (f.id, d))
    run.floor(R, "token length sites", n, 10)
    # CharWalker.length is only ever assigned char_indices offsets or src.len()
    g = [x for x in prog.real_fns() if x.id.endswith("CharWalker::<'a>::advance") or x.id.endswith("CharWalker::advance")]
    if len(g) != 1:
        run.violation(R, "UNIT2|anchor|advance", "-", "mechanism not found: CharWalker::advance")
    else:
        g = g[0]
        bad = []
        m = 0
        for bi, si, st in g.stmts():
            if st["k"] == "assign" and st["place"]["p"] and isinstance(st["place"]["p"][-1], dict) and st["place"]["p"][-1].get("name") == "length":
                m += 1
                d = describe_origin(g, g.origin_op(st["rv"]["op"])) if st["rv"]["k"] == "use" else st["rv"]["k"]
                if not (d.endswith("::len") or "next" in d or "@Some" in d):
                    bad.append(d)
        run.check(m >= 2 and not bad, R, "UNIT2|walker-length", g.loc(), "CharWalker.length is assigned only char_indices offsets or src.len() (%d stores)" % m,
                  "CharWalker.length is assigned from %s" % bad)


def unit3(run):
    """who may construct spans with explicit offsets"""
    R = "UNIT3"
    prog = run.prog
    allowed = run.table("unit")["span_new_callers"]
    n = 0
    for f in prog.real_fns():
        for bi, t in f.calls():
            if (t.get("resolved") or "") == "diagn::span::Span::new":
                n += 1
                run.check(f.id in allowed, R, "UNIT3|%s" % f.id, f.loc(t["span"]),
                          "%s builds a Span from token boundaries (audited: %s)" % (f.id, allowed.get(f.id, "")),
                          "%s calls Span::new with explicit offsets but is not an audited constructor of locations" % f.id)
    run.floor(R, "Span::new call sites", n, 2)



def span_shape(run):
    """spans are byte ranges built by the walker and joined upward: shape of Walker::get_span and Span::join"""
    R = "SPAN"
    prog = run.prog
    g = run.anchor(R, "Walker::<'src>::get_span")
    if g:
        ok = False
        for bi, t in g.calls():
            if (t.get("resolved") or "") == "diagn::span::Span::new" and len(t["args"]) == 3:
                good = 0
                for a, pname in ((t["args"][1], "start_byte_index"), (t["args"][2], "end_byte_index")):
                    o = g.origin_op(a)
                    if o[0] == "place" and o[1][0] == "binop":
                        o = o[1]
                    if o[0] == "binop" and o[1]["op"].startswith("Add"):
                        ds = [describe_origin(g, g.origin_op(o[1]["l"])), describe_origin(g, g.origin_op(o[1]["r"]))]
                        if any(d.endswith(".span_offset") for d in ds) and any(d == "param:" + pname for d in ds):
                            good += 1
                ok = good == 2
        run.check(ok, R, "SPAN|get_span", g.loc(), "Walker::get_span = Span::new(file, span_offset + start, span_offset + end)",
                  "Walker::get_span no longer adds span_offset to both ends: locations of tokens inside nested walkers (asm blocks, rule bodies) would point elsewhere")
    j = run.anchor(R, "diagn::span::Span::join")
    if j:
        mins = [t for bi, t in j.calls() if (t.get("callee") or "") == "std::cmp::min"]
        maxs = [t for bi, t in j.calls() if (t.get("callee") or "") == "std::cmp::max"]
        def comps(t):
            return sorted(describe_origin(j, j.origin_op(a)).rsplit(".", 1)[-1] for a in t["args"])
        ok = len(mins) == 1 and len(maxs) == 1 and comps(mins[0]) == ["0", "0"] and comps(maxs[0]) == ["1", "1"]
        # the literal's location is (min, max)
        lit_ok = False
        for bi, si, st in j.stmts():
            if st["k"] == "assign" and st["rv"]["k"] == "agg" and st["rv"]["agg"] == "tuple" and len(st["rv"]["ops"]) == 2:
                o0, o1 = peel(j.origin_op(st["rv"]["ops"][0])), peel(j.origin_op(st["rv"]["ops"][1]))
                if o0[0] == "call" and mins and o0[1] is mins[0] and o1[0] == "call" and maxs and o1[1] is maxs[0]:
                    lit_ok = True
        run.check(ok and lit_ok, R, "SPAN|join|min-max", j.loc(), "Span::join = (min of the starts, max of the ends)",
                  "Span::join does not take the minimum of the starts and the maximum of the ends")
        # different files are not joined silently
        cmp_files = False
        for bi, si, st in j.stmts():
            if st["k"] == "assign" and st["rv"]["k"] == "binop" and st["rv"]["op"] in ("Eq", "Ne"):
                ds = [describe_origin(j, j.origin_op(st["rv"]["l"])), describe_origin(j, j.origin_op(st["rv"]["r"]))]
                if all(d.endswith(".file_handle") for d in ds):
                    cmp_files = True
        run.check(cmp_files, R, "SPAN|join|same-file", j.loc(), "Span::join checks that both spans belong to the same file",
                  "Span::join no longer checks that both spans belong to the same file")
    # every message goes through the parent stack
    m = run.anchor(R, "diagn::report::Report::message")
    if m:
        ok = any((t.get("resolved") or "").endswith("Report::wrap_in_parents") for bi, t in m.calls())
        run.check(ok, R, "SPAN|message-wrapped", m.loc(), "Report::message wraps the message in the parent stack",
                  "Report::message no longer wraps messages in the parent stack: inner errors lose the instruction/data element that caused them")


def field_span_rule(run, R="SPAN"):
    """`#bankdef { name = value }`-style field lists: a field is located at its own name token (the span stored with the field is
    the span of the token its name was read from), not at a span accumulated over the block"""
    from rules_sym import deep
    f = run.anchor(R, "asm::parser::fields::parse")
    if f is None:
        return
    n, bad = 0, []
    for bi, si, st in f.stmts():
        if st["k"] == "assign" and st["rv"]["k"] == "agg" and str(st["rv"].get("adt", "")).endswith("fields::AstField"):
            flds = st["rv"].get("fields") or []
            if "span" not in flds or "name" not in flds:
                continue
            n += 1
            sp = deep(f, st["rv"]["ops"][flds.index("span")], 6)
            nm = deep(f, st["rv"]["ops"][flds.index("name")], 8)
            if not (sp.endswith(".span") and "Span::join(" not in sp and (sp + ")") in nm or ("(%s)" % sp) in nm or (", %s)" % sp) in nm):
                bad.append("span `%s`, name from `%s`" % (sp[:80], nm[:80]))
    run.check(n >= 1 and not bad, R, R + "|field|own-token", f.loc(), "a field's span is the span of its own name token (%d site(s))" % n,
              "fields::parse stores a field with a span that is not its own name token (%s): an unknown or duplicate field would be reported on another line of the block" % ("; ".join(bad) or "no AstField built"))


def field_errors_rule(run, R="SPAN"):
    """errors about one field of a `{...}` block (invalid, duplicate) are located at that field: the span given is the field's own
    span (or its name token); only `missing field` - which has no field to point at - is located at the block"""
    from rules_sym import deep
    n, bad = 0, []
    for f in run.prog.real_fns():
        if "asm::parser::fields" not in f.id:
            continue
        for bi, t in f.calls():
            c = t.get("resolved") or t.get("callee") or ""
            if not c.endswith("Report::error_span") or len(t["args"]) < 3:
                continue
            m = deep(f, t["args"][1], 5)
            sp = deep(f, t["args"][2], 6)
            if "missing field" in m:
                continue
            n += 1
            if re.fullmatch(r"P\d+\.span", sp) or "Span::join(" in sp:
                bad.append("%s: `%s` located at `%s`" % (f.loc(t["span"]), re.sub(r"[^ -~]", "", m)[-40:], sp[:60]))
    run.check(n >= 2 and not bad, R, R + "|field|errors-at-field", "-", "errors about a single field are located at that field (%d site(s))" % n,
              "an error about a single field is located at the whole block (%s): an invalid or duplicate field would be reported on the block's first line" % ("; ".join(bad) or "sites not found"))


def src_bind(run):
    """line/column and excerpts are computed against the text of the file the span names: in diagn::report every
    CharCounter is built from fileserver.get_str*(<that span's file_handle>)"""
    R = "SRC"
    prog = run.prog
    n = 0
    printers = prog.reachable_from(["diagn::report::Report::print_all"])
    for f in prog.real_fns():
        if not f.id.startswith("diagn::report::Report::") or f.id not in printers:
            continue
        for bi, t in f.calls():
            if not (t.get("resolved") or "").endswith("CharCounter::<'a>::new"):
                continue
            n += 1
            o = peel(f.origin_op(t["args"][0]))
            hops = 0
            while o[0] == "call" and (o[1].get("callee") or "") in ("std::ops::Deref::deref", "std::string::String::as_str", "std::convert::AsRef::as_ref", "std::borrow::Borrow::borrow") and hops < 4:
                o = peel(f.origin_op(o[1]["args"][0]))
                hops += 1
            key = "SRC|%s" % f.id
            ok = False
            why = "the text does not come directly from FileServer::get_str*"
            if o[0] == "call" and re.search(r"FileServer::get_str(_unwrap)?$", o[1].get("callee") or ""):
                hargs = [describe_origin(f, f.origin_op(a)) for a in o[1]["args"]]
                if any(d.endswith(".file_handle") or d == "var:file_handle" or "file_handle" in d for d in hargs):
                    ok = True
                else:
                    why = "the file handle given to get_str* (%s) is not the span's file_handle" % hargs
            run.check(ok, R, key, f.loc(t["span"]), "%s counts lines/columns in the text of the span's own file" % f.id,
                      "%s builds its CharCounter from a text that is not provably the span's own file (%s): a message located in another file would be printed with that file's name but another file's line, column and excerpt" % (f.id, why))
    run.floor(R, "CharCounter constructions in the report printer", n, 1)


def addrspan_positions(run, R="SRC"):
    """the address-span listing: the line/column printed in a row is a function of that row's span alone --
    get_line_column_at_index(<counter over the text of the span's file>, <the span's own start / end>) -- and of nothing
    carried over from the previous row"""
    from rules_sym import deep
    fs = [f for f in run.prog.real_fns() if f.kind == "AssocFn" and f.id.endswith("::format_addrspan")]
    if len(fs) != 1:
        run.violation(R, R + "|addrspan|anchor", "-", "mechanism not found: format_addrspan")
        return
    f = fs[0]
    bad = []
    n = 0
    names = []
    for bi, t in f.calls():
        c = t.get("resolved") or t.get("callee") or ""
        if "CharCounter" not in c or c.endswith("::new"):
            if c.endswith("FileServer::get_filename"):
                names.append(deep(f, t["args"][1], 6))
            continue
        n += 1
        if not c.endswith("::get_line_column_at_index"):
            bad.append("positions computed with `%s`" % c.rsplit("::", 1)[-1])
            continue
        cnt, idx = deep(f, t["args"][0], 8), deep(f, t["args"][1], 6)
        m = re.fullmatch(r"Span::location\((.*)\.span\)@Some\.0\.([01])", idx)
        if not m or "var:" in idx:
            bad.append("the index `%s` is not the row's own span start/end" % idx[:80])
            continue
        X = m.group(1)
        direct = re.search(r"FileServer::get_str(_unwrap)?\(.*" + re.escape(X) + r"\.span\.file_handle\)", cnt)
        cached = "var:" in cnt and any(st["k"] == "assign" and st["rv"]["k"] == "binop" and st["rv"]["op"] in ("Eq", "Ne") and
                                       any(deep(f, o, 6) == X + ".span.file_handle" for o in (st["rv"]["l"], st["rv"]["r"])) for _, _, st in f.stmts())
        if not (direct or cached):
            bad.append("the text counted in is not the text of the row's own file")
        if names and not all(nm == X + ".span.file_handle" for nm in names):
            bad.append("the file name printed (%s) is not that of the row's span" % names)
    run.check(n >= 2 and not bad, R, R + "|addrspan|position-of-span", f.loc(),
              "format_addrspan: line/column of both ends come from get_line_column_at_index over the span's own file and location (%d call(s))" % n,
              "format_addrspan: %s: a row could name a source position that is not where its bits come from" % ("; ".join(sorted(set(bad))) or "no line/column computation found"))


def line_column_counts(run, R="UNIT"):
    """CharCounter::get_line_column_at_index counts characters: it walks the text character by character (char_indices), stops
    at the byte index, and the only arithmetic on the two counters it returns is `+ 1` (one per character / per line) and the
    column's reset on '\\n' -- never an encoded length of the character"""
    from rules_sym import deep
    fs = [f for f in run.prog.real_fns() if re.search(r"CharCounter(::<.*>)?::get_line_column_at_index$", f.id)]
    if len(fs) != 1:
        run.violation(R, R + "|line-column|anchor", "-", "mechanism not found: CharCounter::get_line_column_at_index")
        return
    f = fs[0]
    # the function and the closures it hands to iterator adapters (fold / take_while ...)
    body = [f] + [g for g in run.prog.real_fns() if g.kind == "Closure" and g.id.startswith(f.id + "::{closure")]
    adds = [(deep(g, st["rv"]["l"], 4), deep(g, st["rv"]["r"], 4)) for g in body for bi, si, st in g.stmts()
            if st["k"] == "assign" and st["rv"]["k"] == "binop" and st["rv"]["op"] in ("Add", "AddWithOverflow", "Sub", "SubWithOverflow", "Mul", "MulWithOverflow")]
    walks = any((t.get("callee") or "").endswith("<impl str>::char_indices") or (t.get("callee") or "").endswith("<impl str>::chars") for _, t in f.calls())
    other_calls = sorted(set((t.get("callee") or "?").rsplit("::", 1)[-1] for g in body for _, t in g.calls() if re.search(r"len_utf(8|16)|encode_utf|width", t.get("callee") or "")))
    ok = walks and len(adds) == 2 and all(r == "1_usize" for l, r in adds) and not other_calls
    run.check(ok, R, R + "|line-column|counts-characters", f.loc(), "line and column are counted one per line / one per character over char_indices",
              "get_line_column_at_index does not count one per character (arithmetic: %s; encoded-length calls: %s): the column printed after a multi-byte character would not be the 1-based character column" % (adds, other_calls))


def walker_text(run, R="SRC"):
    """the parser walks the very text the diagnostics are later located in: the walker of a source file is built over
    FileServer::get_str(<handle>) unchanged, with that same handle (spans are byte offsets into the stored file)"""
    from rules_sym import deep
    f = run.anchor(R, "asm::parser::parse_and_resolve_includes")
    if f is None:
        return
    ws = [(bi, t) for bi, t in f.calls() if re.search(r"syntax::walker::Walker(::<.*>)?::new$", t.get("resolved") or t.get("callee") or "")]
    ok = len(ws) == 1
    why = "%d walker construction(s)" % len(ws)
    if ok:
        text, handle, off = [deep(f, a, 8) for a in ws[0][1]["args"][:3]]
        m = re.fullmatch(r"FileServer::get_str(?:_unwrap)?\((?:.*, )?(FileServer::get_handle\(.*\)(?:@\w+\.0)?|P\d+)\)(?:@\w+\.0)?", text)
        ok = bool(m) and m.group(1) == handle and off == "0_usize"
        why = "the walker reads `%s` for file `%s` from offset `%s`" % (text[:120], handle[:60], off)
    run.check(ok, R, R + "|walker-text", f.loc(), "the source walker reads the stored text of its own file handle, unchanged, from offset 0",
              "parse_and_resolve_includes: %s: spans would be byte offsets into a text that is not the stored file, so every line/column and excerpt after the first difference is off" % why)


def expr_node_spans(run, R="SPAN"):
    """sibling agreement of the expression parser: the span of a composite node starts where its source text starts -- it joins the
    span of the operand that was parsed first (the leftmost one), or of a token that was consumed before that operand"""
    from rules_sym import deep
    from mir import peel
    n, bad = 0, []
    for f in run.prog.real_fns():
        if not f.id.startswith("expr::parser::"):
            continue
        for bi, si, st in f.stmts():
            if st["k"] != "assign" or st["rv"]["k"] != "agg" or not str(st["rv"].get("adt", "")).endswith("expression::Expr"):
                continue
            ops = st["rv"]["ops"]
            kids = []
            for o in ops[1:]:
                l = op_local(o)
                if l is None or not (f.local_ty(l) or "").startswith("std::boxed::Box<expr::expression::Expr"):
                    continue
                src = peel(f.origin_op(o))
                if src and src[0] == "call" and (src[1].get("callee") or "").endswith("Box::<T>::new") and src[1]["args"]:
                    inner = src[1]["args"][0]
                    # where the child was produced: the defining call of its root local
                    il = op_local(inner)
                    root = f.copy_root(il) if il is not None else None
                    blocks = [d[1] for d in f.full_defs(root)] if root is not None else []
                    o2 = f.origin_op(inner)
                    hops = 0
                    while o2 and o2[0] in ("place", "ref", "cast") and hops < 6:
                        o2 = o2[1]
                        hops += 1
                    if o2 and o2[0] == "call":
                        blocks = [o2[2]]
                        if (o2[1].get("callee") or "") == "std::ops::Try::branch" and o2[1]["args"]:
                            o3 = peel(f.origin_op(o2[1]["args"][0]))
                            if o3 and o3[0] == "call":
                                blocks = [o3[2]]
                    kids.append((deep(f, inner, 6), blocks))
            if not kids:
                # a leaf built by this function: its span is made of the tokens this function consumed (not the span of a
                # sub-expression parsed by someone else, which would leave out an operator consumed here)
                if st["rv"].get("variant") in ("Literal", "Variable") and op_local(ops[0]) is not None and (f.local_ty(op_local(ops[0])) or "").endswith("span::Span"):
                    spl = deep(f, ops[0], 7)
                    n_leaf = getattr(run, "_leafspans", 0) + 1
                    run._leafspans = n_leaf
                    if not (re.search(r"Walker::(expect|maybe_expect)\(", spl) or spl.startswith("var:") or re.fullmatch(r"P\d+", spl)):
                        bad.append("%s %s: a leaf whose span `%s` is not made of the tokens consumed for it" % (f.loc(st["span"]), st["rv"].get("variant"), spl[:80]))
                continue
            if not all(b for _, b in kids):
                continue
            n += 1
            sp = deep(f, ops[0], 7)
            first = None
            for d, bl in kids:
                if all(any(f.dominates(b1, b2) for b1 in bl for b2 in bl2) for d2, bl2 in kids if d2 != d):
                    first = (d, bl)
            if first is None:
                first = kids[0]
            mentions_first = ("Expr::span(%s)" % first[0]) in sp or ("Expr::span(%s" % first[0][:60]) in sp
            # or a token consumed before the first operand
            tok_before = False
            for b2, t2 in f.calls():
                if re.search(r"Walker(::<.*>)?::(expect|maybe_expect)$", t2.get("resolved") or t2.get("callee") or "") and any(f.dominates(b2, b) and b2 != b for b in first[1]):
                    dtk = deep(f, {"copy": t2["dest"]}, 4)
                    if dtk and dtk in sp:
                        tok_before = True
            if not (mentions_first or tok_before):
                bad.append("%s %s: span `%s` leaves out its first operand `%s`" % (f.loc(st["span"]), st["rv"].get("variant"), sp[:90], first[0][:60]))
    run.check(n >= 6 and not bad, R, R + "|expr-node|covers-first-operand", "-", "the span of every composite expression node starts at its first operand or at a token before it (%d node constructions)" % n,
              "%s: a diagnostic or a listing row for this expression would show only its tail" % ("; ".join(bad) or "node constructions not found"))


OPERAND_PARSERS = ("asm::parser::directive_addr::parse", "asm::parser::directive_align::parse", "asm::parser::directive_res::parse",
                   "asm::parser::directive_assert::parse", "asm::parser::directive_const::parse", "asm::parser::symbol::parse")


def operand_same_line(run, R="SPAN"):
    """a directive (or constant) that needs an operand reports a missing one on its own line: its parser tests for the end of the line
    (Walker::next_linebreak) before it hands over to the expression parser, which otherwise reads on into the following lines"""
    from rules_sym import option_tests
    n = 0
    for name in OPERAND_PARSERS:
        f = run.prog.fn(name)
        if f is None:
            run.violation(R, "%s|operand-same-line|%s" % (R, name), "-", "mechanism not found: %s" % name)
            continue
        cs = [(bi, t) for bi, t in f.calls() if re.search(r"expr::parser::parse(_optional)?$", t.get("resolved") or t.get("callee") or "")]
        if not cs:
            run.violation(R, "%s|operand-same-line|%s" % (R, name), f.loc(), "mechanism not found: the expression parse in %s" % name)
            continue
        n += 1
        tests = option_tests(f, lambda d: "Walker::next_linebreak(" in d)
        ok = all(any(f.edge_dominates(sb, none_, bi) for sb, some_, none_ in tests) for bi, t in cs)
        run.check(ok, R, "%s|operand-same-line|%s" % (R, name), f.loc(cs[0][1]["span"]), "%s looks for the end of the line before parsing its operand" % name,
                  "%s hands over to the expression parser without looking for the end of the line: with the operand missing, the expression parser reads on and the first error is located on a later line (the next instruction is reported as an unknown symbol), not on the faulty one" % name)
    run.floor(R, "operand parsers", n, 6)


def match_text_rule(run, R="SRC"):
    """the matcher locates what it reads by offsets from the span it is given: the text it is given must be the text at that span --
    the instruction node's own `src` together with the node's own `span`"""
    from rules_sym import deep
    n = 0
    for f in run.prog.real_fns():
        for bi, t in f.calls():
            if (t.get("resolved") or t.get("callee") or "") != "asm::matcher::match_instr":
                continue
            n += 1
            span = [deep(f, a, 6) for a, ty in zip(t["args"], t.get("arg_tys") or []) if ty.endswith("span::Span")]
            text = [deep(f, a, 6) for a, ty in zip(t["args"], t.get("arg_tys") or []) if ty in ("&str", "&std::string::String")]
            ok = len(span) == 1 and len(text) == 1 and span[0].endswith(".span") and text[0] == span[0][:-len(".span")] + ".src"
            root = f.raw.get("root") or f.id
            run.check(ok, R, "%s|match-text|%s" % (R, root), f.loc(t["span"]), "%s matches an instruction's own text at its own span" % root.rsplit("::", 1)[-1],
                      "%s hands the matcher the text `%s` to be located at `%s`: offsets into a text that is not what stands at that span give argument locations that cover other text (and can end inside a multi-byte character)" % (root, (text or ["?"])[0][:90], (span or ["?"])[0][:60]))
    run.floor(R, "calls of the matcher", n, 2)


def expected_at_cursor(run, R="SPAN"):
    """sibling agreement of the syntax errors: `expected <something>` raised by the token walker and by the expression parser is
    located at the cursor -- where the missing thing should have stood, on the faulty line -- not at whatever token comes next"""
    from rules_sym import deep
    n, bad = 0, []
    for f in run.prog.real_fns():
        if not (f.id.startswith("syntax::walker::") or f.id.startswith("expr::parser::")):
            continue
        for bi, t in f.calls():
            c = t.get("resolved") or t.get("callee") or ""
            if not c.endswith("Report::error_span") or len(t["args"]) < 3:
                continue
            m = deep(f, t["args"][1], 5)
            if "expe" not in m[:70]:
                continue
            n += 1
            sp = deep(f, t["args"][2], 5)
            if not re.fullmatch(r"Walker::get_cursor_span\(P1(\.walker)?\)", sp):
                bad.append("%s locates it at `%s`" % (f.loc(t["span"]), sp[:80]))
    run.check(n >= 3 and not bad, R, R + "|expected|at-cursor", "-", "`expected ...` syntax errors are located at the cursor (%d site(s))" % n,
              "an `expected ...` syntax error is not located at the cursor (%s): with the expected thing missing at the end of a line, the error would be reported on a later line" % ("; ".join(bad) or "sites not found"))


def parenthesized_span(run, R="SPAN"):
    """a parenthesised expression is located with its parentheses: the parser does not hand back the inner expression as it is
    (whose span starts after `(`), or every enclosing node - and every listing row and caret - starts inside the parenthesis"""
    from rules_sym import deep
    fs = [f for f in run.prog.real_fns() if re.search(r"ExpressionParser(::<.*>)?::parse_parenthesized$", f.id)]
    if len(fs) != 1:
        run.violation(R, R + "|parenthesized", "-", "mechanism not found: parse_parenthesized")
        return
    f = fs[0]
    pays = [deep(f, st["rv"]["ops"][0], 6) for bi, si, st in f.stmts() if st["k"] == "assign" and st["place"]["l"] == 0 and not st["place"]["p"]
            and st["rv"]["k"] == "agg" and st["rv"].get("variant") == "Ok"]
    unchanged = [p_ for p_ in pays if re.fullmatch(r"ExpressionParser::parse_expr\(P1\)@Continue\.0", p_)]
    run.check(bool(pays) and not unchanged, R, R + "|parenthesized", f.loc(), "a parenthesised expression carries a span that includes its parentheses",
              "parse_parenthesized returns the inner expression unchanged: its span starts after the `(`, so `#d8 (1 + 2) * 300` is reported (and listed) as `1 + 2) * 300`")


def const_str_slices(run, R="UNIT4"):
    """a text is never sliced at a constant, non-zero byte offset unless the bytes before it are known to be one-byte characters:
    `&text[..4]` panics when a multi-byte character straddles byte 4.  The three sites of the pinned tree follow a test of the
    first character against an ASCII letter or quote and are listed with that reason; any other site is reported"""
    from rules_sym import deep
    audited = {e["key"]: e["reason"] for e in run.table("unit").get("const_str_slices", [])}
    n = 0
    for f in run.prog.real_fns():
        for bi, t in f.calls():
            tys = t.get("arg_tys") or []
            if not (t.get("callee") or "").endswith("Index::index") or len(tys) < 2 or not re.fullmatch(r"&(mut )?(str|std::string::String)", tys[0]):
                continue
            n += 1
            d = deep(f, t["args"][1], 5)
            consts = []
            m = re.search(r"start: (\d+)_usize", d)
            if m and int(m.group(1)) != 0:
                consts.append("from:%s" % m.group(1))
            m = re.search(r"end: (\d+)_usize", d)
            if m and int(m.group(1)) != 0:
                consts.append("to:%s" % m.group(1))
            if not consts:
                # a named constant as a bound
                for side in ("start", "end"):
                    m = re.search(side + r": ((?:[a-z_0-9]+::)*[A-Z][A-Z0-9_]{2,})\b", d)
                    if m:
                        consts.append("%s:%s" % ("from" if side == "start" else "to", m.group(1).split("::")[-1]))
            root = f.raw.get("root") or f.id
            for c in consts:
                key = "%s|%s" % (root, c)
                if key in audited:
                    run.exception(R, "%s|%s" % (R, key), f.loc(t["span"]), "text sliced at a constant byte offset: %s" % audited[key])
                else:
                    run.violation(R, "%s|%s" % (R, key), f.loc(t["span"]),
                                  "%s slices a text at the constant byte offset `%s` without the bytes before it being known to be one-byte characters: the slice panics (`byte index is not a char boundary`) when a multi-byte character straddles that offset, e.g. an instruction `ld\u20ac 5`" % (root.rsplit("::", 1)[-1], c))
    run.floor(R, "text slicing sites", n, 9)


def unresolved_constant_location(run, R="SPAN"):
    """a constant whose own definition cannot be evaluated (an undeclared name in it) is the fault; when the strict constants-only
    evaluator meets such a constant at a use (`#if K == 5`, a `#bankdef` field) its report names the declaration of the constant -
    the `unresolved symbol` branch of eval_variable_certain reads the span recorded for the symbol it looked up"""
    from rules_sym import deep
    fs = [f for f in run.prog.real_fns() if f.kind != "Closure" and f.id.endswith("resolver::eval::eval_variable_certain")]
    if len(fs) != 1:
        run.violation(R, R + "|unresolved-constant|anchor", "-", "mechanism not found: eval_variable_certain")
        return
    f = fs[0]
    reads_decl = False
    for bi, t in f.calls():
        if re.search(r"Report::(error_span|note_span|push_parent)$", t.get("resolved") or t.get("callee") or ""):
            if re.search(r"SymbolManager::get\(.*\)\.(span|decl_span)$", deep(f, t["args"][-1], 8)):
                reads_decl = True
    run.check(reads_decl, R, R + "|unresolved-constant|at-declaration", f.loc(), "an unresolved constant met by the strict evaluator is reported with the location of its declaration",
              "eval_variable_certain reports `unresolved symbol` at the place of use only: for `K1 = undefined_sym` (line 4) and `#if K1 == 5` (line 7) no message at all is located on line 4, the faulty line")
