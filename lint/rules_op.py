"""TAB-op — operators: tokens <-> parser levels <-> evaluator primitives <-> big-integer primitives (C05)."""
import re
from mir import (peel, op_place, op_local, const_int, const_str, describe_origin)
import tables as T
from rules_idx import promoted_variant


def promoted_pairs(prog, f, op):
    """[(variantA, variantB)] of a promoted array of field-less enum pairs"""
    o = peel(f.origin_op(op))
    n = 0
    while o[0] in ("cast",) and n < 4:
        o = peel(o[1])
        n += 1
    if o[0] != "const":
        return None
    m = re.search(r"promoted\[(\d+)\]", o[1].get("const", ""))
    if not m:
        return None
    pf = prog.fn("%s::{promoted#%s}" % (f.raw["owner"], m.group(1)))
    if pf is None:
        return None
    variants = {}
    tuples = {}
    order = []
    for bi, si, st in pf.stmts():
        if st["k"] != "assign" or st["place"]["p"]:
            continue
        rv = st["rv"]
        if rv["k"] == "agg" and rv.get("agg") == "adt":
            variants[st["place"]["l"]] = rv["variant"]
        elif rv["k"] == "agg" and rv.get("agg") == "tuple":
            tuples[st["place"]["l"]] = [op_local(x) for x in rv["ops"]]
        elif rv["k"] == "agg" and rv.get("agg") == "array":
            order = [op_local(x) for x in rv["ops"]]
    out = []
    for l in order:
        if l in tuples:
            out.append(tuple(variants.get(x) for x in tuples[l]))
    return out


def parser_levels(run):
    """walk the precedence chain from parse_ternary_conditional: [(level fn short name, combinator, [(token, op)], next)]"""
    prog = run.prog
    pre = "expr::parser::ExpressionParser::<'a, 'src>::"
    levels = []
    cur = pre + "parse_assignment"
    seen = set()
    while cur and cur not in seen:
        seen.add(cur)
        f = prog.fn(cur)
        if f is None:
            break
        comb = None
        pairs = None
        nxt = None
        for bi, t in f.calls():
            r = t.get("resolved") or ""
            m = re.search(r"::(parse_binary_ops|parse_right_associative_binary_ops|parse_unary_ops)$", r)
            if m:
                comb = m.group(1)
                pairs = promoted_pairs(prog, f, t["args"][1])
                from mir import closure_of_origin
                cid = closure_of_origin(f.origin_op(t["args"][2]))
                g = prog.fn(cid) if cid else None
                if g is not None:
                    for b2, t2 in g.calls():
                        r2 = t2.get("resolved") or ""
                        if r2.startswith(pre + "parse_"):
                            nxt = r2
        if comb is None:
            break
        levels.append((cur[len(pre):], comb, pairs, nxt[len(pre):] if nxt else None))
        cur = nxt
    return levels


def tab_op(run):
    R = "TAB-op"
    prog = run.prog
    spec = run.table("operators")
    # --- tokens
    tk = None
    for f in prog.fns.values():
        if f.kind == "Static" and f.id.endswith("check_for_special::TOKENS"):
            tk = f
    if tk is None:
        run.violation(R, R + "|anchor|TOKENS", "-", "mechanism not found: static TOKENS table of the tokenizer")
    else:
        variants = {}
        tuples = {}
        order = []
        strs = {}
        for bi, si, st in tk.stmts():
            if st["k"] != "assign" or st["place"]["p"]:
                continue
            rv = st["rv"]
            if rv["k"] == "agg" and rv.get("agg") == "adt":
                variants[st["place"]["l"]] = rv["variant"]
            elif rv["k"] == "agg" and rv.get("agg") == "tuple":
                tuples[st["place"]["l"]] = rv["ops"]
            elif rv["k"] == "agg" and rv.get("agg") == "array":
                order = [op_local(x) for x in rv["ops"]]
            elif rv["k"] == "use" and const_str(rv["op"]) is not None:
                strs[st["place"]["l"]] = const_str(rv["op"])
        got = []
        for l in order:
            ops = tuples.get(l)
            if not ops:
                continue
            s = const_str(ops[0])
            if s is None:
                sl = op_local(ops[0])
                s = strs.get(sl)
                if s is None and sl is not None:
                    o = peel(tk.origin_op(ops[0]))
                    s = const_str(o[1]) if o[0] == "const" else None
            got.append([s, variants.get(op_local(ops[1]))])
        want = spec["tokens"]
        run.check(got == want, R, R + "|tokens", tk.loc(), "the tokenizer's symbol table has the %d audited entries in longest-match-first order" % len(got),
                  "the tokenizer's symbol table differs from the audited one: %s" % _diff(got, want))
        # longest match first: no entry is a proper prefix of a later entry
        bad = [(a[0], b[0]) for i, a in enumerate(got) for b in got[i + 1:] if a[0] and b[0] and b[0].startswith(a[0]) and a[0] != b[0]]
        run.check(not bad, R, R + "|tokens|longest-first", tk.loc(), "no token spelling shadows a longer one listed after it",
                  "token spellings %s are listed before longer spellings they are a prefix of: the longer operator can never be recognised" % bad[:4])
    # --- precedence chain
    levels = parser_levels(run)
    got = [[name, comb, [list(p) for p in (pairs or [])], nxt] for name, comb, pairs, nxt in levels]
    want = spec["levels"]
    run.floor(R, "precedence levels", len(got), 11)
    if got != want:
        for i in range(max(len(got), len(want))):
            g = got[i] if i < len(got) else None
            w = want[i] if i < len(want) else None
            if g != w:
                run.violation(R, R + "|level|%s" % ((w or g)[0]), "src/expr/parser.rs", "precedence level %d is %s, the language's operator table says %s" % (i, g, w))
    else:
        run.ok(R, R + "|levels", "src/expr/parser.rs", "the %d precedence levels, their operators, associativity (combinator) and order match the language's operator table" % len(got))
    # unary operators
    pu = prog.fn("expr::parser::ExpressionParser::<'a, 'src>::parse_unary")
    if pu is None:
        run.violation(R, R + "|unary|anchor", "-", "mechanism not found: parse_unary")
    else:
        pairs = None
        for bi, t in pu.calls():
            if (t.get("resolved") or "").endswith("parse_unary_ops"):
                pairs = promoted_pairs(prog, pu, t["args"][1])
        run.check([list(x) for x in (pairs or [])] == spec["unary"], R, R + "|unary", pu.loc(), "unary operators %s" % pairs, "unary operator table is %s, expected %s" % (pairs, spec["unary"]))
    # entry: parse_expr -> ternary -> assignment; tail: unary -> call -> leaf
    pre = "expr::parser::ExpressionParser::<'a, 'src>::"
    def calls_of(name):
        f = prog.fn(pre + name)
        return [] if f is None else [(t.get("resolved") or "")[len(pre):] for bi, t in f.calls() if (t.get("resolved") or "").startswith(pre)]
    chain = spec["chain"]
    for a, b in chain:
        run.check(b in calls_of(a), R, R + "|chain|%s->%s" % (a, b), "src/expr/parser.rs", "%s descends into %s" % (a, b), "%s no longer descends into %s: the grammar's nesting changed" % (a, b))
    # --- evaluator: BinaryOp -> primitive
    ev = run.anchor(R, "Expr>::eval_with_ctx")
    if ev:
        sws = T.enum_switch_arms(ev, "expression::BinaryOp")
        int_tab = {}
        bool_tab = {}
        for (bi, arms, otherwise, place, variants) in sws:
            tab = {}
            for v, tg in arms.items():
                reg = T.dominated_region(ev, tg, bi)
                prim = None
                for b2, t2 in T.region_calls(ev, reg):
                    c = t2.get("resolved") or t2.get("callee") or ""
                    cal = t2.get("callee") or ""
                    m = re.search(r"util::bigint::BigInt::(checked_\w+|concat)$", c)
                    if m:
                        prim = "BigInt::" + m.group(1)
                        break
                    m = re.search(r"^std::ops::(BitAnd|BitOr|BitXor)::\w+$|^std::cmp::(PartialEq|PartialOrd)::(\w+)$", cal)
                    if m:
                        full = (t2.get("resolved_full") or "") + " " + " ".join(t2.get("gargs", []))
                        prim = cal.split("::")[-1] + ("<BigInt>" if "BigInt" in full else ("<bool>" if "bool" in full else ""))
                        break
                if prim is None:
                    # primitive bool operators
                    for b3 in sorted(reg):
                        for st in ev.blocks[b3]["stmts"]:
                            if st["k"] == "assign" and st["rv"]["k"] == "binop" and st["rv"].get("lty") == "bool" and st["rv"]["op"] in ("BitAnd", "BitOr", "BitXor", "Eq", "Ne"):
                                prim = "bool:" + st["rv"]["op"]
                tab[v] = prim
            if any((p or "").startswith("BigInt::") for p in tab.values()):
                int_tab = tab
            elif any((p or "").endswith("<bool>") or (p or "").startswith("bool:") for p in tab.values()):
                bool_tab = tab
        wi = spec["eval_int"]
        wb = spec["eval_bool"]
        gi = {k: v for k, v in int_tab.items() if v}
        gb = {k: v for k, v in bool_tab.items() if v}
        run.check(gi == wi, R, R + "|eval-int", ev.loc(), "integer operators call the primitives their names say (%d operators)" % len(gi),
                  "the evaluator's integer operator table differs from the audited one: %s" % _dictdiff(gi, wi))
        run.check(gb == wb, R, R + "|eval-bool", ev.loc(), "boolean operators map to the primitive operations their names say",
                  "the evaluator's boolean operator table differs: %s" % _dictdiff(gb, wb))
    # --- BigInt primitives -> num-bigint operations
    for name, want_calls in sorted(spec["bigint_primitives"].items()):
        fs = prog.find(name)
        if len(fs) != 1:
            run.violation(R, R + "|bigint|anchor|" + name, "-", "mechanism not found: %s" % name)
            continue
        f = fs[0]
        cl = [f] + [g for g in prog.real_fns() if g.kind == "Closure" and (g.raw.get("root") == f.id)]
        calls = set()
        for g in cl:
            for bi, t in g.calls():
                c = t.get("callee") or ""
                if c.startswith("num_bigint") or c.startswith("num_traits") or re.match(r"^std::ops::(Shl|Shr|Rem|Div|Mul|Add|Sub|Not|Neg|BitAnd|BitOr|BitXor)::", c) or c.startswith("std::cmp::PartialOrd") :
                    calls.add(c)
        missing = [w for w in want_calls if not any(w in c for c in calls)]
        run.check(not missing, R, R + "|bigint|" + name, f.loc(), "%s is built on %s" % (name.rsplit("::", 2)[-1] if "::" in name else name, want_calls),
                  "%s no longer uses %s (it calls %s): the operator would compute something else" % (name, missing, sorted(calls)))
    # --- exact operation profile of every big-integer primitive: which value operations it is built from
    want_prof = spec["bigint_profile"]
    got_prof = bigint_profile(prog, set(want_prof))
    for name in sorted(set(got_prof) | set(want_prof)):
        g_ = got_prof.get(name, {"value": [], "guard": []})
        w_ = want_prof.get(name)
        fs = prog.find(name)
        loc = fs[0].loc() if fs else "-"
        key = R + "|bigint-profile|" + name
        if w_ is None:
            run.violation(R, key, loc, "%s is a big-integer primitive that is not in the audited operation table (it uses %s)" % (name, g_["value"]))
            continue
        extra = sorted(set(g_["value"]) - set(w_["value"]))
        missing = sorted(set(w_["value"]) - set(g_["value"]))
        mg = sorted(set(w_["guard"]) - set(g_["guard"]))
        run.check(not extra and not missing and not mg, R, key, loc, "%s is built on exactly %s (guards %s)" % (name.rsplit("::", 1)[-1], w_["value"], w_["guard"]),
                  "%s: value operations differ from the audited definition of this primitive (new: %s, gone: %s, guards gone: %s); a second way of computing the result (fast path, rewrite with shifts and masks) must agree with the language definition for negative and sized operands and has to be re-audited" % (name, extra, missing, mg))
    # --- literal radix prefixes and bits per digit
    pr = run.anchor(R, "syntax::excerpt::parse_radix")
    if pr:
        consts = set()
        for bi, si, st in pr.stmts():
            if st["k"] == "assign" and st["rv"]["k"] == "agg" and st["rv"]["agg"] == "tuple" and len(st["rv"]["ops"]) == 2:
                c = const_int(st["rv"]["ops"][0])
                if c is not None:
                    consts.add(c)
        run.check(consts == set(spec["radixes"]), R, R + "|radixes", pr.loc(), "literal prefixes select the radixes %s" % sorted(consts),
                  "literal prefixes select radixes %s, expected %s" % (sorted(consts), spec["radixes"]))
    eb = run.anchor(R, "syntax::excerpt::excerpt_as_bigint")
    if eb:
        # match radix { 2 => 1, 8 => 3, 16 => 4, _ => None }
        got = {}
        for b in sorted(eb.reachable()):
            t = eb.blocks[b]["term"]
            if t["k"] == "switch" and "usize" in t.get("discr_ty", ""):
                d = describe_origin(eb, eb.origin_op(t["discr"]))
                if "parse_radix" in d or "radix" in d:
                    for v, tg in t["targets"]:
                        val = None
                        for bb in _straight(eb, tg):
                            for st in eb.blocks[bb]["stmts"]:
                                if st["k"] == "assign" and st["rv"]["k"] == "agg" and st["rv"].get("variant") == "Some" and st["rv"]["ops"]:
                                    val = const_int(st["rv"]["ops"][0])
                        if val is not None:
                            got[v] = val
        run.check(got == spec["bits_per_digit"], R, R + "|bits-per-digit", eb.loc(), "sized literals: bits per digit %s" % got,
                  "the radix -> bits-per-digit table is %s, expected %s" % (got, spec["bits_per_digit"]))


GUARD_OPS = re.compile(r"(::bits$|::sign$|^std::cmp::|::is_zero$)")


def bigint_profile(prog, known=None):
    prof = {}
    for f in prog.real_fns():
        root = f.raw.get("root") or f.id
        if "util::bigint" not in root:
            continue
        for bi, t in f.calls():
            c = t.get("callee") or ""
            tys = " ".join(t.get("arg_tys", []))
            big = "BigInt" in tys or "BigUint" in tys
            if c.startswith("num_bigint") or c.startswith("num_traits") or (big and re.match(r"^std::ops::(Shl|Shr|Rem|Div|Mul|Add|Sub|Not|Neg|BitAnd|BitOr|BitXor)(Assign)?::", c)) \
                    or (big and c.startswith("std::cmp::")) or (big and re.search(r"BigInt::(set_bit|get_bit|slice|checked_\w+|concat|min_size|sign|bits)$", c)):
                e = prof.setdefault(root, {"value": set(), "guard": set()})
                e["guard" if GUARD_OPS.search(c) else "value"].add(c)
    # private helpers: a function of util::bigint that is not in the audited table and is only called from util::bigint itself
    # contributes its operations to its callers (a guard or a step factored out of several primitives)
    if known is not None:
        local = {}
        callers = {}
        for f in prog.real_fns():
            root = f.raw.get("root") or f.id
            for bi, t in f.calls():
                c = t.get("resolved") or t.get("callee") or ""
                if "util::bigint" in c and prog.fn(c) is not None:
                    callers.setdefault(c, set()).add(root)
                    if "util::bigint" in root:
                        local.setdefault(root, set()).add(c)
        helpers = {h for h in prof if h not in known and callers.get(h) and all("util::bigint" in c for c in callers[h])}
        # helpers that perform no operation themselves but are unknown stay out of the way as well
        for h in list(callers):
            if h not in known and h not in prof and "util::bigint" in h and all("util::bigint" in c for c in callers[h]):
                helpers.add(h)
                prof.setdefault(h, {"value": set(), "guard": set()})
        changed = True
        n = 0
        while changed and n < 8:
            changed = False
            n += 1
            for root, cs in local.items():
                for h in cs & helpers:
                    if root == h:
                        continue
                    e = prof.setdefault(root, {"value": set(), "guard": set()})
                    for k_ in ("value", "guard"):
                        add = prof[h][k_] - e[k_]
                        if add:
                            e[k_] |= add
                            changed = True
        for h in helpers:
            prof.pop(h, None)
        # the call of the helper itself is not an operation
        for e in prof.values():
            e["value"] -= helpers
            e["guard"] -= helpers
    return {k: {"value": sorted(v["value"]), "guard": sorted(v["guard"])} for k, v in prof.items() if v["value"] or v["guard"] or known is None or k in known}


def _straight(f, b, limit=5):
    out = []
    n = 0
    while n < limit:
        out.append(b)
        s = f.succs(b)
        if len(s) != 1:
            break
        b = s[0]
        n += 1
    return out


def _diff(got, want):
    out = []
    for i in range(max(len(got), len(want))):
        g = got[i] if i < len(got) else None
        w = want[i] if i < len(want) else None
        if g != w:
            out.append("#%d: %s (audited %s)" % (i, g, w))
    return "; ".join(out[:6])


def _dictdiff(g, w):
    out = []
    for k in sorted(set(g) | set(w)):
        if g.get(k) != w.get(k):
            out.append("%s: %s (audited %s)" % (k, g.get(k), w.get(k)))
    return "; ".join(out[:8])


def str_table(f, value_of):
    """name -> outcome for a `match name { "lit" => ... }` function; value_of(f, true_block) extracts the outcome"""
    out = {}
    for a in T.str_eq_arms(f):
        out[a["lit"]] = value_of(f, a["true"], a["sw"])
    return out


def _fn_item_in(f, b, src):
    reg = T.dominated_region(f, b, src)
    for bb in sorted(reg):
        for st in f.blocks[bb]["stmts"]:
            if st["k"] != "assign":
                continue
            from mir import rv_operands
            for o in rv_operands(st["rv"]):
                if "fn" in o:
                    return o["fn"].rsplit("::", 1)[-1]
    return None


def _const_ret_in(f, b, src):
    reg = T.dominated_region(f, b, src)
    for bb in sorted(reg):
        for st in f.blocks[bb]["stmts"]:
            if st["k"] == "assign" and st["place"]["l"] == 0 and st["rv"]["k"] == "use":
                c = const_int(st["rv"]["op"])
                if c is not None:
                    return c
    return None


def tab_builtins(run):
    R = "TAB-op"
    prog = run.prog
    spec = run.table("operators")["builtins"]
    reg = run.anchor(R, "expr::builtin_fn::resolve_builtin_fn")
    ss = run.anchor(R, "expr::builtin_fn::get_static_size_builtin_fn")
    sk = run.anchor(R, "expr::builtin_fn::get_statically_known_value_builtin_fn")
    if not (reg and ss and sk):
        return
    t_reg = str_table(reg, _fn_item_in)
    t_ss = str_table(ss, _fn_item_in)
    t_sk = str_table(sk, _const_ret_in)
    run.check(t_reg == spec["eval"], R, R + "|builtins|eval", reg.loc(), "builtin functions: %s" % sorted(t_reg), "the builtin function registry is %s, audited %s" % (t_reg, spec["eval"]))
    run.check(t_ss == spec["static_size"], R, R + "|builtins|static-size", ss.loc(), "builtins with a static size rule: %s" % sorted(t_ss), "static-size registry is %s, audited %s" % (t_ss, spec["static_size"]))
    run.check(t_sk == spec["statically_known"], R, R + "|builtins|statically-known", sk.loc(), "builtins whose value is statically known: %s" % sorted(k for k, v in t_sk.items() if v),
              "statically-known registry is %s, audited %s" % (t_sk, spec["statically_known"]))
    run.check(set(t_ss) <= set(t_reg) and set(t_sk) <= set(t_reg), R, R + "|builtins|same-names", reg.loc(), "the three registries talk about the same function names",
              "a name in the static registries is not a builtin: %s" % sorted((set(t_ss) | set(t_sk)) - set(t_reg)))
    # asm-level builtins (incbin & co)
    areg = run.anchor(R, "asm::resolver::eval_fn::resolve_builtin_fn")
    if areg:
        t_a = str_table(areg, _fn_item_in)
        run.check(t_a == spec["asm_eval"], R, R + "|builtins|asm", areg.loc(), "assembler builtins: %s" % sorted(t_a), "assembler builtin registry is %s, audited %s" % (t_a, spec["asm_eval"]))
    # string encodings: every name handed to eval_builtin_string_encoding / stored as an encoding is handled by to_bigint (else panic!)
    tb = run.anchor(R, "expression::ExprString::to_bigint")
    enc = run.anchor(R, "expr::builtin_fn::eval_builtin_string_encoding")
    if tb and enc:
        handled = set(a["lit"] for a in T.str_eq_arms(tb))
        used = {}
        for f in prog.real_fns():
            for bi, t in f.calls():
                if (t.get("resolved") or "") == enc.id:
                    from rules_tab import cstr
                    s = cstr(f, t["args"][0])
                    used[f.id.rsplit("::", 1)[-1]] = s
            for bi, si, st in f.stmts():
                if st["k"] == "assign" and st["rv"]["k"] == "agg" and st["rv"].get("adt", "").endswith("ExprString") and "encoding" in st["rv"].get("fields", []):
                    idx = st["rv"]["fields"].index("encoding")
                    o = peel(f.origin_op(st["rv"]["ops"][idx]))
                    d = describe_origin(f, o)
                    # "utf8".to_string()
                    if o[0] == "call" and o[1]["args"]:
                        from rules_tab import cstr
                        s = cstr(f, o[1]["args"][0])
                        if s is not None:
                            used["literal in " + f.id.rsplit("::", 1)[-1]] = s
        run.floor(R, "string encoding names in use", len(used), 6)
        for who, s in sorted(used.items()):
            run.check(s in handled, R, R + "|encoding|" + who, tb.loc(), "encoding `%s` (%s) is handled by ExprString::to_bigint" % (s, who),
                      "encoding name `%s` used by %s has no arm in ExprString::to_bigint: it falls to panic!(\"invalid string encoding\")" % (s, who))
        run.check(handled == set(spec["encodings"]), R, R + "|encodings", tb.loc(), "string encodings handled: %s" % sorted(handled), "handled encodings %s, audited %s" % (sorted(handled), spec["encodings"]))
        # each builtin name selects the encoding of the same name
        bad = [(k, v) for k, v in used.items() if k.startswith("eval_builtin_") and k[len("eval_builtin_"):] != v]
        run.check(not bad, R, R + "|encoding-names", enc.loc(), "each encoding builtin passes its own name", "encoding builtins pass another encoding's name: %s" % bad)
    # escapes
    ex = run.anchor(R, "syntax::excerpt::excerpt_as_string_contents")
    if ex:
        got = {}
        sws = [b for b in sorted(ex.reachable()) if ex.blocks[b]["term"]["k"] == "switch" and ex.blocks[b]["term"].get("discr_ty") == "char"]
        sws = sorted(sws, key=lambda b: -len(ex.blocks[b]["term"]["targets"]))[:1]   # the escape dispatch is the widest character switch
        for b in sws:
            t = ex.blocks[b]["term"]
            if True:
                for v, tg in t["targets"]:
                    ch = chr(int(v))
                    val = None
                    for bb in _straight(ex, tg, 3):
                        for st in ex.blocks[bb]["stmts"]:
                            if st["k"] == "assign" and st["rv"]["k"] == "use" and st["rv"]["op"].get("ty") == "char" and const_int(st["rv"]["op"]) is not None:
                                val = chr(const_int(st["rv"]["op"]))
                    got[ch] = val if val is not None else "computed"
        want = spec["escapes"]
        run.check(got == want, R, R + "|escapes", ex.loc(), "string escapes: %s" % sorted(got), "the escape table is %s, audited %s" % (got, want))



def _shape(d):
    """constructor and callee names of a provenance expression, in nesting order (arguments dropped)"""
    names = re.findall(r"([A-Za-z_][\w:]*)\s*[({]", d)
    return ">".join(names[:4])


def builtin_value_shapes(prog):
    from rules_sym import deep
    out = {}
    for f in prog.real_fns():
        if not f.id.startswith("expr::builtin_fn::eval_builtin") or f.kind == "Closure":
            continue
        shapes = set()
        for bi, si, st in f.stmts():
            if st["k"] == "assign" and st["place"]["l"] == 0 and not st["place"]["p"] and st["rv"]["k"] == "agg" and st["rv"].get("variant") == "Ok":
                shapes.add(_shape(deep(f, st["rv"]["ops"][0], 5)))
        for bi, t in f.calls():
            if t["dest"]["l"] == 0 and not t["dest"]["p"] and not (t.get("callee") or "").endswith("from_residual"):
                shapes.add("call>" + _shape(deep(f, ("call", t, bi), 3)))
        out[f.id.rsplit("::", 1)[-1]] = sorted(shapes)
    return out


def tab_builtin_values(run, R="TAB-op"):
    """what each built-in function can answer with: the constructors and primitives its `Ok` values are built from must be the
    audited ones (a second way of producing the answer - a shortcut for small sizes, say - has to be re-audited)"""
    got = builtin_value_shapes(run.prog)
    want = run.table("operators").get("builtin_values", {})
    for name in sorted(set(got) | set(want)):
        g_, w_ = got.get(name), want.get(name)
        run.check(g_ == w_, R, R + "|builtin-value|" + name, "-", "%s answers with %s" % (name, g_),
                  "%s answers with %s, the audited table says %s" % (name, g_, w_))


# ---------------------------------------------------------------------------
# integer literals: positional accumulation; concatenation: both widths known

def literal_rules(run, R="TAB-op"):
    """excerpt_as_bigint: the value handed to BigInt::new is a loop-carried accumulator whose only updates are, once per digit,
    `acc = acc * radix` followed by `acc = acc + digit`, where radix is the very value that decided the digit's validity
    (char::to_digit) and digit is to_digit's answer; nothing else writes it."""
    from rules_sym import deep
    from mir import natural_loop, op_local
    g = run.anchor(R, "syntax::excerpt::excerpt_as_bigint")
    if g is None:
        return
    news = [(bi, t) for bi, t in g.calls() if (t.get("callee") or "").endswith("util::bigint::BigInt::new")]
    todig = [(bi, t) for bi, t in g.calls() if (t.get("callee") or "").endswith("::to_digit")]
    ok = len(news) == 1 and len(todig) == 1
    why = "%d BigInt::new call(s), %d to_digit call(s)" % (len(news), len(todig))
    if ok:
        acc = g.copy_root(op_local(news[0][1]["args"][0]))
        radix = deep(g, todig[0][1]["args"][1], 4)
        dg_block = todig[0][0]
        in_loop = set()
        for h in g.reachable():
            in_loop |= natural_loop(g, h)
        # every write of the accumulator (directly or through a temporary that is then moved into it)
        writes = []
        for d in g.full_defs(acc):
            if d[0] == "call":
                writes.append((d[1], d[2].get("callee") or "?", [deep(g, a, 4) for a in d[2]["args"]]))
            else:
                st = d[3]
                o = st["rv"].get("op") if st["rv"]["k"] == "use" else None
                src = g.origin_op(o) if o is not None else ("other",)
                src = peel(src) if src else src
                if src and src[0] == "call":
                    writes.append((src[2], src[1].get("callee") or "?", [deep(g, a, 4) for a in src[1]["args"]]))
                else:
                    writes.append((d[1], "assign", [deep(g, o, 3) if o is not None else st["rv"]["k"]]))
        why = "writes of the accumulator: %s" % [(c.split("::")[-1], a) for _, c, a in writes]
        muls = [w for w in writes if w[1] == "std::ops::Mul::mul"]
        adds = [w for w in writes if w[1] == "std::ops::Add::add"]
        inits = [w for w in writes if w not in muls and w not in adds]
        ok = len(muls) == 1 and len(adds) == 1 and len(inits) == 1
        if ok:
            (mb, _, ma), (ab, _, aa), (ib, ic, ia) = muls[0], adds[0], inits[0]
            ok = ma[1] == radix and "to_digit(" in aa[1] and aa[1].endswith("@Some.0") and ma[0].startswith("var") and aa[0].startswith("var")
            if not ok:
                why = "the update is `acc * %s`, `acc + %s`; the digit test uses radix `%s`" % (ma[1], aa[1][:60], radix)
            elif not (mb in in_loop and ab in in_loop and g.dominates(dg_block, mb) and g.dominates(mb, ab) and ib not in in_loop and ia in (["0_i32"], ["0_u32"], ["0_usize"], ["0_u64"], ["0_i64"])):
                ok = False
                why = "multiply/add are not both inside the digit loop after the digit test (in that order), or the accumulator does not start from 0 (%s %s)" % (ic.split("::")[-1], ia)
    run.check(ok, R, R + "|literal|positional-accumulation", g.loc(),
              "excerpt_as_bigint: the literal's value starts at 0 and is updated exactly once per accepted digit as value*radix + digit, with the radix that validated the digit",
              "excerpt_as_bigint: %s: digits would not all be weighted by their position" % why)


def concat_rule(run, R="TAB-op"):
    """the `@` arm of the evaluator: the only Ok answer is BigInt::concat over both operands with their own declared widths, reached
    only when both widths are known; an unknown width is an error"""
    from rules_sym import deep, option_tests
    ev = [f for f in run.prog.real_fns() if f.id.endswith("Expr>::eval_with_ctx")]
    if len(ev) != 1:
        run.violation(R, R + "|concat|widths", "", "mechanism not found: Expr::eval_with_ctx")
        return
    ev = ev[0]
    arm = None
    for b, arms, oth, pl, vs in T.enum_switch_arms(ev, "BinaryOp"):
        if "Concat" in arms:
            arm = (b, arms["Concat"])
    if arm is None:
        run.violation(R, R + "|concat|widths", ev.loc(), "mechanism not found: the Concat arm of the binary-operator match")
        return
    reg = T.dominated_region(ev, arm[1], arm[0])
    oks, bad = 0, []
    for x in sorted(reg):
        for st in ev.blocks[x]["stmts"]:
            if st["k"] == "assign" and st["place"]["l"] == 0 and not st["place"]["p"] and st["rv"]["k"] == "agg" and st["rv"].get("variant") == "Ok":
                oks += 1
                d = deep(ev, st["rv"]["ops"][0], 10)
                m = re.match(r"^Integer\{BigInt::concat\((.*)\)\}?$", d)
                if not m:
                    bad.append("an Ok answer that is not BigInt::concat: `%s`" % d[:90])
                    continue
                parts = _split_args(m.group(1))
                # (lhs, (lhs.size, 0), rhs, (rhs.size, 0))
                if len(parts) != 4:
                    bad.append("BigInt::concat called with %d argument(s)" % len(parts))
                    continue
                l, lw, r, rw = parts
                for side, val, w in (("left", l, lw), ("right", r, rw)):
                    want = "tuple(%s.size@Some.0, 0_usize)" % val
                    if w != want:
                        bad.append("the %s slice is `%s`, not the operand's whole declared width" % (side, w[:80]))
                if l == r:
                    bad.append("both operands are the same value")
    why = "; ".join(bad) if bad else "no Ok answer in the Concat arm"
    run.check(oks >= 1 and not bad, R, R + "|concat|widths", ev.loc(),
              "`@`: the only successful answer is BigInt::concat(lhs, (lhs.size, 0), rhs, (rhs.size, 0)) with both sizes known (%d Ok site(s))" % oks,
              "evaluator, Concat arm: %s" % why)


def _split_args(s):
    out, depth, cur = [], 0, ""
    for ch in s:
        if ch in "([{":
            depth += 1
        elif ch in ")]}":
            depth -= 1
        if ch == "," and depth == 0:
            out.append(cur.strip())
            cur = ""
        else:
            cur += ch
    if cur.strip():
        out.append(cur.strip())
    return out


def propagate_rule(run, R="TAB-op"):
    """the evaluator: the value of every sub-expression is asked `should_propagate()` (not known yet / failed constraint) before
    its kind is looked at, and is handed back unchanged when it says yes -- so `unknown` never becomes a type error"""
    from mir import peel
    ev = [f for f in run.prog.real_fns() if f.id.endswith("Expr>::eval_with_ctx")]
    if len(ev) != 1:
        run.violation(R, R + "|propagate|anchor", "-", "mechanism not found: Expr::eval_with_ctx")
        return
    ev = ev[0]
    rec = [(bi, t) for bi, t in ev.calls() if (t.get("resolved") or "") == ev.id]
    sp = [(bi, t) for bi, t in ev.calls() if (t.get("callee") or "").endswith("Value::should_propagate")]

    def source_call(op):
        o = ev.origin_op(op)
        n = 0
        while o is not None and n < 14:
            n += 1
            if o[0] in ("ref", "cast"):
                o = o[1]
            elif o[0] == "place":
                o = o[1]
            elif o[0] == "call":
                if (o[1].get("callee") or "") == "std::ops::Try::branch" and o[1]["args"]:
                    o = ev.origin_op(o[1]["args"][0])
                else:
                    return o[1]
            elif o[0] == "multi":
                ds = [d for d in o[2]]
                if len(ds) == 1 and ds[0][0] == "call":
                    return ds[0][2]
                if len(ds) == 1 and ds[0][0] == "stmt" and ds[0][3]["rv"]["k"] == "use":
                    o = ev.origin_op(ds[0][3]["rv"]["op"])
                else:
                    return None
            else:
                return None
        return None
    asked = {}
    for bi, t in sp:
        c = source_call(t["args"][0])
        if c is not None:
            asked.setdefault(id(c), []).append(bi)
    missing = []
    for bi, t in rec:
        hits = [b for b in asked.get(id(t), []) if ev.dominates(bi, b)]
        if not hits:
            missing.append(ev.loc(t["span"]))
    run.check(len(rec) >= 10 and not missing, R, R + "|propagate|every-subexpression", ev.loc(),
              "each of the %d sub-expression evaluations is asked should_propagate() before its value is used" % len(rec),
              "the evaluator uses the value of a sub-expression without asking should_propagate() first (%s): a symbol that is not known yet in this pass would be answered with a type error instead of `unknown`" % ", ".join(missing[:4]))


def slice_bounds_rule(run, R="TAB-op"):
    """`x[hi:lo]` with hi < lo is an error: the evaluator compares the two bounds as written (not hi + 1 with lo, which lets
    hi == lo - 1 through as an empty value) and fails on the inverted edge"""
    from rules_sym import deep, report_error_in_region
    from rules_tab import err_return_in_region
    ev = [f for f in run.prog.real_fns() if f.id.endswith("Expr>::eval_with_ctx")]
    if len(ev) != 1:
        return
    ev = ev[0]
    arm = None
    for b, arms, oth, pl, vs in T.enum_switch_arms(ev, "Expr"):
        if "Slice" in arms:
            arm = (b, arms["Slice"])
    if arm is None:
        run.violation(R, R + "|slice|raw-bounds", ev.loc(), "mechanism not found: the Slice arm of the evaluator")
        return
    reg = T.dominated_region(ev, arm[1], arm[0])
    ok = False
    for x in sorted(reg):
        for st in ev.blocks[x]["stmts"]:
            if st["k"] == "assign" and st["rv"]["k"] == "binop" and st["rv"]["op"] in ("Lt", "Gt", "Le", "Ge"):
                l, r = deep(ev, st["rv"]["l"], 7), deep(ev, st["rv"]["r"], 7)
                if "expect_usize(" in l and "expect_usize(" in r and " Add " not in l + r and "checked_add" not in l + r:
                    tt = ev.blocks[x]["term"]
                    if tt["k"] == "switch":
                        for e in ev.succs(x):
                            rg = T.dominated_region(ev, e, x)
                            if report_error_in_region(ev, rg) and err_return_in_region(ev, rg):
                                ok = True
    run.check(ok, R, R + "|slice|raw-bounds", ev.loc(), "the slice bounds are compared as written and an inverted range fails",
              "the Slice arm of the evaluator has no comparison of the two bounds as written that fails: `x[2:3]` (hi == lo - 1) is answered with an empty value instead of `invalid slice range`")


def string_token_rule(run, R="TAB-op"):
    """sibling agreement of the two readers of a string literal: the escape reader understands an escaped double quote, so the
    tokenizer that decides where the literal ends has to step over a character that follows a backslash (its scan tests for it)"""
    from mir import natural_loop
    tk = run.anchor(R, "syntax::token::check_for_string")
    rd = run.anchor(R, "syntax::excerpt::excerpt_as_string_contents")
    if tk is None or rd is None:
        return

    def char_tests(f, code):
        out = []
        for bi, si, st in f.stmts():
            if st["k"] == "assign" and st["rv"]["k"] == "binop" and st["rv"]["op"] in ("Eq", "Ne"):
                for o in (st["rv"]["l"], st["rv"]["r"]):
                    if o.get("ty") == "char" and str(o.get("int")) == str(code):
                        out.append(bi)
        for b in f.reachable():
            t = f.blocks[b]["term"]
            if t["k"] == "switch" and t.get("discr_ty") == "char" and any(str(v) == str(code) for v, _ in t["targets"]):
                out.append(b)
        return out
    reader_knows_quote = bool(char_tests(rd, 34))
    in_loop = set()
    for h in tk.reachable():
        in_loop |= natural_loop(tk, h)
    tok_backslash = [b for b in char_tests(tk, 92) if b in in_loop]
    # ... or hands the backslash to a helper of the scanner that tests for it (`consume_char('\\')`)
    for bi, t in tk.calls():
        if bi in in_loop and any(isinstance(a, dict) and a.get("ty") == "char" and str(a.get("int")) == "92" for a in t["args"]):
            tok_backslash.append(bi)
    run.check((not reader_knows_quote) or bool(tok_backslash), R, R + "|string|escaped-quote", tk.loc(),
              "the string tokenizer steps over escaped characters, so an escaped double quote does not end the literal",
              "the escape reader implements the escaped double quote, but check_for_string ends the token at the first double quote without looking for a backslash: a literal containing backslash-quote fails with `invalid escape sequence`")


def lazy_operands_typed(run, R="TAB-op"):
    """`||` and `&&` take booleans on both sides: in the branch of the evaluator that handles the two lazy operators, the value of
    the left operand is tested for being a boolean (anything else is reported and fails) before the right operand is evaluated,
    and the value of the right operand is tested the same way.  A left operand of another type is an ill-typed operation, not
    `not settled yet`"""
    from rules_idx import promoted_variant
    from rules_sym import report_error_in_region
    from rules_tab import err_return_in_region
    from rules_fix import reach_from
    fs = [f for f in run.prog.real_fns() if f.kind != "Closure" and f.id.endswith("Expr>::eval_with_ctx")]
    if len(fs) != 1:
        run.violation(R, R + "|lazy|operands-typed", "-", "mechanism not found: Expr::eval_with_ctx")
        return
    f = fs[0]
    # the branch: behind a comparison of the operator with LazyOr / LazyAnd
    entry = None
    entries = []
    for bi, t in f.calls():
        if (t.get("callee") or "").endswith("PartialEq::eq") and any(promoted_variant(run.prog, f, a) in ("LazyOr", "LazyAnd") for a in t["args"]):
            bt = T.bool_test(f, t)
            if bt:
                entry = bt[0] if entry is None else entry
                entries.append(bt[0])
    if entry is None:
        run.violation(R, R + "|lazy|operands-typed", f.loc(), "mechanism not found: the branch of the evaluator for `||` and `&&`")
        return
    region = None
    for e_ in entries:
        region = reach_from(f, e_) if region is None else (region & reach_from(f, e_))
    evals = [(bi, t) for bi, t in f.calls() if bi in region and (t.get("resolved") or "") == f.id and t.get("target") is not None]
    # the left operand's evaluation dominates the right operand's
    evals.sort(key=lambda e: sum(1 for o in evals if f.dominates(o[0], e[0])))
    ok, why = len(evals) >= 2, "the two operand evaluations were not found"
    if ok:
        (b1, t1), (b2, t2) = evals[0], evals[1]
        tests = []
        for b in sorted(region):
            tt = f.blocks[b]["term"]
            if tt["k"] != "switch" or op_local(tt["discr"]) is None:
                continue
            o = f.origin_local(op_local(tt["discr"]))
            if not (o and o[0] == "discr" and "Bool" in (o[2].get("variants") or {}).values() and (o[2].get("adt") or "").endswith("Value")):
                continue
            vs = o[2]["variants"]
            other = [e for e in f.succs(b) if e not in [tg for v, tg in tt["targets"] if vs.get(v) == "Bool"]]
            def error_only(e):
                reg, work = set(), [e]
                while work:
                    x = work.pop()
                    if x in reg:
                        continue
                    reg.add(x)
                    work.extend(f.succs(x))
                has_ok = any(st["k"] == "assign" and st["place"]["l"] == 0 and not st["place"]["p"] and st["rv"]["k"] == "agg" and st["rv"].get("variant") == "Ok"
                             for x in reg for st in f.blocks[x]["stmts"])
                calls_eval = any((f.blocks[x]["term"].get("resolved") or "") == f.id for x in reg if f.blocks[x]["term"]["k"] == "call")
                return (not has_ok) and (not calls_eval) and report_error_in_region(f, reg) and err_return_in_region(f, reg)
            if any(error_only(e) for e in other):
                tests.append(b)
        left = [b for b in tests if f.dominates(t1["target"], b) and not f.dominates(t2["target"], b) and b2 in reach_from(f, b)]
        right = [b for b in tests if f.dominates(t2["target"], b)]
        ok = bool(left) and bool(right)
        why = "the value of the %s operand is not tested for being a boolean (with an error for any other type)%s" % ("left" if not left else "right", " before the right operand is evaluated" if not left else "")
    run.check(ok, R, R + "|lazy|operands-typed", f.loc(), "both operands of `||` / `&&` are tested for being booleans; the left one before the right one is evaluated",
              "eval_with_ctx, lazy operators: %s: `5 || true` or `\"x\" && false` evaluate to the right operand instead of failing with `invalid argument type to operator`" % why)


def continuation_same_line(run, R="TAB-op"):
    """an expression ends with its line: the two places where the expression parser goes on after a complete operand - another
    binary operator (parse_binary_ops) and another `.name` of a dotted name (parse_variable) - first ask the walker whether a line
    break comes next, inside the loop, on every round.  Otherwise `1 + 2` followed by a line `-3` is read as `1 + 2 - 3`, and a
    name at the end of a line swallows the `.label:` declared on the next one"""
    from mir import natural_loop
    n, bad = 0, []
    for name in ("ExpressionParser::<'a, 'src>::parse_binary_ops", "ExpressionParser::<'a, 'src>::parse_variable"):
        f = run.anchor(R, name)
        if f is None:
            continue
        loops = []
        for h in sorted(f.reachable()):
            lp = natural_loop(f, h)
            if lp:
                loops.append(lp)
        lbs = [bi for bi, t in f.calls() if (t.get("resolved") or t.get("callee") or "").endswith("::next_linebreak")]

        def consumes(h, depth=0):
            """does the function (or a closure of it, or a parser helper it calls) consume an optional token?"""
            fam = [h] + [g for g in run.prog.real_fns() if g.kind == "Closure" and (g.raw.get("root") or "") == h.id]
            for g in fam:
                for _, t_ in g.calls():
                    c_ = t_.get("resolved") or t_.get("callee") or ""
                    if re.search(r"Walker::<'src>::maybe_expect$", c_):
                        return True
                    h2 = run.prog.fn(c_)
                    if depth < 2 and h2 is not None and h2.id != h.id and "ExpressionParser" in h2.id and re.search(r"::maybe_expect\w*$", h2.id) and consumes(h2, depth + 1):
                        return True
            return False

        def asks_itself(h):
            """a helper that asks for the line break itself before every optional token it consumes"""
            lb_ = [bi for bi, t_ in h.calls() if (t_.get("resolved") or t_.get("callee") or "").endswith("::next_linebreak")]
            me_ = [bi for bi, t_ in h.calls() if re.search(r"Walker::<'src>::maybe_expect$", t_.get("resolved") or t_.get("callee") or "")]
            return bool(me_) and all(any(h.dominates(l, m) for l in lb_) for m in me_)

        for bi, t in f.calls():
            c = t.get("resolved") or t.get("callee") or ""
            direct = bool(re.search(r"Walker::<'src>::maybe_expect$", c))
            helper = run.prog.fn(c) if not direct else None
            if not direct and not (helper is not None and "ExpressionParser" in helper.id and re.search(r"::maybe_expect\w*$", helper.id) and consumes(helper)):
                continue
            inside = [lp for lp in loops if bi in lp]
            if not inside:
                continue
            n += 1
            outer = max(inside, key=len)
            if helper is not None and asks_itself(helper):
                continue
            if not any(l in outer and f.dominates(l, bi) for l in lbs):
                bad.append("%s (%s)" % (f.loc(t["span"]), name.rsplit("::", 1)[-1]))
    run.check(n >= 2 and not bad, R, R + "|continuation|same-line", "-", "every continuation of an expression (next operator, next `.name`) is preceded by a line-break test in the same round (%d site(s))" % n,
              "the expression parser continues an expression without asking for a line break first, or asks only once before its loop (%s): an operator or a dotted name at the start of the next line is taken as part of the expression on this line" % (", ".join(bad) or "continuation sites not found"))


def keyword_whole_identifier(run, R="TAB-op"):
    """`asm`, `true` and `false` are keywords only as whole words: the tokenizer first takes the longest run of identifier
    characters and then compares that text with the keyword table - the table is not consulted before the identifier has been
    scanned, so `true1`, `asm16` or `falsehood` are ordinary names"""
    import json
    f = run.anchor(R, "syntax::token::check_for_identifier")
    if f is None:
        return
    scans = [bi for bi, t in f.calls() if (t.get("resolved") or t.get("callee") or "").endswith("CharWalker::<'_>::consume_while") or (t.get("resolved") or t.get("callee") or "").endswith("::consume_while")]
    # helpers of the tokenizer that consult the table (directly or in a closure)
    table_readers = set()
    for g in run.prog.real_fns():
        if g.id.startswith("syntax::token::") and "KEYWORDS" in json.dumps(g.raw.get("blocks")):
            table_readers.add(g.raw.get("root") or g.id)
    uses = []
    for b in sorted(f.reachable()):
        blk = f.blocks[b]
        txt = json.dumps(blk["stmts"]) + json.dumps(blk["term"].get("args") if blk["term"]["k"] == "call" else "")
        if "KEYWORDS" in txt:
            uses.append(b)
        elif blk["term"]["k"] == "call" and (blk["term"].get("resolved") or "") in table_readers and (blk["term"].get("resolved") or "") != f.id:
            uses.append(b)
    ok = bool(scans) and bool(uses) and all(any(f.dominates(s_, u) and s_ != u for s_ in scans) for u in uses)
    run.check(ok, R, R + "|keyword|whole-identifier", f.loc(), "the keyword table is consulted only after the whole identifier was scanned (%d use(s))" % len(uses),
              "check_for_identifier looks at the keyword table before it has scanned the whole identifier: a name that starts with a keyword and goes on with a digit or letter (`true1`, `asm16`) is split into a keyword and a rest, so its declaration and its uses stop resolving" if uses else "mechanism not found: the keyword table in check_for_identifier")
