"""Generic path-state search over a function's CFG.

step(block, state) -> iterable of (succ_block, new_state); states must be hashable and finite.
Enumerates every reachable (block, state) pair; keeps one predecessor per pair for witness paths."""
from collections import deque


class Search:
    def __init__(self, f, init_state, step, max_nodes=200000):
        self.f = f
        self.pred = {}
        self.at_return = {}  # block -> set(states at its terminator)
        self.seen = set()
        self.overflow = False
        start = (0, init_state)
        self.seen.add(start)
        dq = deque([start])
        while dq:
            node = dq.popleft()
            b, st = node
            outs = step(b, st)
            for item in outs:
                if item[0] == "return":
                    self.at_return.setdefault(b, set()).add(item[1])
                    self.pred.setdefault(("ret", b, item[1]), node)
                    continue
                nb, ns = item
                nn = (nb, ns)
                if nn not in self.seen:
                    self.seen.add(nn)
                    self.pred[nn] = node
                    dq.append(nn)
                    if len(self.seen) > max_nodes:
                        self.overflow = True
                        return

    def witness(self, node):
        """list of blocks from entry to node"""
        path = []
        cur = node
        n = 0
        while cur is not None and n < 100000:
            n += 1
            if cur[0] == "ret":
                path.append(cur[1])
                cur = self.pred.get(cur)
                continue
            path.append(cur[0])
            cur = self.pred.get(cur)
        path.reverse()
        # collapse duplicates
        out = []
        for b in path:
            if not out or out[-1] != b:
                out.append(b)
        return out

    def witness_lines(self, node, limit=30):
        f = self.f
        out = []
        last = None
        for b in self.witness(node):
            t = f.blocks[b]["term"]
            ln = t["span"]["line"]
            desc = t["k"]
            if t["k"] == "call":
                desc = "call " + (t.get("resolved") or t.get("callee") or "indirect")
            s = "bb%d %s:%d %s" % (b, t["span"]["file"], ln, desc)
            if t["k"] in ("call", "switch", "return") and s != last:
                out.append(s)
                last = s
        if len(out) > limit:
            out = out[:limit // 2] + ["..."] + out[-limit // 2:]
        return out
