"""Program model over the JSON facts: functions, CFG, dominators, def/use,
value origins, call graph."""
import json, os, re
from collections import defaultdict, deque


def load_program(factdir):
    crates = []
    for f in sorted(os.listdir(factdir)):
        if not f.endswith(".json"):
            continue
        with open(os.path.join(factdir, f)) as fh:
            txt = fh.read()
        # inside the bin crate, library items are spelled customasm::...
        txt = txt.replace("customasm::", "")
        crates.append(json.loads(txt))
    return Program(crates)


class Program:
    def __init__(self, crates):
        self.crates = crates
        self.fns = {}
        self.adts = {}
        self.crate_of = {}
        for c in crates:
            tag = c["crate_type"] + ("-test" if c["is_test"] else "")
            for f in c["fns"]:
                fn = Fn(f, tag, self)
                # lib wins over lib-test etc.; first wins
                if fn.id not in self.fns:
                    self.fns[fn.id] = fn
            for a in c["adts"]:
                self.adts.setdefault(a["id"], a)
        self._callgraph = None
        self._dyn_targets = None

    def kinds(self):
        return sorted(set(c["crate_type"] + ("-test" if c["is_test"] else "") for c in self.crates))

    def fn(self, id):
        return self.fns.get(id)

    def find(self, suffix, kinds=("Fn", "AssocFn", "Closure")):
        """functions whose id equals suffix or ends with ::suffix"""
        out = []
        for k, f in self.fns.items():
            if f.kind in kinds and (k == suffix or k.endswith("::" + suffix)):
                out.append(f)
        return out

    def one(self, suffix):
        r = self.find(suffix)
        if len(r) != 1:
            raise AnchorError("anchor %r: expected exactly one function, found %d" % (suffix, len(r)))
        return r[0]

    def real_fns(self):
        return [f for f in self.fns.values() if f.kind in ("Fn", "AssocFn", "Closure")]

    # ---- call graph -------------------------------------------------
    def dyn_targets(self):
        """map dyn type string -> list of closure/fn ids coerced to it (Unsize casts),
        plus trait path -> impl methods by name"""
        if self._dyn_targets is not None:
            return self._dyn_targets
        coerced = defaultdict(set)  # target dyn type str -> closure ids
        for f in self.real_fns():
            for bi, b in enumerate(f.blocks):
                for st in b["stmts"]:
                    if st["k"] != "assign":
                        continue
                    rv = st["rv"]
                    if rv["k"] == "cast" and rv["kind"].startswith("coerce:Unsize"):
                        src = rv["from"]
                        m = re.search(r"\{closure@([^}]*)\}", src)
                        tgt = rv["ty"]
                        if m:
                            # find closure id by span: the closure aggregate feeding this cast
                            o = f.origin_op(rv["op"])
                            cid = closure_of_origin(o)
                            if cid:
                                coerced[dyn_key(tgt)].add(cid)
        impls = defaultdict(list)  # (trait, method name) -> fn ids
        for f in self.real_fns():
            tr = f.raw.get("impl_trait")
            if tr:
                impls[(tr, f.id.rsplit("::", 1)[-1])].append(f.id)
        self._dyn_targets = (coerced, impls)
        return self._dyn_targets

    def call_targets(self, f, term):
        """resolved local targets of a call terminator: list of fn ids (may be empty),
        and a flag whether the call is fully understood"""
        res = term.get("resolved")
        kind = term.get("resolved_kind")
        coerced, impls = self.dyn_targets()
        if term.get("callee") is None:
            # indirect call through fn pointer / local closure value
            o = f.origin_op(term["fn_op"])
            cid = closure_of_origin(o)
            if cid:
                return [cid], True
            t = sorted(self.reified().get(norm_fn_ty(term.get("fn_ty", "")), ()))
            return t, bool(t)
        if kind == "virtual":
            tr = term.get("trait")
            name = term["callee"].rsplit("::", 1)[-1]
            if tr in ("std::ops::FnMut", "std::ops::Fn", "std::ops::FnOnce", "core::ops::FnMut", "core::ops::Fn", "core::ops::FnOnce"):
                # dyn Fn*: self type is gargs[0]
                key = dyn_key(term["gargs"][0])
                t = sorted(coerced.get(key, ()))
                return t, bool(t)
            t = list(impls.get((tr, name), []))
            if term["callee"] in self.fns and term["callee"] not in t:
                t.append(term["callee"])   # provided (default) trait method
            return t, bool(t)
        if res is None:
            # call through a generic `F: Fn*` parameter: collect what callers pass in that position
            if term["callee"] in ("std::ops::Fn::call", "std::ops::FnMut::call_mut", "std::ops::FnOnce::call_once") and term["args"]:
                o = peel(f.origin_op(term["args"][0]))
                if o[0] == "param":
                    t = sorted(self.passed_callables(f.id, o[1]))
                    return t, bool(t)
            if term.get("trait"):
                # unresolved trait call (generic Self inside a provided method): every impl in the crate
                t = list(impls.get((term["trait"], term["callee"].rsplit("::", 1)[-1]), []))
                if term["callee"] in self.fns and term["callee"] not in t:
                    t.append(term["callee"])
                if t:
                    return t, True
            if term["callee"] in self.fns:
                return [term["callee"]], True
            return [], False
        if res in self.fns:
            return [res], True
        # closure called through Fn* traits resolved to the closure itself
        return [], True  # external function: leaf

    def passed_callables(self, fid, param_index):
        """fn items / closures passed as argument `param_index` (1-based) at every call site of fid"""
        key = (fid, param_index)
        cache = self.__dict__.setdefault("_passed", {})
        if key in cache:
            return cache[key]
        out = set()
        cache[key] = out
        for g in self.real_fns():
            for bi, t in g.calls():
                if (t.get("resolved") or t.get("callee")) != fid and t.get("callee") != fid:
                    continue
                if len(t["args"]) < param_index:
                    continue
                a = t["args"][param_index - 1]
                if "fn" in a and a["fn"] in self.fns:
                    out.add(a["fn"])
                    continue
                c = closure_of_origin(g.origin_op(a))
                if c and c in self.fns:
                    out.add(c)
        return out

    def reified(self):
        """fn-pointer type -> fn items reified to a pointer of that type anywhere in the crate"""
        if getattr(self, "_reified", None) is None:
            r = defaultdict(set)
            for f in self.real_fns():
                for bi, si, st in f.stmts():
                    if st["k"] == "assign" and st["rv"]["k"] == "cast" and st["rv"]["kind"].startswith("coerce:ReifyFnPointer"):
                        fn = st["rv"]["op"].get("fn")
                        if fn and fn in self.fns:
                            r[norm_fn_ty(st["rv"]["ty"])].add(fn)
            self._reified = r
        return self._reified

    def callgraph(self):
        """resolved call graph.  Higher-order helpers (functions that call a generic `F: Fn*` parameter, e.g.
        parse_binary_ops) are inlined one level: the caller gets the edge to the callable it passes, the helper
        itself gets none, which keeps the levels of the expression grammar apart."""
        if self._callgraph is not None:
            return self._callgraph
        g = defaultdict(set)
        helpers = {}   # fid -> set(param indices called)
        for f in self.real_fns():
            for bi, t in f.calls():
                if t.get("resolved") is None and t.get("callee") in ("std::ops::Fn::call", "std::ops::FnMut::call_mut", "std::ops::FnOnce::call_once") and t["args"]:
                    o = peel(f.origin_op(t["args"][0]))
                    if o[0] == "param":
                        helpers.setdefault(f.id, set()).add(o[1])
        for f in self.real_fns():
            for bi, b in enumerate(f.blocks):
                if b["cleanup"]:
                    continue
                t = b["term"]
                if t["k"] == "call":
                    if t.get("resolved") is None and f.id in helpers and t.get("callee") in ("std::ops::Fn::call", "std::ops::FnMut::call_mut", "std::ops::FnOnce::call_once"):
                        pass   # inlined into the callers below
                    else:
                        tg, _ = self.call_targets(f, t)
                        for x in tg:
                            g[f.id].add(x)
                            if x in helpers:
                                for pi in helpers[x]:
                                    if pi - 1 < len(t["args"]):
                                        a = t["args"][pi - 1]
                                        if "fn" in a and a["fn"] in self.fns:
                                            g[f.id].add(a["fn"])
                                        else:
                                            c = closure_of_origin(f.origin_op(a))
                                            if c and c in self.fns:
                                                g[f.id].add(c)
                for st in b["stmts"]:
                    if st["k"] == "assign" and st["rv"]["k"] == "agg" and st["rv"].get("agg") == "closure":
                        g[f.id].add(st["rv"]["closure"])
                for op in block_operands(b):
                    if "fn" in op and op["fn"] in self.fns:
                        g[f.id].add(op["fn"])
        self._callgraph = g
        return g

    def reachable_from(self, roots):
        g = self.callgraph()
        seen = set()
        dq = deque(r for r in roots)
        while dq:
            x = dq.popleft()
            if x in seen:
                continue
            seen.add(x)
            for y in g.get(x, ()):
                if y not in seen:
                    dq.append(y)
        return seen


class AnchorError(Exception):
    pass


def norm_fn_ty(ty):
    ty = re.sub(r"for<[^>]*> ?", "", ty)
    ty = re.sub(r"'[a-z_0-9]+ ?", "", ty)
    ty = re.sub(r"\(dyn ([^()]*?)( \+ )?\)", r"dyn \1", ty)
    ty = re.sub(r"\s+", " ", ty)
    return ty.strip()


def dyn_key(ty):
    """normalise a dyn type string for matching coercion targets with call self types"""
    ty = ty.strip()
    ty = re.sub(r"^&(mut )?", "", ty)
    ty = re.sub(r"^std::boxed::Box<(.*)>$", r"\1", ty)
    ty = re.sub(r"'[a-z_0-9]+ ?", "", ty)
    ty = re.sub(r"\s*\+\s*$", "", ty.strip())
    ty = re.sub(r"\(dyn (.*)\)$", r"dyn \1", ty)
    ty = re.sub(r"\s+", " ", ty)
    ty = re.sub(r" \+ $", "", ty)
    ty = ty.replace("for<> ", "")
    ty = re.sub(r"for<[^>]*> ", "", ty)
    ty = re.sub(r"(\s*\+\s*)+$", "", ty)
    return ty.strip()


def peel(o):
    """strip refs, casts and pure-deref places from an origin"""
    n = 0
    while o is not None and n < 30:
        n += 1
        if o[0] in ("ref", "cast"):
            o = o[1]
        elif o[0] == "place" and all(pr == "deref" for pr in o[2]):
            o = o[1]
        else:
            break
    return o


def closure_of_origin(o):
    o = peel(o)
    seen = 0
    while o is not None and seen < 20:
        seen += 1
        if o[0] == "agg" and o[1].get("agg") == "closure":
            return o[1]["closure"]
        if o[0] in ("ref", "cast"):
            o = o[1]
            continue
        if o[0] == "const" and "fn" in o[1]:
            return o[1]["fn"]
        return None
    return None


def block_operands(b):
    for st in b["stmts"]:
        if st["k"] != "assign":
            continue
        rv = st["rv"]
        for key in ("op", "l", "r", "x"):
            if key in rv and isinstance(rv[key], dict):
                yield rv[key]
        for o in rv.get("ops", ()):
            yield o
    t = b["term"]
    if t["k"] == "call":
        for a in t["args"]:
            yield a
        if "fn_op" in t:
            yield t["fn_op"]
    elif t["k"] == "switch":
        yield t["discr"]
    elif t["k"] == "assert":
        yield t["cond"]


def op_place(op):
    if "copy" in op:
        return op["copy"]
    if "move" in op:
        return op["move"]
    return None


def op_local(op):
    """local index if operand is a bare local (no projections)"""
    p = op_place(op)
    if p is not None and not p["p"]:
        return p["l"]
    return None


def const_int(op):
    if "int" in op:
        return int(op["int"])
    return None


def const_str(op):
    """string literal value of a `const "…"` operand"""
    c = op.get("const")
    if c is None:
        return None
    if op.get("ty") not in ("&str", "&'static str", None):
        return None
    m = re.match(r'^(?:const )?"(.*)"$', c, re.S)
    if not m:
        return None
    return rust_unescape(m.group(1))


def rust_unescape(s):
    out = []
    i = 0
    while i < len(s):
        c = s[i]
        if c == "\\" and i + 1 < len(s):
            n = s[i + 1]
            if n == "n":
                out.append("\n"); i += 2
            elif n == "t":
                out.append("\t"); i += 2
            elif n == "r":
                out.append("\r"); i += 2
            elif n == "0":
                out.append("\0"); i += 2
            elif n == "\\":
                out.append("\\"); i += 2
            elif n == '"':
                out.append('"'); i += 2
            elif n == "'":
                out.append("'"); i += 2
            elif n == "u":
                j = s.index("}", i)
                out.append(chr(int(s[i + 3:j], 16))); i = j + 1
            elif n == "x":
                out.append(chr(int(s[i + 2:i + 4], 16))); i += 4
            else:
                out.append(c); i += 1
        else:
            out.append(c); i += 1
    return "".join(out)


class Fn:
    def __init__(self, raw, crate_tag, prog):
        self.raw = raw
        self.prog = prog
        self.id = raw["id"]
        self.kind = raw["kind"]
        self.crate = crate_tag
        self.blocks = raw["blocks"]
        self.locals = raw["locals"]
        self.arg_count = raw["arg_count"]
        self.ret = raw["ret"]
        self.file = raw["span"]["file"]
        self.line = raw["span"]["line"]
        self._succ = None
        self._pred = None
        self._dom = None
        self._pdom = None
        self._defs = None
        self._reach = None

    def __repr__(self):
        return "<Fn %s>" % self.id

    def loc(self, span=None):
        s = span or self.raw["span"]
        return "%s:%d" % (s["file"], s["line"])

    # ---- CFG ----------------------------------------------------------
    def term_succs(self, t):
        k = t["k"]
        if k == "goto":
            return [t["target"]]
        if k == "switch":
            return [b for _, b in t["targets"]] + [t["otherwise"]]
        if k in ("drop", "assert"):
            return [t["target"]]
        if k == "call":
            return [t["target"]] if t["target"] is not None else []
        return []

    def _const_switch_target(self, t):
        """a switch on a compile-time constant (e.g. `cond && false`) has only one live edge"""
        d = t["discr"]
        c = const_int(d)
        if c is None:
            l = op_local(d)
            if l is None or (1 <= l <= self.arg_count):
                return None
            ds = self.full_defs(l)
            if len(ds) != 1 or ds[0][0] != "stmt":
                return None
            rv = ds[0][3]["rv"]
            if rv["k"] != "use":
                return None
            c = const_int(rv["op"])
            if c is None:
                return None
        for v, tg in t["targets"]:
            if int(v) == c:
                return tg
        return t["otherwise"]

    def succs(self, b):
        if self._succ is None:
            self._succ = [None] * len(self.blocks)
            # first pass: plain successors (full_defs needs no CFG)
            for i, blk in enumerate(self.blocks):
                t = blk["term"]
                s = []
                only = self._const_switch_target(t) if t["k"] == "switch" else None
                for x in ([only] if only is not None else self.term_succs(t)):
                    if x not in s:
                        s.append(x)
                self._succ[i] = s
        return self._succ[b]

    def preds(self, b):
        if self._pred is None:
            self._pred = [[] for _ in self.blocks]
            for i in range(len(self.blocks)):
                for s in self.succs(i):
                    self._pred[s].append(i)
        return self._pred[b]

    def reachable(self):
        if self._reach is None:
            seen = {0}
            dq = deque([0])
            while dq:
                x = dq.popleft()
                for y in self.succs(x):
                    if y not in seen:
                        seen.add(y)
                        dq.append(y)
            self._reach = seen
        return self._reach

    def return_blocks(self):
        return [i for i in self.reachable() if self.blocks[i]["term"]["k"] == "return"]

    def dominators(self):
        """dom[b] = set of blocks dominating b (iterative; functions are small)"""
        if self._dom is None:
            self._dom = _dominators(len(self.blocks), [0], self.succs, self.preds, self.reachable())
        return self._dom

    def postdominators(self):
        if self._pdom is None:
            exits = [i for i in self.reachable() if not self.succs(i)]
            # virtual exit: compute on reversed graph with multiple roots
            self._pdom = _dominators(len(self.blocks), exits, self.preds, self.succs, self.reachable())
        return self._pdom

    def dominates(self, a, b):
        return a in self.dominators().get(b, ())

    def edge_dominates(self, src, tgt, block):
        """every path to `block` takes the CFG edge src->tgt: tgt dominates block and tgt can only be
        entered through that edge (other predecessors are back edges from inside tgt's region)"""
        if not self.dominates(tgt, block):
            return False
        for p in self.preds(tgt):
            if p != src and not self.dominates(tgt, p):
                return False
        return True

    # ---- defs -----------------------------------------------------------
    def defs(self):
        """local -> list of def sites: ('stmt', bb, idx, stmt) / ('call', bb, term) ; only
        whole-local assignments (no projections) are 'full' defs; projected writes are recorded
        under partial"""
        if self._defs is None:
            full = defaultdict(list)
            partial = defaultdict(list)
            for bi, b in enumerate(self.blocks):
                if b["cleanup"]:
                    continue
                for si, st in enumerate(b["stmts"]):
                    if st["k"] == "assign":
                        p = st["place"]
                        (full if not p["p"] else partial)[p["l"]].append(("stmt", bi, si, st))
                    elif st["k"] == "setdiscr":
                        partial[st["place"]["l"]].append(("stmt", bi, si, st))
                t = b["term"]
                if t["k"] == "call":
                    p = t["dest"]
                    (full if not p["p"] else partial)[p["l"]].append(("call", bi, t))
            self._defs = (full, partial)
        return self._defs

    def full_defs(self, l):
        return self.defs()[0].get(l, [])

    def partial_defs(self, l):
        return self.defs()[1].get(l, [])

    # ---- origins ------------------------------------------------------------
    def origin_local(self, l, depth=0):
        """Symbolic origin of a local:
        ('param', idx) | ('call', term, bb) | ('agg', rv) | ('const', op) | ('ref', origin_of_place)
        | ('place', base_origin, projections) | ('cast', origin, rv) | ('binop', rv) | ('multi', [defs]) | ('unknown',)"""
        if depth > 40:
            return ("unknown",)
        ds = self.full_defs(l)
        if not ds:
            if 1 <= l <= self.arg_count:
                return ("param", l)
            return ("unknown",)
        if len(ds) > 1 or (1 <= l <= self.arg_count):
            return ("multi", l, ds)
        d = ds[0]
        if d[0] == "call":
            return ("call", d[2], d[1])
        st = d[3]
        rv = st["rv"]
        k = rv["k"]
        if k == "use":
            return self.origin_op(rv["op"], depth + 1)
        if k == "ref" or k == "rawptr":
            return ("ref", self.origin_place(rv["place"], depth + 1))
        if k == "cast":
            return ("cast", self.origin_op(rv["op"], depth + 1), rv)
        if k == "agg":
            return ("agg", rv, d[1])
        if k == "binop":
            return ("binop", rv, d[1])
        if k == "unop":
            return ("unop", rv, d[1])
        if k == "discr":
            return ("discr", self.origin_place(rv["place"], depth + 1), rv)
        return ("other", rv)

    def origin_place(self, p, depth=0):
        base = self.origin_local(p["l"], depth + 1)
        projs = p["p"]
        # strip leading derefs of refs
        i = 0
        while i < len(projs):
            pr = projs[i]
            if pr == "deref" and base[0] == "ref":
                base = base[1]
                i += 1
                continue
            break
        rest = projs[i:]
        if not rest:
            return base
        return ("place", base, rest)

    def origin_op(self, op, depth=0):
        p = op_place(op)
        if p is None:
            return ("const", op)
        return self.origin_place(p, depth + 1)

    def copy_root(self, l, depth=0):
        """follow `_a = copy/move _b` single definitions back to the first local that is not a plain copy"""
        while depth < 20:
            depth += 1
            if 1 <= l <= self.arg_count:
                return l
            ds = self.full_defs(l)
            if len(ds) != 1 or ds[0][0] != "stmt":
                return l
            st = ds[0][3]
            if st["k"] != "assign" or st["rv"]["k"] != "use":
                return l
            nl = op_local(st["rv"]["op"])
            if nl is None:
                return l
            l = nl
        return l

    def upvar_names(self):
        if getattr(self, "_upvars", None) is None:
            u = {}
            for d in self.raw.get("debug", []):
                pl = d.get("place")
                if pl and pl["l"] == 1 and pl["p"]:
                    for pr in pl["p"]:
                        if isinstance(pr, dict) and "f" in pr:
                            u.setdefault(pr["f"], d["name"])
                            break
                        if pr != "deref":
                            break
            self._upvars = u
        return self._upvars

    def local_name(self, l):
        return self.locals[l].get("name")

    def locals_named(self, name):
        return [i for i, l in enumerate(self.locals) if l.get("name") == name]

    def local_ty(self, l):
        return self.locals[l]["ty"]

    # ---- iteration helpers --------------------------------------------------
    def calls(self):
        """yield (bb, term) for all non-cleanup call terminators in reachable blocks"""
        r = self.reachable()
        for bi, b in enumerate(self.blocks):
            if b["cleanup"] or bi not in r:
                continue
            if b["term"]["k"] == "call":
                yield bi, b["term"]

    def stmts(self):
        r = self.reachable()
        for bi, b in enumerate(self.blocks):
            if b["cleanup"] or bi not in r:
                continue
            for si, st in enumerate(b["stmts"]):
                yield bi, si, st


def _dominators(n, roots, succs, preds, reachable):
    """returns dict block -> set(dominators); classic iterative set algorithm over reachable blocks
    (with several roots: a virtual root)."""
    nodes = [b for b in range(n) if b in reachable]
    # reverse post order from roots
    order = []
    seen = set()
    for r in roots:
        stack = [(r, iter(succs(r)))]
        if r in seen:
            continue
        seen.add(r)
        while stack:
            x, it = stack[-1]
            adv = False
            for y in it:
                if y not in seen and y in reachable:
                    seen.add(y)
                    stack.append((y, iter(succs(y))))
                    adv = True
                    break
            if not adv:
                order.append(x)
                stack.pop()
    order.reverse()
    full = set(order)
    dom = {b: (set([b]) if b in roots else set(full)) for b in order}
    changed = True
    rootset = set(roots)
    while changed:
        changed = False
        for b in order:
            if b in rootset:
                continue
            ps = [p for p in preds(b) if p in dom]
            if not ps:
                new = set([b])
            else:
                new = set.intersection(*(dom[p] for p in ps))
                new = set(new)
                new.add(b)
            if new != dom[b]:
                dom[b] = new
                changed = True
    return dom


# ---- pretty printing (development aid and replay output) -----------------------

def fmt_place(f, p):
    s = "_%d" % p["l"]
    n = f.locals[p["l"]].get("name")
    if n:
        s += "{" + n + "}"
    for pr in p["p"]:
        if pr == "deref":
            s = "(*%s)" % s
        elif isinstance(pr, dict) and "f" in pr:
            s += "." + pr["name"]
        elif isinstance(pr, dict) and "idx" in pr:
            s += "[_%d]" % pr["idx"]
        elif isinstance(pr, dict) and "cidx" in pr:
            s += "[%d]" % pr["cidx"]
        elif isinstance(pr, dict) and "downcast" in pr:
            s = "(%s as %s)" % (s, pr["downcast"])
        else:
            s += "<%s>" % (pr,)
    return s


def fmt_op(f, op):
    if "copy" in op:
        return fmt_place(f, op["copy"])
    if "move" in op:
        return "move " + fmt_place(f, op["move"])
    if "fn" in op:
        return "fn " + op["fn"]
    return op.get("const", "?")


def fmt_rv(f, rv):
    k = rv["k"]
    if k == "use":
        return fmt_op(f, rv["op"])
    if k == "ref":
        return ("&mut " if rv["mut"] else "&") + fmt_place(f, rv["place"])
    if k == "binop":
        return "%s(%s, %s)" % (rv["op"], fmt_op(f, rv["l"]), fmt_op(f, rv["r"]))
    if k == "unop":
        return "%s(%s)" % (rv["op"], fmt_op(f, rv["x"]))
    if k == "cast":
        return "%s as %s [%s]" % (fmt_op(f, rv["op"]), rv["ty"], rv["kind"])
    if k == "discr":
        return "discriminant(%s)" % fmt_place(f, rv["place"])
    if k == "agg":
        ops = ", ".join(fmt_op(f, o) for o in rv["ops"])
        if rv["agg"] == "adt":
            return "%s::%s{%s}(%s)" % (rv["adt"], rv["variant"], ",".join(rv["fields"]), ops)
        if rv["agg"] == "closure":
            return "closure %s(%s)" % (rv["closure"], ops)
        return "%s(%s)" % (rv["agg"], ops)
    return json.dumps(rv)[:200]


def dump_fn(f, out=None):
    import sys
    out = out or sys.stdout
    out.write("fn %s [%s] -> %s   (%s)\n" % (f.id, f.kind, f.ret, f.loc()))
    for i, l in enumerate(f.locals):
        out.write("  let _%d%s: %s\n" % (i, ("{" + l["name"] + "}") if l.get("name") else "", l["ty"]))
    for bi, b in enumerate(f.blocks):
        if b["cleanup"]:
            continue
        out.write(" bb%d:\n" % bi)
        for st in b["stmts"]:
            if st["k"] == "assign":
                out.write("    %s = %s   // L%d%s\n" % (fmt_place(f, st["place"]), fmt_rv(f, st["rv"]), st["span"]["line"], (" " + st["span"]["mac"]) if st["span"]["mac"] else ""))
            else:
                out.write("    setdiscr %s = %d\n" % (fmt_place(f, st["place"]), st["vi"]))
        t = b["term"]
        k = t["k"]
        if k == "call":
            nm = t.get("resolved_full") or t.get("callee_full") or ("(*%s)" % fmt_op(f, t["fn_op"]))
            out.write("    %s = CALL %s(%s) -> bb%s [%s]  // L%d\n" % (fmt_place(f, t["dest"]), nm, ", ".join(fmt_op(f, a) for a in t["args"]), t["target"], t.get("resolved_kind"), t["span"]["line"]))
        elif k == "switch":
            out.write("    SWITCH %s [%s] else bb%d\n" % (fmt_op(f, t["discr"]), ", ".join("%s→bb%d" % (v, b2) for v, b2 in t["targets"]), t["otherwise"]))
        elif k == "assert":
            out.write("    ASSERT %s == %s (%s) -> bb%d\n" % (fmt_op(f, t["cond"]), t["expected"], t["msg"], t["target"]))
        elif k == "drop":
            out.write("    DROP %s -> bb%d\n" % (fmt_place(f, t["place"]), t["target"]))
        elif k == "goto":
            out.write("    GOTO bb%d\n" % t["target"])
        else:
            out.write("    %s\n" % k.upper())


# ---- use sites ---------------------------------------------------------------

def rv_operands(rv):
    for key in ("op", "l", "r", "x"):
        if key in rv and isinstance(rv[key], dict):
            yield rv[key]
    for o in rv.get("ops", ()):
        yield o


def rv_places(rv):
    """places read by an rvalue (operands + ref/discr places)"""
    for o in rv_operands(rv):
        p = op_place(o)
        if p is not None:
            yield p
    if "place" in rv:
        yield rv["place"]


def place_locals(p):
    yield p["l"]
    for pr in p["p"]:
        if isinstance(pr, dict) and "idx" in pr:
            yield pr["idx"]


def fn_uses(f, l):
    """all read uses of local l: list of (bb, kind, obj) with kind 'stmt'/'term';
    a statement writing to a projection of l counts as use as well"""
    out = []
    for bi, si, st in f.stmts():
        if st["k"] != "assign":
            if l in place_locals(st["place"]):
                out.append((bi, "stmt", st))
            continue
        hit = False
        for p in rv_places(st["rv"]):
            if l in place_locals(p):
                hit = True
        if st["place"]["p"] and l in place_locals(st["place"]):
            hit = True
        if hit:
            out.append((bi, "stmt", st))
    r = f.reachable()
    for bi, b in enumerate(f.blocks):
        if b["cleanup"] or bi not in r:
            continue
        t = b["term"]
        hit = False
        if t["k"] == "call":
            for a in t["args"]:
                p = op_place(a)
                if p is not None and l in place_locals(p):
                    hit = True
            if "fn_op" in t:
                p = op_place(t["fn_op"])
                if p is not None and l in place_locals(p):
                    hit = True
            if t["dest"]["p"] and l in place_locals(t["dest"]):
                hit = True
        elif t["k"] == "switch":
            p = op_place(t["discr"])
            if p is not None and l in place_locals(p):
                hit = True
        elif t["k"] == "assert":
            p = op_place(t["cond"])
            if p is not None and l in place_locals(p):
                hit = True
        # drops are not uses
        if hit:
            out.append((bi, "term", t))
    return out


TRANSPARENT_CALLEES = {
    "std::ops::Deref::deref", "std::ops::DerefMut::deref_mut", "std::convert::AsRef::as_ref", "std::borrow::Borrow::borrow",
    "std::string::String::as_str", "std::clone::Clone::clone", "std::option::Option::<T>::as_ref", "std::option::Option::<T>::unwrap",
    "std::option::Option::<T>::as_mut", "std::vec::Vec::<T, A>::as_slice",
}


def describe_origin(f, o, depth=0):
    """stable human readable description of an origin (no local numbers, no lines)"""
    if depth > 12 or o is None:
        return "?"
    k = o[0]
    if k == "param":
        return "param:" + (f.local_name(o[1]) or str(o[1]))
    if k == "call":
        t = o[1]
        c = t.get("callee") or ""
        if c in TRANSPARENT_CALLEES and t["args"]:
            return describe_origin(f, f.origin_op(t["args"][0]), depth + 1)
        return "call:" + (t.get("resolved") or t.get("callee") or "indirect")
    if k == "const":
        return o[1].get("const", "const")
    if k == "ref":
        return "&" + describe_origin(f, o[1], depth + 1)
    if k == "place":
        projs = o[2]
        if f.kind == "Closure" and o[1] == ("param", 1):
            up = f.upvar_names()
            for i, pr in enumerate(projs):
                if isinstance(pr, dict) and "f" in pr:
                    if pr["f"] in up and all(x == "deref" for x in projs[:i]):
                        s = "upvar:" + up[pr["f"]]
                        rest = [x for x in projs[i + 1:]]
                        # the first deref after the field only undoes the by-reference capture
                        if rest and rest[0] == "deref":
                            rest = rest[1:]
                        o = ("place", ("named", s), rest)
                    break
        if o[1][0] == "named":
            s = o[1][1]
            projs = o[2]
        else:
            s = describe_origin(f, o[1], depth + 1)
        for pr in projs:
            if pr == "deref":
                s = "*" + s
            elif isinstance(pr, dict) and "f" in pr:
                s += "." + pr["name"]
            elif isinstance(pr, dict) and "downcast" in pr:
                s += "@" + pr["downcast"]
            elif isinstance(pr, dict) and ("idx" in pr or "cidx" in pr):
                s += "[]"
        return s
    if k == "cast":
        return describe_origin(f, o[1], depth + 1)
    if k == "agg":
        rv = o[1]
        if rv["agg"] == "adt":
            return "new:%s::%s" % (rv["adt"], rv["variant"])
        return "new:" + rv["agg"]
    if k == "multi":
        n = f.local_name(o[1])
        return "var:" + (n or "tmp")
    if k == "binop":
        return "binop:" + o[1]["op"]
    return k


ELEM_ACCESS = re.compile(r"(std::ops::Index::index|std::ops::IndexMut::index_mut|core::slice::<impl \[T\]>::(get|get_mut|first|last|first_mut|last_mut)|std::vec::Vec::<T, A>::(get|get_mut))$")
NORMALISE_ELEM = True


def is_elem_call(f, t):
    """is this call the fetch of an element of a collection: v[i], v.get(i), ... or `opt.and_then(|i| v.get(i))`?"""
    c = t.get("callee") or ""
    if ELEM_ACCESS.search(c):
        return True
    if c.endswith("Option::<T>::and_then") and len(t["args"]) == 2:
        cid = closure_of_origin(f.origin_op(t["args"][1]))
        g = f.prog.fn(cid) if cid else None
        if g is not None:
            o = g.origin_local(0)
            o = peel(o) if o else o
            return bool(o and o[0] == "call" and ELEM_ACCESS.search(o[1].get("callee") or ""))
    return False


def stable_origin(f, o, depth=0, _seen=None):
    """like describe_origin, but free of the names of locals and parameters (a renamed variable must not change an
    obligation key): parameters by position, multiply-assigned locals by the set of what is assigned to them, captured
    variables by capture index"""
    if depth > 12 or o is None:
        return "?"
    _seen = _seen or set()
    k = o[0]
    if k == "param":
        return "P%d" % o[1]
    if k == "call":
        t = o[1]
        c = t.get("callee") or ""
        if c in TRANSPARENT_CALLEES and t["args"]:
            return stable_origin(f, f.origin_op(t["args"][0]), depth + 1, _seen)
        if NORMALISE_ELEM and is_elem_call(f, t):
            return "elem"          # an element of a collection, however it is fetched (v[i], v.get(i), v.first() ...)
        if NORMALISE_ELEM and c.endswith("Option::<T>::unwrap_or") and len(t["args"]) == 2 and "const" in t["args"][1]:
            # `x.unwrap_or(c)` is `match x { Some(v) => v, None => c }`
            parts = sorted([stable_origin(f, f.origin_op(t["args"][0]), depth + 2, _seen) + "@Some.0", str(t["args"][1].get("const"))])
            return "var{%s}" % "|".join(parts)
        return "call:" + (t.get("resolved") or t.get("callee") or "indirect")
    if k == "const":
        return o[1].get("const", "const")
    if k == "ref":
        return "&" + stable_origin(f, o[1], depth + 1, _seen)
    if k == "place":
        projs = o[2]
        base = o[1]
        if NORMALISE_ELEM and base[0] == "call" and is_elem_call(f, base[1]) and projs and isinstance(projs[0], dict) and projs[0].get("downcast") == "Some":
            # v.get(i) -> Some(elem): skip the downcast and the payload field
            projs = projs[1:]
            if projs and isinstance(projs[0], dict) and projs[0].get("name") == "0":
                projs = projs[1:]
        if f.kind == "Closure" and base == ("param", 1):
            s = "P1"
            for i, pr in enumerate(projs):
                if isinstance(pr, dict) and "f" in pr and all(x == "deref" for x in projs[:i]):
                    s = "up%s" % pr["f"]
                    projs = projs[i + 1:]
                    if projs and projs[0] == "deref":
                        projs = projs[1:]
                    break
        else:
            s = stable_origin(f, base, depth + 1, _seen)
        for pr in projs:
            if pr == "deref":
                s = "*" + s
            elif isinstance(pr, dict) and "f" in pr:
                s += "." + pr["name"]
            elif isinstance(pr, dict) and "downcast" in pr:
                s += "@" + pr["downcast"]
            elif isinstance(pr, dict) and ("idx" in pr or "cidx" in pr):
                s += "[]"
        return s
    if k == "cast":
        return stable_origin(f, o[1], depth + 1, _seen)
    if k == "agg":
        rv = o[1]
        if rv["agg"] == "adt":
            return "new:%s::%s" % (rv["adt"], rv["variant"])
        return "new:" + rv["agg"]
    if k == "multi":
        l = o[1]
        if l in _seen or depth > 4:
            return "var"
        if 1 <= l <= f.arg_count:
            return "P%d" % l
        seen2 = _seen | {l}
        parts = set()
        for d in f.full_defs(l):
            if d[0] == "call":
                parts.add("call:" + (d[2].get("resolved") or d[2].get("callee") or "indirect"))
            else:
                st = d[3]
                if st["k"] != "assign":
                    continue
                rv = st["rv"]
                if rv["k"] == "use":
                    parts.add(stable_origin(f, f.origin_op(rv["op"]), depth + 2, seen2))
                elif rv["k"] == "binop":
                    parts.add("binop:" + rv["op"])
                elif rv["k"] == "ref":
                    parts.add("&" + stable_origin(f, f.origin_place(rv["place"]), depth + 2, seen2))
                else:
                    parts.add(rv["k"])
        return "var{%s}" % "|".join(sorted(parts))
    if k == "binop":
        return "binop:" + o[1]["op"]
    return k


def scc_containing(f, b):
    """blocks x with b ->* x ->* b (the loop around b); empty set if b is not in a cycle"""
    fwd = set()
    dq = deque(f.succs(b))
    while dq:
        x = dq.popleft()
        if x in fwd:
            continue
        fwd.add(x)
        dq.extend(f.succs(x))
    if b not in fwd:
        return set()
    bwd = set()
    dq = deque(f.preds(b))
    while dq:
        x = dq.popleft()
        if x in bwd:
            continue
        bwd.add(x)
        dq.extend(f.preds(x))
    return (fwd & bwd) | {b}


def natural_loop(f, h):
    """natural loop with header h (union over all back edges p->h with h dom p); empty if none"""
    tails = [p for p in f.preds(h) if f.dominates(h, p)]
    if not tails:
        return set()
    loop = {h}
    work = list(tails)
    while work:
        x = work.pop()
        if x in loop:
            continue
        loop.add(x)
        work.extend(f.preds(x))
    return loop
