"""ASM / FN — asm blocks and user functions mean what their expansion means (C17)."""
import re
from mir import (op_place, op_local, const_int, natural_loop)
import tables as T
from rules_tab import err_return_in_region, value_depends_on
from rules_sym import deep, short_callee, report_error_in_region, _calls, _switch_on_call_result

R = "ASM"


def _call_blocks(f):
    return [bi for bi, t in f.calls()]


def asm_block_rules(run):
    prog = run.prog
    f = run.anchor(R, "asm::resolver::eval_asm::eval_asm")
    if f is not None:
        g_ = _calls(f, "EvalContext::check_recursion_depth_limit")
        ok = len(g_) == 1
        if ok:
            gb, gt = g_[0]
            ok = deep(f, gt["args"][0]) == "P6.eval_ctx" and all(f.dominates(gb, b) for b in _call_blocks(f))
            from rules_mpt import success_edge_of_call
            se = success_edge_of_call(f, gb, gt)
            others = [b for b in _call_blocks(f) if b != gb and not (f.blocks[b]["term"].get("callee") or "").endswith("Try::branch") and not (f.blocks[b]["term"].get("callee") or "").endswith("from_residual")]
            ok = ok and se is not None and all(f.edge_dominates(se[0], se[1], b) for b in others)
        run.check(ok, R, R + "|depth-guard-first", f.loc(), "an asm block first checks the nesting depth of the context it is evaluated in; nothing runs when the limit is reached",
                  "eval_asm no longer starts with the recursion depth check of its own evaluation context: nested asm blocks would recurse until the stack overflows")
        # content filter: constants, nested labels and anything that is neither label nor instruction are rejected
        msgs = []
        for bi, t in f.calls():
            if short_callee(t).endswith("Report::error_span"):
                m = str(t["args"][1].get("const", ""))
                reg = {bi} | T.dominated_region(f, t["target"], bi) if t["target"] is not None else {bi}
                if err_return_in_region(f, reg):
                    msgs.append(m)
        want = ["only labels are permitted", "only top-level labels", "invalid content"]
        run.check(all(any(w in m for m in msgs) for w in want), R, R + "|content-filter", f.loc(), "an asm block may only contain instructions and top-level labels; anything else is reported and rejected",
                  "eval_asm no longer rejects %s" % [w for w in want if not any(w in m for m in msgs)])
        # labels start unknown; the block starts at the position of the enclosing instruction
        ri = _calls(f, "eval_asm::resolve_iteratively")
        ok = len(ri) == 1
        if ok:
            rb, rt = ri[0]
            ok = deep(f, rt["args"][6]) == "P5.bank_data.cur_position"
        ins = _calls(f, "HashMap::insert")
        ok = ok and len(ins) == 1 and deep(f, ins[0][1]["args"][2]) == "Unknown{}" and deep(f, ins[0][1]["args"][1], 6).endswith("@Symbol.0.name")
        run.check(ok, R, R + "|start", f.loc(), "the block is laid out from the current position of the enclosing instruction; its labels start without a value",
                  "eval_asm no longer starts the block at ctx.bank_data.cur_position with unknown labels")
    g = run.anchor(R, "asm::resolver::eval_asm::resolve_once")
    if g is None:
        return
    # position bookkeeping: the block-local position is the value put into the BankData handed to each instruction
    bd = [st for bi, si, st in g.stmts() if st["k"] == "assign" and st["rv"]["k"] == "agg" and st["rv"].get("agg") == "adt" and st["rv"]["adt"].endswith("BankData")]
    cp = None
    if len(bd) == 1 and op_local(bd[0]["rv"]["ops"][0]) is not None:
        cp = g.copy_root(op_local(bd[0]["rv"]["ops"][0]))
    ok = cp is not None and not (1 <= cp <= g.arg_count)
    why = "the position handed to the instructions is not a block-local counter"
    if ok:
        inits, incs, other = [], [], []
        for d in g.full_defs(cp):
            if d[0] != "stmt" or d[3]["k"] != "assign":
                other.append((d, "call"))
                continue
            rv = d[3]["rv"]
            e = deep(g, rv["op"], 6) if rv["k"] == "use" else "?"
            if e == "P7":
                inits.append(d)
                continue
            o = g.origin_op(rv["op"]) if rv["k"] == "use" else None
            if o and o[0] == "place" and o[1][0] == "binop":
                o = o[1]
            if o and o[0] == "binop" and o[1]["op"].startswith("Add") and op_local(o[1]["l"]) is not None and g.copy_root(op_local(o[1]["l"])) == cp \
                    and re.search(r"resolve_encoding\(.*\.size", deep(g, o[1]["r"], 6)):
                incs.append(d)
            else:
                other.append((d, e))
        ok = len(inits) == 1 and len(incs) == 1 and not other
        why = "%d initialisation(s) from the start position, %d advance(s) by the size of the encoding just resolved, other assignments: %s" % (len(inits), len(incs), [x[1][:80] for x in other])
    run.check(ok, R, R + "|position", g.loc(), "inside the block the position starts at the block's start and advances by the size of each resolved instruction",
              "resolve_once: %s" % why)
    # the context handed to each instruction carries that position
    ictx = None
    stores = {}
    for bi, si, st in g.stmts():
        if st["k"] == "assign" and st["place"]["p"]:
            fld = [pr["name"] for pr in st["place"]["p"] if isinstance(pr, dict) and "f" in pr]
            if fld and fld[-1] == "bank_data" and "BankData{" in (deep(g, {"copy": st["rv"]["place"]}, 5) if st["rv"]["k"] == "ref" else deep(g, st["rv"]["op"], 5) if st["rv"]["k"] == "use" else ""):
                ictx = st["place"]["l"]
    for bi, si, st in g.stmts():
        if st["k"] == "assign" and st["place"]["p"] and st["place"]["l"] == ictx:
            fld = [pr["name"] for pr in st["place"]["p"] if isinstance(pr, dict) and "f" in pr]
            if fld:
                stores[fld[-1]] = (deep(g, st["rv"]["op"], 5) if st["rv"]["k"] == "use" else (deep(g, {"copy": st["rv"]["place"]}, 5) if st["rv"]["k"] == "ref" else "?"), st)
    okb = ictx is not None and cp is not None
    re_ = _calls(g, "instruction::resolve_encoding")
    ea = _calls(g, "ResolverContext::eval_address")
    okb = okb and len(re_) == 1 and g.copy_root(_base_local(g, re_[0][1]["args"][7])) == ictx
    okb = okb and len(ea) == 1 and g.copy_root(_base_local(g, ea[0][1]["args"][0])) == ictx
    # the inner context is a copy of the enclosing one
    if okb:
        ds = g.full_defs(ictx)
        okb = len(ds) == 1 and ds[0][0] == "call" and (ds[0][2].get("callee") or "").endswith("Clone::clone") and deep(g, ds[0][2]["args"][0]) == "P5"
    run.check(bool(okb), R, R + "|inner-context", g.loc(), "each instruction and label of the block is evaluated in a copy of the context whose position is the block-local position",
              "resolve_once no longer evaluates the block's instructions/labels with a context positioned at the block-local position: `$` and label values inside the block would be those of the enclosing instruction")
    # everything else of the context is the call site's: only the position and the pass flags are replaced
    extra = sorted(set(stores) - {"bank_data", "is_first_iteration", "is_last_iteration"})
    run.check(not extra, R, R + "|inner-context|only-position-and-flags", g.loc(), "the block's context differs from the call site's only in the position and the pass flags",
              "resolve_once also replaces %s in the context it evaluates the block in: symbols, banks and files named inside the block would no longer be those of the place where the instruction stands (a `.local` label handed to the block would be unknown)" % extra)
    # strictness of the inner passes must follow the outer pass
    if "is_last_iteration" in stores:
        src, st = stores["is_last_iteration"]
        dep_outer = "P5" in src or (st["rv"]["k"] == "use" and value_depends_on(g, st["rv"]["op"], 5))
        run.check(dep_outer, R, R + "|strictness-follows-outer", g.loc(st["span"]), "the block's passes only forbid guessing when the enclosing pass does",
                  "resolve_once sets inner_ctx.is_last_iteration from `%s` alone: the block's confirming pass forbids guessing even while the enclosing pass may still guess, so a forward reference to a global label written inside the block (`asm { jmp fwd }`) is `unresolved` on the first outer pass although the inlined instruction assembles" % src)
    else:
        run.violation(R, R + "|strictness-follows-outer", g.loc(), "mechanism not found: inner_ctx.is_last_iteration")
    # the text matched is the substituted text; the names usable in it are the hygienised locals plus the block's labels
    mi = _calls(g, "matcher::match_instr")
    def _substituted(d):
        if "eval_asm::perform_substitutions(" in d:
            return True
        # ... through a helper of the module that performs the substitutions and hands the line back
        for h in run.prog.real_fns():
            if h.kind != "Closure" and h.id.startswith("asm::resolver::eval_asm::") and h.id != g.id and (h.id.rsplit("::", 1)[-1] + "(") in d and _calls(h, "eval_asm::perform_substitutions"):
                return True
        return False
    oks = len(mi) == 1 and _substituted(deep(g, mi[0][1]["args"][3], 8)) if mi else False
    hy = _calls(g, "EvalContext::hygienize_locals_for_asm_subst")
    oks = oks and len(hy) == 1 and deep(g, hy[0][1]["args"][0]) == "P6.eval_ctx"
    if oks and re_:
        oks = "hygienize_locals_for_asm_subst(P6.eval_ctx)" in deep(g, re_[0][1]["args"][8], 4)
    sl = [(bi, t) for bi, t in _calls(g, "EvalContext::set_local") if "HashMap::iter(P8)" in deep(g, t["args"][1], 5)]
    oks = oks and len(sl) == 1 and re_ and g.dominates(hy[0][0], sl[0][0])
    run.check(bool(oks), R, R + "|names-in-block", g.loc(), "the instruction text is matched after substitution and evaluated with the caller's locals (renamed) plus the block's labels",
              "resolve_once no longer evaluates the substituted instruction in the hygienised copy of the caller's context extended by the block's labels")
    # concatenation in order
    cc = _calls(g, "BigInt::concat")
    okc = len(cc) == 1
    if okc:
        cb, ct = cc[0]
        a = [deep(g, x, 5) for x in ct["args"]]
        okc = a[0].startswith("var:") and a[1] == "tuple(%s.size, 0_usize)" % a[0] and "resolve_encoding" in a[2] and a[3].startswith("tuple(") and a[3].endswith(", 0_usize)")
    run.check(okc, R, R + "|concat-order", g.loc(), "the block's value is the concatenation of its instructions' encodings in order, each at full width",
              "resolve_once no longer appends each encoding, whole, after the bits collected so far")
    # an unresolved instruction makes the pass unstable, and fails when guessing is not allowed
    cg = _calls(g, "ResolverContext::can_guess")
    # (a can_guess() handed straight to eval_address belongs to the label-alignment rule, not to this one)
    ea_flags = set()
    for _b, _t in _calls(g, "ResolverContext::eval_address"):
        for a_, ty_ in zip(_t["args"], _t.get("arg_tys") or []):
            if ty_ == "bool" and op_local(a_) is not None:
                ea_flags.add(g.copy_root(op_local(a_)))
    cg_instr = [(cb, ct) for cb, ct in cg if g.copy_root(ct["dest"]["l"]) not in ea_flags]
    oku = len(cg_instr) == 1 and all(ictx is not None and g.copy_root(_base_local(g, ct["args"][0])) == ictx for cb, ct in cg)
    run.check(oku, R, R + "|unresolved-inner", g.loc(), "an instruction of the block that cannot be resolved fails the block once guessing is not allowed", "resolve_once no longer fails on an unresolvable inner instruction in a strict pass")


def _base_local(f, op):
    """the local a (reference to a) place is based on"""
    l = op_local(op)
    seen = 0
    while l is not None and seen < 8:
        seen += 1
        ds = f.full_defs(l)
        if len(ds) == 1 and ds[0][0] == "stmt" and ds[0][3]["k"] == "assign" and ds[0][3]["rv"]["k"] in ("ref",):
            l = ds[0][3]["rv"]["place"]["l"]
            continue
        if len(ds) == 1 and ds[0][0] == "stmt" and ds[0][3]["k"] == "assign" and ds[0][3]["rv"]["k"] == "use" and op_local(ds[0][3]["rv"]["op"]) is not None:
            l = op_local(ds[0][3]["rv"]["op"])
            continue
        break
    return l if l is not None else -1


def binding_calls(prog, f, which=("set_local", "set_token_subst")):
    """calls of EvalContext::set_local / set_token_subst made by f - directly, or through a small helper of the same module that
    binds a value and a text for it (`bind_argument_to_parameter(ctx, param, arg, value)`).  For a wrapped call a synthetic call
    record is produced whose arguments are the caller's operands (a field of a helper parameter becomes that field of the
    caller's operand), located at the caller's call"""
    pat = re.compile(r"EvalContext::(%s)(::<.*)?$" % "|".join(which))
    out = []
    for bi, t in f.calls():
        c = t.get("resolved") or t.get("callee") or ""
        if pat.search(c):
            out.append((bi, t))
            continue
        h = prog.fn(t.get("resolved") or "") if t.get("resolved_local") else None
        if h is None or h.id == f.id or h.kind == "Closure" or h.id.rsplit("::", 1)[0] != f.id.rsplit("::", 1)[0] or len(h.blocks) > 12:
            continue
        inner = [(b2, t2) for b2, t2 in h.calls() if pat.search(t2.get("resolved") or t2.get("callee") or "")]
        for b2, t2 in inner:
            args = []
            for a in t2["args"]:
                args.append(_map_to_caller(h, a, t["args"]))
            if any(a is None for a in args):
                continue
            out.append((bi, {"callee": t2.get("callee"), "resolved": t2.get("resolved"), "args": args, "arg_tys": t2.get("arg_tys"), "span": t["span"],
                             "target": t.get("target"), "dest": t["dest"], "resolved_local": t2.get("resolved_local"), "wrapped_in": h.id}))
    return out


def _map_to_caller(h, op, caller_args, depth=0):
    """the caller's operand that a helper's operand stands for: a parameter, a reborrow of one, or a field of one"""
    pl = op_place(op)
    if pl is None or depth > 6:
        return None
    l, proj = pl["l"], list(pl.get("p") or [])
    if 1 <= l <= h.arg_count:
        ca = caller_args[l - 1] if l - 1 < len(caller_args) else None
        cpl = op_place(ca) if ca is not None else None
        if cpl is None:
            return None if proj else ca
        return {"copy": {"l": cpl["l"], "p": list(cpl.get("p") or []) + proj}}
    ds = h.full_defs(l)
    if len(ds) == 1 and ds[0][0] == "call" and re.search(r"(Clone::clone|ToOwned::to_owned|ToString::to_string)$", ds[0][2].get("callee") or "") and ds[0][2]["args"] and not proj:
        return _map_to_caller(h, ds[0][2]["args"][0], caller_args, depth + 1)      # a copy of the caller's value
    if len(ds) != 1 or ds[0][0] != "stmt" or ds[0][3]["k"] != "assign":
        return None
    rv = ds[0][3]["rv"]
    if rv["k"] == "use":
        inner = _map_to_caller(h, rv["op"], caller_args, depth + 1)
    elif rv["k"] == "ref":
        inner = _map_to_caller(h, {"copy": rv["place"]}, caller_args, depth + 1)
    else:
        return None
    ipl = op_place(inner) if inner is not None else None
    if ipl is None:
        return inner if not proj else None
    return {"copy": {"l": ipl["l"], "p": list(ipl.get("p") or []) + proj}}


def substitution_rules(run):
    prog = run.prog
    f = None
    for name in ("instruction::resolve_instruction_match_inner", "instruction::resolve_instruction_match"):
        fs = prog.find(name)
        if fs and binding_calls(prog, fs[0], ("set_token_subst",)):
            f = fs[0]
    if f is None:
        run.violation(R, R + "|subst|anchor", "-", "mechanism not found: the function binding rule arguments (set_token_subst)")
        return
    sl = binding_calls(prog, f, ("set_local",))
    st_ = binding_calls(prog, f, ("set_token_subst",))
    ok = len(sl) == 2 and len(st_) == 2
    why = "%d value bindings, %d text bindings" % (len(sl), len(st_))
    if ok:
        for (lb, lt) in sl:
            mate = [(tb, tt) for tb, tt in st_ if f.dominates(lb, tb)]
            mate = [m for m in mate if deep(f, m[1]["args"][1], 5) == deep(f, lt["args"][1], 5)]
            if not mate:
                ok = False
                why = "a parameter gets a value without its argument text under the same name"
                continue
            tb, tt = mate[0]
            # unconditional: no way from the value binding to the next argument that avoids the text binding
            if tb == lb and tt.get("wrapped_in") and tt.get("wrapped_in") == lt.get("wrapped_in"):
                # both are made by one call of a straight-line helper
                h_ = prog.fn(tt["wrapped_in"])
                if h_ is not None and not any(h_.blocks[b_]["term"]["k"] == "switch" for b_ in h_.reachable()):
                    if not re.search(r"\.excerpt$", deep(f, tt["args"][2], 5)):
                        ok = False
                        why = "the text recorded for a parameter is `%s`, not the argument's own excerpt" % deep(f, tt["args"][2], 5)[:80]
                    continue
            seen = set()
            work = [lt["target"]]
            while work:
                x = work.pop()
                if x is None or x in seen or x == tb:
                    continue
                seen.add(x)
                for s_ in f.succs(x):
                    if f.blocks[s_]["cleanup"]:
                        continue
                    if f.dominates(s_, lb) and s_ != lb:
                        ok = False
                        why = "the argument text of a parameter is only recorded on some paths (it must be available for `{name}` in asm blocks whatever the parameter's type)"
                    else:
                        work.append(s_)
            if not re.search(r"\.excerpt$", deep(f, tt["args"][2], 5)):
                ok = False
                why = "the text recorded for a parameter is `%s`, not the argument's own excerpt" % deep(f, tt["args"][2], 5)[:80]
    run.check(ok, R, R + "|subst|text-for-every-parameter", f.loc(), "every rule parameter, typed or not, nested or not, is bound both by value and by the text of its argument",
              "%s: %s" % (f.id, why))
    # text handed down may name hygienised locals of the caller's block (`__z`): they must be bound where the text ends up
    fresh = None
    for bi, t in f.calls():
        if short_callee(t) in ("EvalContext::new", "EvalContext::new_deepened"):
            fresh = t["dest"]["l"]
    inherits = False
    for bi, t in f.calls():
        ds = [deep(f, a, 3) for a in t["args"]]
        if len(ds) >= 2 and any(d.startswith("EvalContext::new") for d in ds) and any(d == "P8" or d.startswith("P8.") for d in ds) and not short_callee(t).endswith("eval::eval"):
            inherits = True
    run.check(inherits, R, R + "|subst|nested-by-value", f.loc(), "the context of the matched rule inherits the hygienised locals its argument texts may name",
              "%s creates a fresh context for the matched rule that holds only the parameters, but records argument text that may name a hygienised local of the enclosing asm block (`__z`): when the matched rule's own asm block substitutes that text again, the name is unbound (`unknown symbol __z`)" % f.id)
    # get_token_subst: text first, by-value locals as their hygienised name; hygienize renames with the same function
    g = run.anchor(R, "expr::eval::EvalContext::get_token_subst")
    h = run.anchor(R, "expr::eval::EvalContext::hygienize_locals_for_asm_subst")
    if g is not None and h is not None:
        # the two lookups (get / contains_key), in order: argument texts first, by-value locals second
        gets = [(b, t) for b, t in g.calls() if re.search(r"HashMap::<.*>::(get|contains_key)(::<.*>)?$", t.get("callee") or "") or short_callee(t) in ("HashMap::get", "HashMap::contains_key")]
        names = [deep(g, t["args"][0]) for b, t in gets]
        okg = names[:2] == ["P1.token_substs", "P1.locals"] and len(_calls(g, "EvalContext::hygienize_name_for_asm_subst")) == 1 if len(names) >= 2 else False
        if okg:
            # the second lookup only happens when the first found nothing
            from rules_sym import option_tests
            t0 = gets[0][1]
            miss_edge = None
            if short_callee(t0).endswith("contains_key"):
                bt = T.bool_test(g, t0)
                if bt:
                    miss_edge = (bt[2], bt[1])
            else:
                ot = option_tests(g, lambda d: d.startswith("HashMap::get(P1.token_substs"))
                if ot:
                    miss_edge = (ot[0][0], ot[0][2])
            okg = miss_edge is not None and g.edge_dominates(miss_edge[0], miss_edge[1], gets[1][0])
        run.check(okg, R, R + "|subst|text-before-value", g.loc(), "`{name}` is replaced by the argument's text when there is one, otherwise by the hygienised name of the local",
                  "get_token_subst no longer prefers the argument text over the by-value local")
        hn = _calls(h, "EvalContext::hygienize_name_for_asm_subst")
        inserts = _calls(h, "HashMap::insert")
        okh = len(hn) == 2 and len(inserts) == 2 and sorted(deep(h, t["args"][0]) for b, t in inserts) == sorted(["EvalContext::new_deepened(P1).locals", "EvalContext::new_deepened(P1).token_substs"])
        if okh:
            okh = all("hygienize_name_for_asm_subst(" in deep(h, t["args"][1], 4) for b, t in inserts)
        run.check(okh, R, R + "|subst|hygiene-agrees", h.loc(), "the context handed into a block holds every local and argument text of the caller under the same renaming that get_token_subst hands out, one level deeper",
                  "hygienize_locals_for_asm_subst and get_token_subst no longer rename alike (or the new context is not one level deeper)")


def fn_rules(run):
    f = run.anchor("FN", "asm::resolver::eval_fn::eval_fn")
    if f is None:
        return
    RR = "FN"
    ev = [(bi, t) for bi, t in f.calls() if (t.get("resolved") or "").endswith("asm::resolver::eval::eval")]
    ck = _calls(f, "EvalContext::check_recursion_depth_limit")
    nd = _calls(f, "EvalContext::new_deepened")
    ea = _calls(f, "EvalFunctionQuery::ensure_arg_number")
    ok = len(ck) == 1 and len(nd) == 1 and len(ea) == 1 and len(ev) >= 1
    why = "depth check x%d, fresh context x%d, argument count check x%d, body evaluation x%d" % (len(ck), len(nd), len(ea), len(ev))
    if ok:
        from rules_mpt import success_edge_of_call
        cb, ct = ck[0]
        se = success_edge_of_call(f, cb, ct)
        ok = deep(f, ct["args"][0]) == "P6.eval_ctx" and se is not None and all(f.edge_dominates(se[0], se[1], b) for b, _ in ev)
        why = "the body can be evaluated without having passed the depth check of the caller's context"
        if ok:
            for b, t in ev:
                c = deep(f, t["args"][6], 4)
                bd = deep(f, t["args"][7], 6)
                if c != "EvalContext::new_deepened(P6.eval_ctx)" or not bd.endswith(".body") or "P6.func@Function.0" not in bd:
                    ok = False
                    why = "the body `%s` is evaluated in `%s`, expected a fresh context one level deeper than the caller's" % (bd[:80], c)
        if ok:
            eb, et = ea[0]
            se2 = success_edge_of_call(f, eb, et)
            idx = [(bi, t) for bi, t in _calls(f, "Index::index") if deep(f, t["args"][0]) == "P6.args"]
            zipped = [(bi, t) for bi, t in f.calls() if (t.get("callee") or "").endswith("Iterator::zip") and ".params" in deep(f, t["args"][0], 6) and "P6.args" in deep(f, t["args"][1], 6)]
            idx = idx or zipped         # `params.iter().zip(args.iter())`: pairs by position without indexing
            ok = se2 is not None and bool(idx) and all(f.edge_dominates(se2[0], se2[1], b) for b, _ in idx) and "Vec::len(" in deep(f, et["args"][1], 5) and ".params" in deep(f, et["args"][1], 5)
            why = "arguments are indexed without the argument count having been checked against the parameter list"
        if ok:
            sl = _calls(f, "EvalContext::set_local")
            ok = len(sl) == 1
            if ok:
                a = [deep(f, x, 7) for x in sl[0][1]["args"]]
                m1 = re.search(r"\.params, (.*)\)\.name$", a[1])
                m2 = re.search(r"^Index::index\(P6\.args, (.*)\)\.value$", a[2])
                same_index = bool(m1) and bool(m2) and m1.group(1) == m2.group(1)
                if not same_index and m2:
                    # `for (i, param) in params.iter().enumerate()`: parameter = item .1, argument index = item .0 of the same item
                    e1 = re.search(r"^(Iterator::next\(Iterator::enumerate\(.*\.params\)\)\)@Some\.0)\.1\.name$", a[1])
                    same_index = bool(e1) and m2.group(1) == e1.group(1) + ".0"
                if not same_index:
                    # zipped: parameter = item .0 of the pair, argument = item .1 of the same pair
                    z1 = re.search(r"^(Iterator::next\(Iterator::zip\(.*\.params\), slice::iter\(P6\.args\)\)\)@Some\.0)\.0\.name$", a[1])
                    same_index = bool(z1) and a[2] == z1.group(1) + ".1.value"
                ok = a[0] == "EvalContext::new_deepened(P6.eval_ctx)" and same_index
                why = "parameters are not bound, by position, to the argument values in the fresh context (%s)" % a
    run.check(ok, RR, RR + "|call", f.loc(), "a user function call checks the depth, checks the argument count, binds parameter i to argument i in a fresh deeper context and evaluates the body there",
              "eval_fn: %s" % why)


def args_rules(run, R="ARGS"):
    """function arguments are only indexed after their number has been checked: every `query.args[i]` in a function taking an
    EvalFunctionQuery is behind the success edge of ensure_arg_number(n > i) / ensure_min_max_arg_number(min > i, ..), or
    behind `args.len() >= k` with k > i; when a helper indexes without its own check, every caller must have checked"""
    from rules_mpt import success_edge_of_call
    prog = run.prog

    def checked_upto(f, block, q):
        """largest n such that indices < n are known to exist at `block` (None: nothing known)"""
        best = None
        for bi, t in f.calls():
            c = short_callee(t)
            if c.endswith("EvalFunctionQuery::ensure_arg_number") or c.endswith("EvalFunctionQuery::ensure_min_max_arg_number"):
                if deep(f, t["args"][0]) != q:
                    continue
                se = success_edge_of_call(f, bi, t)
                if se is None or not f.edge_dominates(se[0], se[1], block):
                    continue
                n = const_int(t["args"][1])
                n = 1 << 30 if n is None else n        # a non-constant bound: established for the caller's own range
                best = n if best is None else max(best, n)
        for bi, si, st in f.stmts():
            if st["k"] == "assign" and st["rv"]["k"] == "binop" and st["rv"]["op"] in ("Ge", "Gt", "Eq"):
                if deep(f, st["rv"]["l"], 4) == "Vec::len(%s.args)" % q and const_int(st["rv"]["r"]) is not None:
                    tt = f.blocks[bi]["term"]
                    if tt["k"] == "switch" and op_local(tt["discr"]) == st["place"]["l"] and f.edge_dominates(bi, tt["otherwise"], block):
                        n = const_int(st["rv"]["r"]) + (1 if st["rv"]["op"] == "Gt" else 0)
                        best = n if best is None else max(best, n)
        return best

    n_sites = 0
    for f in prog.real_fns():
        qs = [i for i in range(1, f.arg_count + 1) if "EvalFunctionQuery" in (f.local_ty(i) or "")]
        if not qs or f.kind == "Closure":
            continue
        for bi, t in f.calls():
            if short_callee(t) != "Index::index" or len(t["args"]) != 2:
                continue
            base = deep(f, t["args"][0], 4)
            m = re.fullmatch(r"(P\d+)\.args", base)
            if not m or int(m.group(1)[1:]) not in qs:
                continue
            n_sites += 1
            q = m.group(1)
            idx = const_int(t["args"][1])
            have = checked_upto(f, bi, q)
            root = f.raw.get("root") or f.id
            key = "%s|%s|args[%s]" % (R, root, idx if idx is not None else "i")
            audited = {e["key"]: e["reason"] for e in run.table("err").get("args_audited", [])}
            needs_nonempty = {e["key"] for e in run.table("err").get("args_audited", []) if e.get("requires_nonempty_contents")}
            if key in audited and not (have is not None and (idx is None or idx < have)):
                if key in needs_nonempty:
                    # the audit's argument rests on `an empty file was answered earlier`: the read is behind the `not empty` edge of a
                    # test of the contents' length (a test of a requested length does not count)
                    behind = False
                    for b2, s2, st2 in f.stmts():
                        if st2["k"] == "assign" and st2["rv"]["k"] == "binop" and st2["rv"]["op"] in ("Eq", "Ne") and "0_usize" in (deep(f, st2["rv"]["l"], 3), deep(f, st2["rv"]["r"], 3)) \
                                and not any("expect_usize(" in deep(f, o_, 8) for o_ in (st2["rv"]["l"], st2["rv"]["r"])):
                            tt2 = f.blocks[b2]["term"]
                            if tt2["k"] == "switch":
                                ft2 = [tg for v, tg in tt2["targets"] if v == "0"]
                                edge = (ft2[0] if ft2 else None) if st2["rv"]["op"] == "Eq" else tt2["otherwise"]
                                if edge is not None and f.edge_dominates(b2, edge, bi):
                                    behind = True
                    if not behind:
                        run.violation(R, key, f.loc(t["span"]), "%s reads `args[%s]` in an error path that was audited as unreachable without that argument because an empty file is answered earlier; the read is no longer behind a `contents are not empty` test, so `%s(\"empty file\")` with one argument reaches it and panics (index out of bounds)" % (root, idx, root.rsplit("_", 1)[-1]))
                        continue
                run.exception(R, key, f.loc(t["span"]), "argument %s is read without a dominating count check -- cannot be reached without it: %s" % (idx, audited[key]))
                continue
            ok = have is not None and (idx is None or idx < have)
            if not ok and have is None:
                # a helper: every caller must have checked before the call
                callers = []
                for g in prog.real_fns():
                    for b2, t2 in g.calls():
                        if (t2.get("resolved") or "") == f.id:
                            callers.append((g, b2, t2))
                if callers:
                    okc = True
                    for g, b2, t2 in callers:
                        qa = deep(g, t2["args"][int(q[1:]) - 1], 3) if int(q[1:]) - 1 < len(t2["args"]) else "?"
                        hv = checked_upto(g, b2, qa) if re.fullmatch(r"P\d+", qa) else None
                        if hv is None or (idx is not None and idx >= hv):
                            okc = False
                    ok = okc
            run.check(ok, R, key, f.loc(t["span"]), "%s reads argument %s after the argument count was checked" % (root, idx if idx is not None else "i"),
                      "%s indexes `args[%s]` without a dominating check of the number of arguments (ensure_arg_number / args.len() test): a call with too few arguments panics instead of reporting `function expected N arguments`" % (root, idx if idx is not None else "i"))
    run.floor(R, "argument index sites", n_sites, 20)


def nested_arg_text(run, R="ASM"):
    """matcher: the argument recorded for a sub-rule parameter carries the source text and span read by the walker of the very
    candidate it records (asm blocks substitute that text): kind = Nested(cand.0), span = get_span(cand.1, ..), excerpt =
    get_excerpt(cand.1, ..) with one and the same `cand`"""
    f = run.anchor(R, "asm::matcher::match_with_nested_ruledef")
    if f is None:
        return
    n, bad = 0, []
    for bi, si, st in f.stmts():
        if st["k"] != "assign" or st["rv"]["k"] != "agg" or not str(st["rv"].get("adt", "")).endswith("matcher::InstructionArgument"):
            continue
        flds = st["rv"].get("fields") or []
        if not {"kind", "span", "excerpt"} <= set(flds):
            continue
        vals = {k: deep(f, st["rv"]["ops"][flds.index(k)], 9) for k in ("kind", "span", "excerpt")}
        m = re.fullmatch(r"Nested\{(.*)\.0\}", vals["kind"])
        if not m:
            continue
        n += 1
        cand = m.group(1)
        if not vals["span"].startswith("Walker::get_span(%s.1, " % cand):
            bad.append("the span is `%s`" % vals["span"][:100])
        if ("Walker::get_excerpt(%s.1, " % cand) not in vals["excerpt"]:
            bad.append("the text is `%s`" % vals["excerpt"][:100])
    if n == 0:
        # the record is built by a helper that is handed the candidate's walker and the argument kind
        for bi, t in f.calls():
            h = run.prog.fn(t.get("resolved") or "")
            if h is None or not t.get("resolved_local"):
                continue
            ds = [deep(f, a, 9) for a in t["args"]]
            kinds = [(i, re.fullmatch(r"Nested\{(.*)\.0\}", d)) for i, d in enumerate(ds)]
            kinds = [(i, m.group(1)) for i, m in kinds if m]
            if not kinds:
                continue
            ki, cand = kinds[0]
            wi = [i for i, d in enumerate(ds) if d == cand + ".1"]
            if not wi:
                bad.append("the helper %s is not handed the candidate's own walker" % h.id)
                n += 1
                continue
            W, K = "P%d" % (wi[0] + 1), "P%d" % (ki + 1)
            for b2, s2, st2 in h.stmts():
                if st2["k"] == "assign" and st2["rv"]["k"] == "agg" and str(st2["rv"].get("adt", "")).endswith("matcher::InstructionArgument"):
                    flds = st2["rv"].get("fields") or []
                    if {"kind", "span", "excerpt"} <= set(flds):
                        n += 1
                        v = {k_: deep(h, st2["rv"]["ops"][flds.index(k_)], 9) for k_ in ("kind", "span", "excerpt")}
                        if v["kind"] != K or not v["span"].startswith("Walker::get_span(%s, " % W) or ("Walker::get_excerpt(%s, " % W) not in v["excerpt"]:
                            bad.append("the helper %s builds `%s` / `%s` / `%s`" % (h.id, v["kind"][:30], v["span"][:50], v["excerpt"][:50]))
    run.check(n >= 1 and not bad, R, R + "|nested-arg|own-text", f.loc(),
              "a sub-rule argument is recorded with the span and text its own candidate's walker consumed (%d site(s))" % n,
              "match_with_nested_ruledef records a sub-rule candidate with text that is not what that candidate consumed (%s): an asm block substituting the argument would re-assemble another alternative's text" % ("; ".join(bad) or "no nested argument found"))


def argument_context_rules(run, R="ASM"):
    """resolve_instruction_match_inner: the arguments written in the instruction (expressions and nested sub-rule matches) are
    evaluated in the context of the place where the instruction stands (the EvalContext parameter), never in the context being
    built for the rule; the rule body is evaluated in one context made by new_deepened(<that parameter>), into which every
    parameter is bound"""
    f = run.anchor(R, "asm::resolver::instruction::resolve_instruction_match_inner")
    if f is None:
        return
    ctxp = [i for i in range(1, f.arg_count + 1) if re.search(r"&mut expr::eval::EvalContext", f.local_ty(i) or "")]
    ok = len(ctxp) == 1
    why = "%d EvalContext parameters" % len(ctxp)
    if ok:
        P = "P%d" % ctxp[0]
        NEW = "EvalContext::new_deepened(%s)" % P
        def ctx_arg(t):
            for a, ty in zip(t["args"], t.get("arg_tys") or []):
                if "EvalContext" in ty:
                    return deep(f, a, 5)
            return None
        evals = [(bi, t) for bi, t in f.calls() if (t.get("resolved") or t.get("callee") or "").endswith("asm::resolver::eval::eval")]
        nested = [(bi, t) for bi, t in f.calls() if (t.get("resolved") or t.get("callee") or "").endswith("instruction::resolve_instruction_match")]
        news = [(bi, t) for bi, t in f.calls() if (t.get("resolved") or t.get("callee") or "").endswith("EvalContext::new_deepened") or (t.get("resolved") or t.get("callee") or "").endswith("EvalContext::new")]
        body = [(bi, t) for bi, t in evals if ".expr" in deep(f, t["args"][-1], 5) and "Expr{" not in deep(f, t["args"][-1], 5) and ctx_arg(t) == NEW]
        argev = [(bi, t) for bi, t in evals if (bi, t) not in body]
        bad = []
        if len(news) != 1 or deep(f, {"copy": news[0][1]["dest"]}, 4) != NEW:
            bad.append("the rule's context is not made once by new_deepened(the caller's context) (%d constructions)" % len(news))
        if len(body) != 1:
            bad.append("%d evaluation(s) of the rule body in the rule's context" % len(body))
        for bi, t in argev + nested:
            if ctx_arg(t) != P:
                bad.append("%s: an argument is evaluated in `%s`, not in the caller's context" % (f.loc(t["span"]), ctx_arg(t)))
        if not argev or not nested:
            bad.append("argument evaluations not found (expr=%d nested=%d)" % (len(argev), len(nested)))
        sets = binding_calls(run.prog, f)
        if len(sets) < 4 or any(deep(f, t["args"][0], 4) != NEW for _, t in sets):
            bad.append("parameters are not all bound (value and text) into the rule's context")
        ok = not bad
        why = "; ".join(bad)
    run.check(ok, R, R + "|argument-context", f.loc(), "instruction arguments are evaluated where the instruction stands; the rule body in one deeper context holding exactly its parameters",
              "resolve_instruction_match_inner: %s: names of the enclosing rule's parameters would capture the user's symbols (or the block's locals would be invisible) inside arguments" % why)


def new_deepened_rule(run, R="ASM"):
    """EvalContext::new_deepened hands nothing of the caller's context to the callee but the nesting depth: the new context is
    EvalContext::new() with recursion_depth = from.recursion_depth + 1 (locals and textual substitutions are bound explicitly by
    whoever makes the call)"""
    fs = [g for g in run.prog.real_fns() if re.search(r"EvalContext::new_deepened$", g.id)]
    if len(fs) != 1:
        run.violation(R, R + "|new-deepened|anchor", "-", "mechanism not found: EvalContext::new_deepened")
        return
    f = fs[0]
    base = [t for bi, t in f.calls() if re.search(r"EvalContext::new$", t.get("resolved") or t.get("callee") or "")]
    others = sorted(set((t.get("callee") or "?").rsplit("::", 1)[-1] for bi, t in f.calls() if t not in base))
    stores = []
    for bi, si, st in f.stmts():
        if st["k"] == "assign" and st["place"]["p"]:
            names = [p_.get("name") for p_ in st["place"]["p"] if isinstance(p_, dict)]
            stores.append((names, deep(f, st["rv"].get("op"), 4) if st["rv"]["k"] == "use" else st["rv"]["k"]))
    ok = len(base) == 1 and not others and stores == [(["recursion_depth"], "(P1.recursion_depth Add 1_usize)")] and deep(f, {"copy": {"l": 0, "p": []}}, 3) == "EvalContext::new()"
    run.check(ok, R, R + "|new-deepened|only-depth", f.loc(), "new_deepened = EvalContext::new() with the depth one more than the caller's, nothing else carried over",
              "EvalContext::new_deepened carries more than the depth into the new context (field stores %s, calls %s): a parameter text or local of an outer rule would be visible (and preferred) inside an inner rule body or function body" % (stores, others))


def block_label_align(run, R="ASM"):
    """sibling agreement of the two places that give labels their addresses: the top-level iterator pads up to the bank's
    `labelalign` before a label, so the block evaluator has to do the same for the labels of an asm block (or the block's bits differ
    from its instructions written in place)"""
    top = [f for f in run.prog.real_fns() if re.search(r"resolver::iter::ResolveIterator(::<.*>)?::next$", f.id)]
    blk = run.anchor(R, "asm::resolver::eval_asm::resolve_once")
    if len(top) != 1 or blk is None:
        run.violation(R, R + "|labels|labelalign", "-", "mechanism not found: ResolveIterator::next / eval_asm::resolve_once")
        return
    def reads_align(f):
        fam = [f] + [g for g in run.prog.real_fns() if g.raw.get("root") == f.id and g is not f]
        for g in fam:
            for bi, si, st in g.stmts():
                if st["k"] == "assign":
                    from mir import rv_places
                    for pl in rv_places(st["rv"]):
                        if any(isinstance(pr, dict) and pr.get("name") == "label_align" for pr in pl["p"]):
                            return True
        return False
    t_ok, b_ok = reads_align(top[0]), reads_align(blk)
    run.check(t_ok and b_ok, R, R + "|labels|labelalign", blk.loc(), "both label resolvers pad to the bank's labelalign",
              "the top-level iterator %s the bank's `labelalign`, the asm block evaluator %s: a label inside an asm block is not padded to the alignment, so the block's bits differ from the same instructions written in place" % (
                  "reads" if t_ok else "does not read", "reads it" if b_ok else "does not"))


def inner_failure_rule(run, R="ASM"):
    """a rule whose production is an asm block is one candidate among the rules that match: when the block's own instruction cannot
    be encoded (an argument out of range for the inner rule, no inner rule matches), the candidate fails like a rule with a failed
    constraint does - the evaluation answers a `FailedConstraint` value, which drops the candidate - and does not end the whole
    instruction with `Err`"""
    fam = [g for g in run.prog.real_fns() if (g.raw.get("root") or g.id).startswith("asm::resolver::eval_asm::")]
    if not fam:
        run.violation(R, R + "|inner-failure|anchor", "-", "mechanism not found: asm::resolver::eval_asm")
        return
    makes = False
    for g in fam:
        for bi, si, st in g.stmts():
            if st["k"] == "assign" and st["rv"]["k"] == "agg" and st["rv"].get("variant") == "FailedConstraint" and "Value" in (st["rv"].get("adt") or ""):
                makes = True
    anchor = [g for g in fam if g.id.endswith("eval_asm::resolve_once")]
    run.check(makes, R, R + "|inner-failure|fails-candidate", anchor[0].loc() if anchor else fam[0].loc(),
              "an asm block whose instruction cannot be encoded answers a failed constraint (the candidate is dropped)",
              "eval_asm never answers `Value::FailedConstraint`: when the instruction inside an asm block cannot be encoded, the block's rule ends the whole instruction with an error instead of being dropped as a candidate")


def substituted_line_trimmed(run, R="ASM"):
    """a line of an asm block is matched like a line of the source: the text that results from putting the arguments in has its
    trailing blanks removed before it is handed to the matcher (an empty argument at the end of `abs {reg} {p}` leaves `abs a `,
    and the matcher requires that a rule consumes the whole text)"""
    from rules_sym import deep
    f = run.anchor(R, "asm::resolver::eval_asm::resolve_once")
    if f is None:
        return
    sites = [(bi, t) for bi, t in f.calls() if (t.get("resolved") or "") == "asm::matcher::match_instr"]
    def trimmed(t):
        d = deep(f, t["args"][-1], 8)
        if re.search(r"str::trim_end(_matches)?\(|str::trim\(", d):
            return True
        # the line is prepared by a helper of the module that trims what it hands back
        for h in run.prog.real_fns():
            if h.kind != "Closure" and h.id.startswith("asm::resolver::eval_asm::") and h.id != f.id and (h.id.rsplit("::", 1)[-1] + "(") in d:
                if any(re.search(r"<impl str>::(trim_end|trim_end_matches|trim)(::<.*)?$", t2.get("callee") or "") for _, t2 in h.calls()):
                    return True
        return False
    ok = bool(sites) and all(trimmed(t) for bi, t in sites)
    run.check(ok, R, R + "|subst|line-trimmed", f.loc(), "the substituted line is handed to the matcher without trailing blanks",
              "eval_asm::resolve_once hands the substituted line to the matcher as it is: with an empty argument at its end (`wrap a` for `wrap {reg} {p} => asm { abs {reg} {p} }`) the line ends in a blank and finds no match, although `abs a` written in place assembles")


def fn_params_rule(run, R="FN"):
    """the parameters of a `#fn` are distinct names separated by commas: in directive_fn::parse the push of a parameter is behind a
    test that compares the new name with the names already collected (a repeat is reported and fails - the same message the
    rule-parameter parser gives), and the answer of `maybe_expect(Comma)` decides whether another parameter may follow"""
    from mir import closure_of_origin
    f = run.anchor(R, "asm::parser::directive_fn::parse")
    if f is None:
        return
    pushes = [(bi, t) for bi, t in f.calls() if re.search(r"Vec::<.*AstFnParameter.*>::push$|Vec::<T.*>::push$", t.get("callee") or "") and "AstFnParameter" in " ".join(t.get("arg_tys") or [])]
    dup_ok = False
    for bi, t in f.calls():
        c = t.get("callee") or ""
        if not re.search(r"Iterator>?::any(::<.*)?$|::contains(::<.*)?$|Iterator>?::find(::<.*)?$|Iterator>?::position(::<.*)?$", c):
            continue
        bt = T.bool_test(f, t)
        if bt is None:
            continue
        reg = T.reach_following_consts(f, bt[0])
        if report_error_in_region(f, reg) and err_return_in_region(f, reg) and pushes and all(f.edge_dominates(bt[2], bt[1], pb) for pb, _ in pushes):
            dup_ok = True
    run.check(bool(pushes) and dup_ok, R, R + "|params|distinct", f.loc(), "a parameter name that was already collected is reported and rejected before it is pushed",
              "directive_fn::parse collects a parameter without comparing its name with the ones it already has: `#fn f(x, x) => x` is accepted and the later argument silently wins")
    commas = [(bi, t) for bi, t in f.calls() if (t.get("resolved") or t.get("callee") or "").endswith("::maybe_expect") and any("Comma" in deep(f, a, 3) or "Comma" in str(a.get("const", "")) for a in t["args"])]
    tested = False
    from rules_sym import option_tests
    for bi, t in commas:
        sw = _switch_on_call_result(f, bi, t)
        if sw:
            tested = True
    if not tested and commas:
        tested = bool(option_tests(f, lambda d: "maybe_expect(" in d and "Comma" in d))
    run.check(bool(commas) and tested, R, R + "|params|comma-separated", f.loc(), "whether another parameter may follow is decided by the comma that was (not) consumed",
              "directive_fn::parse throws away the answer of `maybe_expect(Comma)`: `#fn g(a b) => a - b` is read as two parameters")


def asm_argument_file_rule(run, R="INC"):
    """a path written in an argument is resolved relative to the file the argument was written in, also when the argument travels
    into an asm block as text: the text substitution recorded for a parameter carries the file (or span) of the argument, so that
    the re-parsed line can evaluate it under that file.  `EvalContext::set_token_subst` records more than a name and a text"""
    fs = [f for f in run.prog.real_fns() if f.kind != "Closure" and re.search(r"EvalContext::set_token_subst(::<.*>)?$", f.id)]
    if not fs:
        run.violation(R, R + "|asm-argument|anchor", "-", "mechanism not found: EvalContext::set_token_subst")
        return
    f = fs[0]
    tys = [f.local_ty(i) or "" for i in range(1, f.arg_count + 1)]
    carries = any(re.search(r"Span|FileServerHandle|usize", t_) for t_ in tys[1:])
    run.check(carries, R, R + "|asm-argument|caller-file", f.loc(), "a text substitution carries the file of the argument's text",
              "a text substitution records only the parameter's name and the argument's text (%s): `emit incbin(\"x.bin\")` for `emit {f} => asm { ld {f} }` defined in an included file reads `x.bin` next to the rule's file, not next to the file the line was written in" % ", ".join(tys))
