#!/usr/bin/env python3
"""casmlint: per-property static checks over the MIR facts of /repo.

usage: check.py Cxx [--tier quick|thorough] [--repo /repo] [--replay file]
exit 0: every obligation discharged (or listed known finding); exit 1 + VIOLATION line otherwise;
exit 2: the checker itself could not run (extraction failed / internal error)."""
import argparse, json, os, sys, traceback

sys.path.insert(0, os.path.dirname(os.path.abspath(__file__)))
import facts, mir, engine

ROOTS = ["asm::assemble", "driver::drive", "driver::drive_from_commandline", "main", "assemble_str_to_binary"]


_fix_prog = None


def fixture_prog():
    global _fix_prog
    if _fix_prog is None:
        d = facts.extract(os.path.join(engine.VERIF, "fixtures", "pos"), crates="casmfix", need=("lib",))
        _fix_prog = mir.load_program(d)
    return _fix_prog


def controls(run, name, rulefn, must_fire, must_be_silent=()):
    """positive/negative controls: run a rule on the fixture crate; it must fire in every function
    of must_fire and in none of must_be_silent.  A failing control means the checker is broken."""
    sub = engine.Run(run.prop, run.tier, fixture_prog())
    rulefn(sub)
    fired = set()
    for o in sub.obs:
        if o.status == "violation":
            for fn in list(must_fire) + list(must_be_silent):
                if fn in o.key:
                    fired.add(fn)
    for fn in must_fire:
        if fn not in fired:
            run.broken.append("control %s: rule did not fire on fixture `%s`" % (name, fn))
    for fn in must_be_silent:
        if fn in fired:
            run.broken.append("control %s: rule fired on correct fixture `%s`" % (name, fn))
    run.count("controls_" + name, len(must_fire) + len(must_be_silent))


def prop_C10(run):
    import rules_det
    roots = [r for r in ROOTS if run.prog.fn(r)]
    run.check(len(roots) == len(ROOTS), "ROOTS", "ROOTS|entry-points", "-", "entry points found: %s" % roots,
              "entry points missing: %s" % sorted(set(ROOTS) - set(roots)))
    n1 = rules_det.det1(run)
    run.floor("DET1", "hash-iteration sites", n1, 3)   # 4 on the pinned tree; two sibling loops may be folded into one generic helper
    rules_det.det2(run, roots)
    rules_det.det3(run)
    n4 = rules_det.det4(run)
    run.floor("DET4", "statics", n4, 6)
    controls(run, "DET1", lambda r: rules_det.det1(r), ["det1_push", "det1_first", "det1_unsorted_vec"], ["det1_sorted", "det1_copy"])
    controls(run, "DET2", lambda r: rules_det.det2(r, ["det2_debug"]), ["det2_debug"])
    controls(run, "DET3", lambda r: rules_det.det3(r, r.prog.real_fns()), ["det3_clock", "det3_addr", "det3_atomic"], ["det1_sorted"])
    controls(run, "DET4", lambda r: rules_det.det4(r), ["COUNTER_MUT", "COUNTER_ATOMIC"], ["PLAIN"])
    run.rules_run += ["DET1 hash-order iteration must be sorted or commutative", "DET2 no Debug print of hash containers",
                      "DET3 no clock/thread/env/address/atomic/cell use", "DET4 statics immutable and Freeze"]


def prop_C18(run):
    import rules_tab, rules_det
    rules_tab.tab_cli(run)
    rules_tab.tab_cli_escapes_gated(run)        # no escape sequence is written without asking use_colors
    # global options are honoured where they take effect: -d (COND define rules), -o (the file server really writes)
    import rules_cond, rules_mpt
    rules_cond.define_rules(run)
    rules_mpt.write_rules(run)
    import rules_unit
    rules_unit.unit(run, scope_files=list(rules_unit.LAYOUT_FILES), layout=True)      # `addr_unit:` really is the unit of the record addresses
    # hash order of the format-parameter map must not reach a diagnostic
    pof = run.prog.find("driver::parse_output_format")
    rules_det.det1(run, fns=pof + [g for g in run.prog.real_fns() if g.raw.get("parent") == "driver::parse_output_format"], rule="DET1")
    run.rules_run += ["TAB-cli usage_help.md <-> make_opts <-> parse_command <-> parse_output_format <-> derive_output_filename", "DET1 on the format parameter map"]


def validators_agree(run):
    """the validators the dispatch relies on must be the ones the driver really applies"""
    import rules_tab
    pof = run.anchor("TAB-fmt", "driver::parse_output_format")
    if pof:
        table = rules_tab.format_table(run, pof)
        cli = run.table("cli")["validators"]
        for name, (variant, fields, line) in sorted(table.items()):
            for fname, fv in fields.items():
                if fv[0] == "param":
                    want = cli.get("%s.%s" % (name, fv[1]))
                    run.check(want == list(fv[3]), "TAB-fmt", "TAB-fmt|validator|%s.%s" % (name, fv[1]), "%s:%d" % (pof.file, line),
                              "`%s,%s:` validated by %s" % (name, fv[1], list(fv[3])),
                              "`%s,%s:` validator is %s, the formatters were audited against %s" % (name, fv[1], list(fv[3]), want))


def prop_C11(run):
    import rules_tab, rules_unit, rules_det
    rules_tab.tab_fmt(run)
    rules_tab.fmt_profile(run)
    rules_tab.bit_source(run)
    import rules_mpt
    rules_mpt.get_blocks_rules(run)
    rules_mpt.blocks_in_output_order(run)
    rules_mpt.write_rules(run)
    rules_tab.tab_cli_groups(run)               # what is formatted is what gets written, for every group that names a file
    # bit positions, output byte counts and addresses in address units never meet in one value
    nc, ns = rules_unit.unit(run, scope_files=list(rules_unit.LAYOUT_FILES), layout=True)
    run.floor("UNIT5", "layout-unit seeds in the formatters", run.counters.get("unit_layout_seeds", 0), 20)
    rules_det.lossy_apis(run)
    rules_det.ceil_divisions(run)
    rules_det.intelhex_address_width(run)
    rules_det.intelhex_unit_aligned(run)
    validators_agree(run)
    # unchecked arithmetic in the binary-data formatters (an empty output underflows `byte_num - 1`, F6)
    lim2_obligations(run, only=lambda key, f: "bitvec_format" in key and not __import__("re").search(r"format_(annotated|tcgame|addrspan)", key))
    run.rules_run += ["TAB-fmt OutputFormat variant -> formatter(constants), wrappers, panic-guarded parameter domains, divisors nonzero"]


def reach_roots(run):
    roots = [r for r in ROOTS if run.prog.fn(r)]
    run.check(len(roots) == len(ROOTS), "ROOTS", "ROOTS|entry-points", "-", "entry points found: %s" % roots,
              "entry points missing: %s" % sorted(set(ROOTS) - set(roots)))
    return run.prog.reachable_from(roots)


def prop_C03(run):
    import rules_err
    reach = reach_roots(run)
    n1 = rules_err.err1(run, reach)
    run.floor("ERR1", "reachable functions returning Result<_, ()>", n1, 200)
    rules_err.err3(run)
    rules_err.err2_top(run)
    rules_err.err4(run)
    n5 = rules_err.err5(run, reach)
    run.floor("ERR5", "fallible call sites", n5, 300)
    rules_err.idx0(run, reach)
    rules_err.maybe_no_unwrap(run)
    rules_err.no_panicking_env(run)
    rules_err.optional_setting_unwrap(run)       # OPT1: optional bank settings are only insisted on behind a dominating test
    import rules_asm, rules_mpt
    rules_asm.args_rules(run)
    rules_mpt.write_rules(run)
    rules_mpt.no_failure_after_write(run)
    import rules_tab, rules_unit
    rules_tab.tab_fmt(run)                      # panic-guarded parameter domains of the formatters (divisors nonzero) ...
    validators_agree(run)                       # ... against the validators the driver really applies
    rules_unit.line_column_counts(run)          # locating a diagnostic walks characters (no slicing at an arbitrary byte index)
    rules_unit.const_str_slices(run)            # no text is sliced at a constant byte offset unless audited
    pc_ = run.anchor("TAB-cli", "driver::parse_command")
    if pc_:
        rules_tab.tab_cli_derive_when(run, pc_)  # every group that is written gets its file name, after all inputs are known
        rules_tab.tab_cli_distinct_outputs(run, pc_)
        rules_tab.tab_cli_derive_not_any_input(run, pc_)   # a derived name never overwrites an input
    rules_tab.tab_cli_groups(run)               # ... and reaches the write
    # unchecked arithmetic in the formatters (a panic on an empty or odd-sized output)
    lim2_obligations(run, only=lambda key, f: "bitvec_format" in key)
    import rules_lim as _rl
    _rl.lim_fmt_width(run)
    np_ = rules_err.pair(run, reach)
    run.floor("PAIR", "functions pushing parents", np_, 12)
    run.rules_run += ["ERR1 Err => message pushed (interprocedural path-state search)", "ERR3 Unresolved/None in a last pass => message pushed",
                      "ERR2-top output stored only behind a stop_at_errors barrier, nothing fails after", "ERR4 driver writes only behind the output test; exit status follows the verdict", "ERR5 no Result<_,()> dropped", "IDX0 callers of functions that index a parameter with a constant establish non-emptiness", "ARGS function arguments indexed only after the count check",
                      "WRITE every Ok of the file server's write passed the successful file system write", "PAIR push_parent/pop_parent balance"]


def prop_C02(run):
    import rules_fix, rules_err
    rules_fix.fix1(run)
    rules_fix.fix2(run)
    rules_fix.fix3(run)
    rules_fix.fix5(run)
    rules_err.err3(run)
    import rules_idx
    rules_idx.static_known(run)
    rules_idx.sk_provider(run)
    rules_idx.sk_match_locals(run)
    rules_idx.sk_instruction_flag(run)
    rules_idx.sk_flag_fresh(run)                # static flags are computed for this match at this place, never remembered
    import rules_mpt as _rm
    _rm.smallest_by_resolved_size(run)          # `smallest` is decided on the encodings just resolved
    run.rules_run += ["FIX5 every candidate re-evaluated in every pass", "SK static-known analysis conservative (a frozen item must really be constant)", "FIX1 confirming no-guess pass dominates every delivered result", "FIX2 each stateful resolver compares with the previous pass and returns Unresolved on change",
                      "FIX3 resolved=true only under the static-known conjunction", "ERR3 unstable value in a last pass is an error"]


def prop_C09(run):
    import rules_fix, rules_tab
    rules_fix.fix1(run)
    rules_fix.fix2(run)
    import rules_idx
    rules_idx.sk_instruction_flag(run)
    rules_idx.static_known(run)
    rules_fix.fix3(run)
    rules_fix.fix4(run)
    pc = run.anchor("FIX4", "driver::parse_command")
    if pc:
        rules_tab.tab_cli_iters(run, pc, rules_tab.parse_usage(run.repo))
    import rules_cond
    rules_cond.prepass_loop_rules(run)          # the budget bounds the resolver passes only: the constant/#if pre-pass runs to its fixed point
    run.rules_run += ["FIX1", "FIX2 stability comparisons over the whole kept value", "FIX4 counter bounded by the budget, flags derived from the counter, max_iterations read nowhere else, asserts only in a last pass, --iters 0 rejected"]


def prop_C08(run):
    import rules_idx, rules_fix
    rules_idx.gates(run)
    rules_fix.fix3(run)
    rules_fix.first_pass_verdict(run)
    rules_idx.tab_idx(run)
    rules_idx.candidates_all_matched(run)
    rules_idx.static_known(run)
    rules_idx.sk_provider(run)
    rules_idx.sk_match_locals(run)
    rules_idx.sk_instruction_flag(run)
    rules_idx.sk_flag_fresh(run)
    rules_idx.line_scan_rules(run)
    rules_idx.index_insert_unconditional(run)   # every rule is listed in the prefix index
    rules_idx.matcher_candidate_order(run)      # both matchers hand over candidates in declaration order (F75)
    run.rules_run += ["GATE who-touches audit of the two optimisation switches", "FIX3", "TAB-idx writer/reader/matcher agreement of the rule-prefix index", "SK conservativeness of is_value_statically_known per Expr variant"]


def prop_C07(run):
    import rules_idx
    rules_idx.tab_idx(run)
    rules_idx.match_shape(run)
    rules_idx.match_identity(run)
    rules_idx.lookahead_both(run)
    rules_idx.candidates_all_matched(run)
    rules_idx.exact_count_definition(run)
    rules_idx.exact_count_recursive(run)
    rules_idx.brace_scan_by_tokens(run)
    rules_idx.lookahead_skips_comments(run)
    rules_idx.precedence_per_operand(run)
    rules_idx.index_insert_unconditional(run)
    rules_idx.line_scan_rules(run)
    run.rules_run += ["TAB-idx (case normalisation, token classes, whitespace skipping)", "MATCH shape of match_with_rule / match_instr selection"]


def prop_C13(run):
    import rules_unit, rules_err
    nc, ns = rules_unit.unit(run)
    run.floor("UNIT", "seeded value classes", nc, 10)
    rules_unit.unit2(run)
    rules_unit.unit3(run)
    rules_unit.span_shape(run)
    rules_unit.field_span_rule(run)
    rules_unit.field_errors_rule(run)
    rules_unit.operand_same_line(run)
    rules_unit.match_text_rule(run)
    rules_unit.expected_at_cursor(run)
    rules_unit.src_bind(run)
    rules_unit.expr_node_spans(run)
    rules_unit.parenthesized_span(run)
    rules_unit.line_column_counts(run)
    rules_unit.walker_text(run)
    rules_unit.unresolved_constant_location(run)   # (F83, listed)
    import rules_sym
    rules_sym.declare_rules(run)
    reach = reach_roots(run)
    rules_err.pair(run, reach)
    run.rules_run += ["UNIT byte offsets and character indices never meet in one value (union-find over usize values, interprocedural)",
                      "UNIT2 token lengths come from the character walker, never a literal", "UNIT3 who may construct spans from offsets", "PAIR diagnostic parent stack balanced"]


def lim2_obligations(run, only=None, rule="LIM2"):
    import rules_lim
    res = rules_lim.lim2(run)
    seen = set()
    n = 0
    for key, f, span, text, dis in res:
        if only is not None and not only(key, f):
            continue
        if key in seen:
            continue
        seen.add(key)
        n += 1
        loc = "%s:%d" % (span["file"], span["line"])
        if dis:
            run.exception(rule, key, loc, "%s -- cannot overflow: %s" % (text.split(" without")[0][:160], dis))
        else:
            run.violation(rule, key, loc, text + ": in a debug build this panics, in a release build it wraps around silently")
    return n


def prop_C19(run):
    import rules_lim
    rules_lim.lim1(run)
    rules_lim.lim1b(run)
    n = lim2_obligations(run)
    run.floor("LIM2", "arithmetic sites on user-sized values", n, 40)
    seen = set()
    for key, f, span, status, text in rules_lim.lim3(run):
        if key in seen:
            continue
        seen.add(key)
        loc = "%s:%d" % (span["file"], span["line"])
        if status == "violation":
            run.violation("LIM3", key, loc, text)
        elif status == "audited":
            run.exception("LIM3", key, loc, text)
        else:
            run.ok("LIM3", key, loc, text)
    rules_lim.cap_sources(run)
    run.floor("LIM3", "iterated ranges inspected", run.counters.get("lim3_iterated_ranges", 0), 20)
    rules_lim.lim4(run)
    rules_lim.lim_fmt_width(run)
    run.rules_run += ["LIM1 recursion cycles guarded", "LIM1b loop-carried Expr nesting", "LIM2 magnitude-class taint over machine arithmetic", "LIM3 user-sized loop bounds", "LIM4 capped big-integer operations"]


def prop_C05(run):
    import rules_op as _ro
    _ro.tab_builtin_values(run)
    import rules_op, rules_lim
    rules_op.tab_op(run)
    rules_op.tab_builtins(run)
    rules_op.literal_rules(run)
    rules_op.concat_rule(run)
    rules_op.propagate_rule(run)
    rules_op.slice_bounds_rule(run)
    rules_op.string_token_rule(run)
    rules_op.continuation_same_line(run)       # an expression ends with its line
    rules_op.keyword_whole_identifier(run)
    rules_op.lazy_operands_typed(run)          # both operands of || and && are tested for being booleans
    rules_lim.lim4(run)
    run.rules_run += ["TAB-op tokens <-> precedence levels <-> evaluator primitives <-> num-bigint operations, literal radix tables", "LIM4 checked primitives (caps, zero tests)"]


def prop_C04(run):
    import rules_rng
    rules_rng.range_tables(run)
    rules_rng.min_size_shape(run)
    rules_rng.data_width(run)
    rules_rng.typenames(run)
    rules_rng.size_writers(run)
    rules_rng.constrained_value_tested(run)    # a failed range check fails the candidate even if the production ignores the parameter (F77)
    run.rules_run += ["RNG decision tables of the uN/sN/iN predicates over the atoms sign, min_size<=>N, N==0 (abstractly interpreted from MIR) against the statement's formula",
                      "RNG data directive predicate, no truncation before the test, constrained size, typename tables"]


def prop_C06(run):
    import rules_mpt
    rules_mpt.build_output_rules(run)
    rules_mpt.pipeline(run)
    rules_mpt.bitvec_rules(run)
    rules_mpt.overlap_rules(run)
    rules_mpt.bank_range_rules(run)
    rules_mpt.bank_overlap_rules(run)
    rules_mpt.alignment_rules(run)
    rules_mpt.exact_unit_division(run)          # no position or size is rounded down to whole addresses unnoticed
    rules_mpt.full_loops(run, "asm::output::fill_banks", what="every bank definition")
    rules_mpt.full_loops(run, "asm::output::check_bank_overlap", what="every pair of banks")
    n = lim2_obligations(run, only=lambda key, f: bool(__import__("re").search(r"asm::output|overlap_checker|resolver::iter|bitvec::BitVec::write|resolver::(res|align|addr)::|defs::bankdef", key)))
    run.floor("LIM2", "layout arithmetic sites", n, 10)
    rules_mpt.bool_field_value_used(run)
    run.rules_run += ["MPT every emission dominated by check_bank_usage, check_bank_output(size, write) and the overlap checker with the same position/size",
                      "PIPE phase order", "LIM2 on the layout arithmetic"]


def prop_C12(run):
    import rules_mpt, rules_unit
    rules_mpt.bitvec_rules(run)
    rules_mpt.build_output_rules(run)
    rules_unit.unit(run, layout=True)
    rules_unit.src_bind(run)
    rules_unit.expr_node_spans(run)
    rules_unit.parenthesized_span(run)
    rules_unit.addrspan_positions(run)
    rules_unit.line_column_counts(run)
    rules_unit.walker_text(run)                 # spans index the stored text: the parser reads that text unchanged
    n = lim2_obligations(run, only=lambda key, f: "symbol_format" in key or "format_addrspan" in key)
    rules_mpt.symbol_listing(run)
    rules_mpt.mesen_header_rule(run)
    rules_mpt.mesen_units_scaled(run)
    rules_mpt.symbol_bank_rule(run)
    rules_mpt.listing_reads_within_span(run)
    rules_mpt.listing_excerpt_one_line(run)
    rules_mpt.symbol_listing_visits_all(run)
    # the symbol listings take the children of a scope from a hash map: listed in declaration order only through the sort
    import rules_det
    rules_det.det1(run, fns=[f for f in run.prog.real_fns() if (f.raw.get("root") or f.id).startswith("util::symbol_format::")])
    rules_det.lossy_apis(run)
    run.rules_run += ["MPT span = write; who may write bits; listings sort spans by offset; symbol listing skips no_emit and sorts by declaration index", "UNIT/SRC for excerpts", "LIM2 on the Mesen offset"]


def prop_C01(run):
    import rules_mpt, rules_rng, rules_err
    rules_mpt.rejections(run)
    import rules_idx
    rules_idx.match_shape(run)
    rules_idx.match_identity(run)
    rules_idx.lookahead_both(run)
    rules_idx.tab_idx(run)
    import rules_asm
    rules_asm.argument_context_rules(run)
    rules_mpt.alignment_rules(run)
    rules_mpt.overlap_rules(run)
    import rules_sym
    rules_sym.lookup_rules(run)
    rules_mpt.pipeline(run)
    rules_mpt.build_output_rules(run)
    # R4: out-of-range arguments are rejected (tables of C04) and never bound unchecked
    rules_rng.range_tables(run)
    rules_rng.constrained_value_tested(run)
    import rules_idx as _ri
    _ri.lookahead_skips_comments(run)           # where an operand ends: comments and strings skipped, otherwise character by character
    rules_mpt.exact_unit_division(run)
    reach = reach_roots(run)
    rules_err.err5(run, reach)
    run.rules_run += ["REJ no-match / tie / undefined symbol are errors on every path", "OVL overlapping output is rejected (neighbour comparisons)", "SYM lookup scope: too many dots find nothing", "PIPE phases in order behind their success edges", "MPT emission sites", "RNG range predicates", "ERR5 no rejection swallowed"]


def prop_C14(run):
    import rules_mpt
    rules_mpt.inclusion(run)
    rules_mpt.body_file_rule(run)
    rules_mpt.include_parses_every_time(run)
    import rules_asm as _ra
    _ra.asm_argument_file_rule(run)             # (F84, listed)
    import rules_cond
    rules_cond.nested_include_rule(run)
    n = lim2_obligations(run, only=lambda key, f: "eval_builtin_inc" in key or "file_navigation" in key)
    run.rules_run += ["INC1 names reaching the file server are navigated", "INC2 navigation validates, confines `..`, <std>/ never touches the disk, who-may-touch the file system",
                      "INC3 include stack and #once", "INC4 range tests dominate the slice", "LIM2 on the range arithmetic"]


def prop_C15(run):
    import rules_sym, rules_mpt
    rules_sym.declare_rules(run)
    rules_sym.lookup_rules(run)
    rules_sym.walker_rules(run)
    rules_sym.use_rules(run)
    rules_sym.parse_rules(run)
    import rules_op as _rop
    _rop.keyword_whole_identifier(run)          # names that start with a keyword are names
    _rop.continuation_same_line(run)            # a name at the end of a line does not swallow the `.label` of the next line
    rules_sym.prepass_rules(run)
    rules_mpt.pipeline(run)
    import rules_sym as _rs
    _rs.conditional_scope_rule(run)
    _rs.simple_lookup_context(run)
    import rules_cond as _rc
    _rc.condition_context_rule(run)             # an #if condition is read under the context of the nearest preceding symbol of any depth
    import rules_det
    rules_det.det3(run, [f for f in run.prog.real_fns() if "symbol_manager" in f.id], rule="SYM-state")   # a look-up is a function of its arguments: no cell/atomic state in the symbol table
    run.rules_run += ["SYM declare: level test, duplicate test and insertion use one scope expression", "SYM lookup: scope = enclosing[0..level], descent name by name, unknown is an error",
                      "SYM walkers: sibling AST walkers update the context on every Symbol node", "SYM use: lookups use the context of the point of use; unresolved is an error on the last pass",
                      "SYM parse: one level per dot", "PIPE: all symbols are declared before anything is resolved"]


def prop_C16(run):
    import rules_cond, rules_mpt
    rules_cond.resolve_ifs_rules(run)
    rules_cond.leftover_rules(run)
    rules_cond.define_rules(run)
    import rules_op
    rules_op.propagate_rule(run)               # a condition over constants that are not known yet is `unknown`, not an error
    import rules_rng
    rules_rng.size_writers(run)                # a define's value keeps the width its text has in the source language
    rules_cond.arm_reader_rules(run)
    rules_cond.prepass_loop_rules(run)
    rules_cond.nested_include_rule(run)
    rules_cond.define_value_source(run)         # a -d number is parsed by the language's literal parser
    rules_cond.early_binding_rule(run)         # names bound during the pre-pass wait for pending #if blocks (F76)
    rules_mpt.pipeline(run)
    import rules_sym as _rs
    _rs.conditional_scope_rule(run)
    _rs.simple_lookup_context(run)
    _rs.walker_rules(run)                      # the declaration walker updates the scope on every Symbol node, also in a spliced-in arm
    run.rules_run += ["COND resolve_ifs: decided #if replaced in place by exactly the selected arm", "COND leftover #if always fails with a message",
                      "COND command-line definitions override first, freeze, and unused ones fail", "COND who-reads the arms of an #if",
                      "COND pre-pass is an unbounded fixed point", "INC nested include", "PIPE leftover check before definitions/matching; unused-define check before output"]


class FilteredRun:
    """forwards everything to the run, but only those violations the predicate selects (the rest is another property's business)"""
    def __init__(self, run, pred):
        self._run = run
        self._pred = pred

    def __getattr__(self, name):
        return getattr(self._run, name)

    def violation(self, rule, key, loc, detail):
        if self._pred(key, detail):
            self._run.violation(rule, key, loc, detail)

    def check(self, cond, rule, key, loc, ok_detail, bad_detail):
        if cond or self._pred(key, bad_detail):
            self._run.check(cond, rule, key, loc, ok_detail, bad_detail)


def prop_C17(run):
    import rules_asm, rules_idx, rules_lim, rules_fix
    rules_asm.asm_block_rules(run)
    rules_asm.substitution_rules(run)
    rules_asm.nested_arg_text(run)
    rules_asm.argument_context_rules(run)
    rules_asm.new_deepened_rule(run)
    rules_asm.block_label_align(run)
    import rules_idx as _ri
    _ri.line_scan_rules(run)                    # a line of an asm block ends outside braces only
    rules_asm.substituted_line_trimmed(run)     # an empty argument leaves no blank at the end of the line (F80)
    rules_asm.inner_failure_rule(run)          # a block that cannot be encoded fails its candidate only (F79, listed)
    import rules_mpt as _rm
    _rm.alignment_rules(run)                   # labels of a block obey the address-unit rule like labels written in place
    rules_asm.fn_rules(run)
    rules_asm.fn_params_rule(run)               # #fn parameters are distinct and comma-separated (F82)
    rules_asm.args_rules(run)
    rules_idx.static_known(run)
    rules_idx.sk_provider(run)
    # recursion through asm blocks, user functions and the expression evaluator/parser (asm blocks nest through expressions)
    rules_lim.lim1(FilteredRun(run, lambda key, d: bool(__import__("re").search(r"eval_asm|eval_fn|expr::eval|Expr>::eval|reset-on-cycle\|expr::parser::parse|expr::parser::ExpressionParser", key + " " + d))))
    rules_fix.fix1(run)
    # the block's own passes: as many as the main program gets (a block with fewer gives up where the inlined text settles)
    rules_fix.fix4(FilteredRun(run, lambda key, d: "eval_asm::resolve_iteratively|counter" in key))
    run.rules_run += ["FIX4 (asm driver) the block's pass counter runs up to the same budget as the main resolver",
                      "ASM depth guard, content filter, start position, block-local position and context, names usable in the block, concatenation order",
                      "ASM every parameter bound by value and by text; hygiene renaming agrees", "FN user function call shape",
                      "SK asm blocks are never statically known", "LIM1 recursion cycles guarded", "FIX1 the block's result is confirmed by a strict pass"]


PROPS = {
    "C17": prop_C17,
    "C16": prop_C16,
    "C15": prop_C15,
    "C14": prop_C14,
    "C01": prop_C01,
    "C06": prop_C06,
    "C12": prop_C12,
    "C04": prop_C04,
    "C05": prop_C05,
    "C19": prop_C19,
    "C13": prop_C13,
    "C08": prop_C08,
    "C07": prop_C07,
    "C02": prop_C02,
    "C09": prop_C09,
    "C03": prop_C03,
    "C11": prop_C11,
    "C18": prop_C18,
    "C10": prop_C10,
}


def main():
    ap = argparse.ArgumentParser()
    ap.add_argument("prop")
    ap.add_argument("--tier", default=os.environ.get("VERIF_TIER", "quick"))
    ap.add_argument("--repo", default="/repo")
    ap.add_argument("--replay", default=None)
    ap.add_argument("--no-evidence", action="store_true", help="do not write evidence/replay files (used when checking a scratch copy)")
    a = ap.parse_args()
    seed = int(os.environ.get("VERIF_SEED", "0") or 0)
    if a.prop not in PROPS:
        print("unknown property %s" % a.prop)
        return 2
    try:
        d = facts.extract(a.repo)
        prog = mir.load_program(d)
    except facts.ExtractionError as e:
        print("casmlint: cannot analyse the tree: %s" % e)
        return 2
    run = engine.Run(a.prop, a.tier, prog, a.repo)
    try:
        PROPS[a.prop](run)
    except mir.AnchorError as e:
        run.violation("ANCHOR", "ANCHOR|" + str(e), "-", "mechanism not found: %s" % e)
    except Exception as e:
        # fail closed: a construct the rules cannot digest is not a pass.  (Never happens on the audited tree;
        # on a changed tree it means the code no longer has the shape the rule was written for.)
        tb = traceback.extract_tb(sys.exc_info()[2])
        where = "%s:%d in %s" % (os.path.basename(tb[-1].filename), tb[-1].lineno, tb[-1].name)
        run.violation("INTERNAL", "INTERNAL|%s|%s" % (tb[-1].name, type(e).__name__), "-",
                      "the analysis could not digest the code it is anchored in (%s: %s at %s); the property is not shown to hold" % (type(e).__name__, e, where))
    if a.replay:
        with open(a.replay) as fh:
            rp = json.load(fh)
        k = rp["obligation"]["key"]
        run.obs = [o for o in run.obs if o.key == k]
        if not run.obs:
            print("replay: obligation %s no longer exists on this tree" % k)
            return 0
        for o in run.obs:
            print("replay: [%s] %s: %s -- %s" % (o.status, o.loc, o.key, o.detail))
        return 1 if any(o.status == "violation" for o in run.obs) else 0
    if a.tier == "thorough" and not a.no_evidence and os.path.abspath(a.repo) == "/repo":
        selftest(run, a.prop)
    return engine.finish(run, seed, write=not a.no_evidence)


def selftest(run, prop):
    """thorough tier: both-ways self test of this property's rules on scratch copies of the current tree (outside /repo and
    /verif, removed at once): every mutant of mutants/*.json and every confirmed seeded change of seeded/ that belongs to the
    property must make the check report a violation naming the expected construct.  A miss means the checker is broken for
    that construct (BROKEN-CHECKER, exit 2) - it is never reported as a violation of the property."""
    import mutants as M
    import glob, subprocess, tempfile, shutil
    from concurrent.futures import ThreadPoolExecutor
    ms = [dict(m, property=prop, also=[]) for m in M.load() if m["property"] == prop or prop in m.get("also", [])]
    seeds = []
    for mp in sorted(glob.glob(os.path.join(engine.VERIF, "seeded", "*", "meta.json"))):
        try:
            meta = json.load(open(mp))
        except Exception:
            continue
        if meta.get("property") == prop:
            seeds.append((meta["id"], os.path.join(os.path.dirname(mp), "patch.diff")))

    def seed_one(item):
        sid, patch = item
        tmp = tempfile.mkdtemp(prefix="casm-seed-")
        try:
            subprocess.run(["rsync", "-a", "--exclude", "target", "--exclude", ".git", "/repo/", tmp + "/"], check=True)
            pr = subprocess.run(["patch", "-p1", "-s", "-i", patch], cwd=tmp, capture_output=True, text=True)
            if pr.returncode != 0:
                return (sid, "skipped", "patch no longer applies to the current tree")
            pr = subprocess.run([sys.executable, os.path.join(engine.VERIF, "lint", "check.py"), prop, "--repo", tmp, "--no-evidence"], capture_output=True, text=True)
            if pr.returncode == 1 and "VIOLATION property=%s" % prop in pr.stdout:
                return (sid, "detected", "")
            if pr.returncode == 2:
                return (sid, "skipped", "the changed tree could not be analysed (does not compile on the current tree)")
            return (sid, "missed", "")
        finally:
            shutil.rmtree(tmp, ignore_errors=True)

    import neutral as N
    ncases = [c for c in N.CASES if prop in c[1]]
    with ThreadPoolExecutor(max_workers=int(os.environ.get("VERIF_JOBS", "8"))) as ex:
        mres = list(ex.map(M.run_one, ms))
        sres = list(ex.map(seed_one, seeds))
        nres = list(ex.map(lambda c: N.run_case(c, prop), ncases))
    st = {"mutants": len(mres), "mutants_detected": sum(1 for r in mres if r[1] == "detected"), "mutants_skipped": [r[0] for r in mres if r[1] in ("skipped", "error")],
          "seeded_changes": len(sres), "seeded_detected": sum(1 for r in sres if r[1] == "detected"), "seeded_skipped": [r[0] for r in sres if r[1] == "skipped"]}
    st["neutral_variants"] = len(nres)
    st["neutral_silent"] = sum(1 for r in nres if r[1] == "silent")
    st["neutral_skipped"] = [r[0] for r in nres if r[1] == "error"]
    run.counters["selftest"] = st
    for r in nres:
        if r[1] == "FALSE ALARM":
            run.broken.append("self-test: the check raises an alarm on the behaviour-preserving variant %s: %s" % (r[0], r[2][:300]))
    for r in mres:
        if r[1] == "missed":
            run.broken.append("self-test: mutant %s is not detected: %s" % (r[0], r[2][:300]))
    for r in sres:
        if r[1] == "missed":
            run.broken.append("self-test: seeded change %s is not detected" % r[0])
    run.rules_run.append("self-test (thorough): %d/%d mutants and %d/%d seeded changes of this property detected, %d/%d behaviour-preserving variants silent, on scratch copies of the current tree" % (
        st["mutants_detected"], st["mutants"], st["seeded_detected"], st["seeded_changes"], st["neutral_silent"], st["neutral_variants"]))
    print("self-test: %d/%d behaviour-preserving variants silent" % (st["neutral_silent"], st["neutral_variants"]))
    print("self-test: %d/%d mutants, %d/%d seeded changes detected%s" % (st["mutants_detected"], st["mutants"], st["seeded_detected"], st["seeded_changes"],
          (" (skipped: %s)" % (st["mutants_skipped"] + st["seeded_skipped"])) if st["mutants_skipped"] or st["seeded_skipped"] else ""))


if __name__ == "__main__":
    try:
        sys.exit(main())
    except SystemExit:
        raise
    except Exception:
        traceback.print_exc()
        sys.exit(2)
