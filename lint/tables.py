"""Constant decision-table extraction from MIR (TAB rules)."""
import re
from mir import op_place, op_local, const_int, const_str, describe_origin, closure_of_origin

STR_EQ = re.compile(r"PartialEq.*for str>::eq$|<str as std::cmp::PartialEq>::eq$|core::str::traits::<impl std::cmp::PartialEq for str>::eq$|<impl std::cmp::PartialEq<&str> for|<impl std::cmp::PartialEq<str> for")


def is_str_eq(t):
    n = (t.get("resolved") or "") + " " + (t.get("callee_full") or "")
    if t.get("callee") not in ("std::cmp::PartialEq::eq",):
        return False
    return "str" in n or "String" in n


def switch_after(f, bb, local):
    """the SwitchInt that tests `local` in block bb (directly) -> (true_target, false_target) for a bool"""
    t = f.blocks[bb]["term"]
    if t["k"] != "switch" or op_local(t["discr"]) != local:
        return None
    false_t = None
    for v, tg in t["targets"]:
        if v == "0":
            false_t = tg
    true_t = t["otherwise"]
    if false_t is None:
        return None
    return true_t, false_t


def bool_test(f, call_term):
    """the branch on the bool result of a call: (true_target, false_target, switch_block).  The result may be tested at once,
    after being kept in a named local, or negated first (`!x`)."""
    if call_term.get("target") is None or call_term["dest"]["p"]:
        return None
    dl = call_term["dest"]["l"]
    d = switch_after(f, call_term["target"], dl)
    if d is not None:
        return d[0], d[1], call_term["target"]
    root = f.copy_root(dl)
    for b in sorted(f.reachable()):
        t = f.blocks[b]["term"]
        if t["k"] != "switch" or op_local(t["discr"]) is None:
            continue
        l = op_local(t["discr"])
        neg = False
        o = f.origin_local(l)
        if o[0] == "unop" and o[1]["op"] == "Not" and op_local(o[1]["x"]) is not None:
            neg = True
            l = op_local(o[1]["x"])
        if f.copy_root(l) != root and l != dl:
            continue
        # the tested value must be this call's result (single definition)
        ds = f.full_defs(f.copy_root(l))
        if not (len(ds) == 1 and ds[0][0] == "call" and ds[0][2] is call_term):
            continue
        ft = [tg for v, tg in t["targets"] if v == "0"]
        if not ft:
            continue
        tr, fa = t["otherwise"], ft[0]
        if neg:
            tr, fa = fa, tr
        return tr, fa, b
    return None


def str_eq_arms(f):
    """all `x == "literal"` tests in f: list of dict(lit, true, false, bb, scrut)"""
    out = []
    for bi, t in f.calls():
        if not is_str_eq(t) or len(t["args"]) != 2:
            continue
        lit = None
        other = None
        for i, a in enumerate(t["args"]):
            s = const_str(a)
            if s is None:
                o = f.origin_op(a)
                while o[0] in ("ref",):
                    o = o[1]
                if o[0] == "const":
                    s = const_str(o[1])
            if s is not None and lit is None:
                lit = s
            else:
                other = a
        if lit is None or t["target"] is None or t["dest"]["p"]:
            continue
        sw = switch_after(f, t["target"], t["dest"]["l"])
        if sw is None:
            continue
        out.append({"lit": lit, "true": sw[0], "false": sw[1], "bb": bi, "sw": t["target"],
                    "scrut": describe_origin(f, f.origin_op(other)) if other is not None else "?", "line": t["span"]["line"]})
    return out


def dominated_region(f, b, src=None):
    """blocks dominated by b; with src given: blocks that can only be reached through the edge src->b
    (empty when b has another way in)"""
    dom = f.dominators()
    if src is not None:
        for p in f.preds(b):
            if p != src and b not in dom.get(p, ()):
                return set()
    return set(x for x in f.reachable() if b in dom.get(x, ()))


def enum_switch_arms(f, adt_suffix):
    """switches on the discriminant of a value of enum type *adt_suffix: yields (bb, {variant: target}, otherwise, place)"""
    out = []
    for bi, si, st in f.stmts():
        if st["k"] == "assign" and st["rv"]["k"] == "discr" and st["rv"]["adt"].split("<")[0].endswith(adt_suffix) and not st["place"]["p"]:
            d = st["place"]["l"]
            t = f.blocks[bi]["term"]
            if t["k"] == "switch" and op_local(t["discr"]) == d:
                variants = st["rv"]["variants"] or {}
                arms = {}
                for v, tg in t["targets"]:
                    arms[variants.get(v, v)] = tg
                out.append((bi, arms, t["otherwise"], st["rv"]["place"], variants))
    return out


def region_calls(f, region):
    out = []
    for b in sorted(region):
        t = f.blocks[b]["term"]
        if t["k"] == "call" and not f.blocks[b]["cleanup"]:
            out.append((b, t))
    return out


def region_aggregates(f, region, adt_suffix=None):
    out = []
    for b in sorted(region):
        for st in f.blocks[b]["stmts"]:
            if st["k"] == "assign" and st["rv"]["k"] == "agg" and st["rv"].get("agg") == "adt":
                if adt_suffix is None or st["rv"]["adt"].endswith(adt_suffix):
                    out.append((b, st))
    return out


def promoted_array_ints(prog, f, op):
    """if op refers (through promoted consts) to an array of integer constants, return the list"""
    o = f.origin_op(op)
    seen = 0
    while o[0] in ("ref", "cast") and seen < 6:
        o = o[1]
        seen += 1
    if o[0] == "place":
        o = o[1]
        while o[0] in ("ref", "cast"):
            o = o[1]
    if o[0] == "agg" and o[1]["agg"] == "array":
        vals = [const_int(x) for x in o[1]["ops"]]
        if all(v is not None for v in vals):
            return vals
    if o[0] == "const":
        c = o[1].get("const", "")
        m = re.search(r"promoted\[(\d+)\]", c)
        if m:
            pf = prog.fn("%s::{promoted#%s}" % (f.raw["owner"], m.group(1)))
            if pf is not None:
                for bi, si, st in pf.stmts():
                    if st["k"] == "assign" and st["rv"]["k"] == "agg" and st["rv"]["agg"] == "array":
                        vals = [const_int(x) for x in st["rv"]["ops"]]
                        if all(v is not None for v in vals):
                            return vals
    return None


def promoted_str(prog, f, op):
    """string constant an operand refers to, looking through a promoted `&&str`"""
    from mir import const_str, peel
    c = const_str(op)
    if c is not None:
        return c
    o = peel(f.origin_op(op))
    if o[0] != "const":
        return None
    c = const_str(o[1])
    if c is not None:
        return c
    m = re.search(r"promoted\[(\d+)\]", o[1].get("const", ""))
    if m:
        owner = f.raw.get("owner") or f.id
        pf = prog.fn("%s::{promoted#%s}" % (owner, m.group(1)))
        if pf is not None:
            for bi, si, st in pf.stmts():
                if st["k"] == "assign" and st["rv"]["k"] == "use":
                    c = const_str(st["rv"]["op"])
                    if c is not None:
                        return c
    return None


def validator_set(prog, cid):
    """describe a `|v: usize| -> bool` closure: ('set', [..]) for `[..].contains(&v)`, ('gt', n) for `v > n`,
    ('any',) unknown"""
    g = prog.fn(cid)
    if g is None:
        return ("unknown",)
    for bi, t in g.calls():
        if (t.get("callee") or "").endswith("contains"):
            vals = promoted_array_ints(prog, g, t["args"][0])
            if vals is not None:
                return ("set", sorted(vals))
    for bi, si, st in g.stmts():
        if st["k"] == "assign" and st["rv"]["k"] == "binop" and st["rv"]["op"] in ("Gt", "Ge", "Ne", "Lt", "Le", "Eq"):
            c = const_int(st["rv"]["r"])
            if c is not None and op_place(st["rv"]["l"]) is not None:
                return (st["rv"]["op"].lower(), c)
    return ("unknown",)
