"""Constant decision-table extraction from MIR (TAB rules)."""
import re
from mir import op_place, op_local, const_int, const_str, describe_origin, closure_of_origin

STR_EQ = re.compile(r"PartialEq.*for str>::eq$|<str as std::cmp::PartialEq>::eq$|core::str::traits::<impl std::cmp::PartialEq for str>::eq$|<impl std::cmp::PartialEq<&str> for|<impl std::cmp::PartialEq<str> for")


def is_str_eq(t):
    n = (t.get("resolved") or "") + " " + (t.get("callee_full") or "")
    if t.get("callee") not in ("std::cmp::PartialEq::eq",):
        return False
    return "str" in n or "String" in n


def switch_after(f, bb, local):
    """the SwitchInt that tests `local` in block bb (directly) -> (true_target, false_target) for a bool"""
    t = f.blocks[bb]["term"]
    if t["k"] != "switch" or op_local(t["discr"]) != local:
        return None
    false_t = None
    for v, tg in t["targets"]:
        if v == "0":
            false_t = tg
    true_t = t["otherwise"]
    if false_t is None:
        return None
    return true_t, false_t


def bool_test(f, call_term):
    """the branch on the bool result of a call: (true_target, false_target, switch_block).  The result may be tested at once,
    after being kept in a named local, or negated first (`!x`)."""
    if call_term.get("target") is None or call_term["dest"]["p"]:
        return None
    dl = call_term["dest"]["l"]
    d = switch_after(f, call_term["target"], dl)
    if d is not None:
        return d[0], d[1], call_term["target"]
    root = f.copy_root(dl)
    for b in sorted(f.reachable()):
        t = f.blocks[b]["term"]
        if t["k"] != "switch" or op_local(t["discr"]) is None:
            continue
        l = op_local(t["discr"])
        neg = False
        o = f.origin_local(l)
        if o[0] == "unop" and o[1]["op"] == "Not" and op_local(o[1]["x"]) is not None:
            neg = True
            l = op_local(o[1]["x"])
        if f.copy_root(l) != root and l != dl:
            continue
        # the tested value must be this call's result (single definition)
        ds = f.full_defs(f.copy_root(l))
        if not (len(ds) == 1 and ds[0][0] == "call" and ds[0][2] is call_term):
            continue
        ft = [tg for v, tg in t["targets"] if v == "0"]
        if not ft:
            continue
        tr, fa = t["otherwise"], ft[0]
        if neg:
            tr, fa = fa, tr
        return tr, fa, b
    return None


def str_eq_arms(f):
    """all `x == "literal"` tests in f: list of dict(lit, true, false, bb, scrut)"""
    out = []
    for bi, t in f.calls():
        if not is_str_eq(t) or len(t["args"]) != 2:
            continue
        lit = None
        other = None
        for i, a in enumerate(t["args"]):
            s = const_str(a)
            if s is None:
                o = f.origin_op(a)
                while o[0] in ("ref",):
                    o = o[1]
                if o[0] == "const":
                    s = const_str(o[1])
            if s is not None and lit is None:
                lit = s
            else:
                other = a
        if lit is None or t["target"] is None or t["dest"]["p"]:
            continue
        sw = switch_after(f, t["target"], t["dest"]["l"])
        if sw is None:
            continue
        out.append({"lit": lit, "true": sw[0], "false": sw[1], "bb": bi, "sw": t["target"],
                    "scrut": describe_origin(f, f.origin_op(other)) if other is not None else "?", "line": t["span"]["line"]})
    return out


def dominated_region(f, b, src=None):
    """blocks dominated by b; with src given: blocks that can only be reached through the edge src->b
    (empty when b has another way in)"""
    dom = f.dominators()
    if src is not None:
        for p in f.preds(b):
            if p != src and b not in dom.get(p, ()):
                return set()
    return set(x for x in f.reachable() if b in dom.get(x, ()))


def enum_switch_arms(f, adt_suffix):
    """switches on the discriminant of a value of enum type *adt_suffix: yields (bb, {variant: target}, otherwise, place)"""
    out = []
    for bi, si, st in f.stmts():
        if st["k"] == "assign" and st["rv"]["k"] == "discr" and st["rv"]["adt"].split("<")[0].endswith(adt_suffix) and not st["place"]["p"]:
            d = st["place"]["l"]
            t = f.blocks[bi]["term"]
            if t["k"] == "switch" and op_local(t["discr"]) == d:
                variants = st["rv"]["variants"] or {}
                arms = {}
                for v, tg in t["targets"]:
                    arms[variants.get(v, v)] = tg
                out.append((bi, arms, t["otherwise"], st["rv"]["place"], variants))
    return out


def region_calls(f, region):
    out = []
    for b in sorted(region):
        t = f.blocks[b]["term"]
        if t["k"] == "call" and not f.blocks[b]["cleanup"]:
            out.append((b, t))
    return out


def region_aggregates(f, region, adt_suffix=None):
    out = []
    for b in sorted(region):
        for st in f.blocks[b]["stmts"]:
            if st["k"] == "assign" and st["rv"]["k"] == "agg" and st["rv"].get("agg") == "adt":
                if adt_suffix is None or st["rv"]["adt"].endswith(adt_suffix):
                    out.append((b, st))
            # a named constant of the crate is read as the aggregate it is defined as
            elif st["k"] == "assign" and st["rv"]["k"] == "use" and isinstance(st["rv"].get("op"), dict) and isinstance(st["rv"]["op"].get("const"), str):
                c = f.prog.fn(st["rv"]["op"]["const"])
                if c is not None and c.kind in ("Const", "AssocConst", "Static"):
                    inner = [s2 for _, _, s2 in c.stmts() if s2["k"] == "assign" and s2["place"]["l"] == 0 and not s2["place"]["p"] and s2["rv"]["k"] == "agg" and s2["rv"].get("agg") == "adt"]
                    if len(inner) == 1 and (adt_suffix is None or inner[0]["rv"]["adt"].endswith(adt_suffix)):
                        out.append((b, {"k": "assign", "place": st["place"], "rv": inner[0]["rv"], "span": st["span"]}))
    return out


def promoted_array_ints(prog, f, op):
    """if op refers (through promoted consts) to an array of integer constants, return the list"""
    o = f.origin_op(op)
    seen = 0
    while o[0] in ("ref", "cast") and seen < 6:
        o = o[1]
        seen += 1
    if o[0] == "place":
        o = o[1]
        while o[0] in ("ref", "cast"):
            o = o[1]
    if o[0] == "agg" and o[1]["agg"] == "array":
        vals = [const_int(x) for x in o[1]["ops"]]
        if all(v is not None for v in vals):
            return vals
    if o[0] == "const":
        c = o[1].get("const", "")
        m = re.search(r"promoted\[(\d+)\]", c)
        if m:
            pf = prog.fn("%s::{promoted#%s}" % (f.raw["owner"], m.group(1)))
            if pf is not None:
                for bi, si, st in pf.stmts():
                    if st["k"] == "assign" and st["rv"]["k"] == "agg" and st["rv"]["agg"] == "array":
                        vals = [const_int(x) for x in st["rv"]["ops"]]
                        if all(v is not None for v in vals):
                            return vals
    return None


def promoted_str(prog, f, op):
    """string constant an operand refers to, looking through a promoted `&&str`"""
    from mir import const_str, peel
    c = const_str(op)
    if c is not None:
        return c
    o = peel(f.origin_op(op))
    if o[0] != "const":
        return None
    c = const_str(o[1])
    if c is not None:
        return c
    m = re.search(r"promoted\[(\d+)\]", o[1].get("const", ""))
    if m:
        owner = f.raw.get("owner") or f.id
        pf = prog.fn("%s::{promoted#%s}" % (owner, m.group(1)))
        if pf is not None:
            for bi, si, st in pf.stmts():
                if st["k"] == "assign" and st["rv"]["k"] == "use":
                    c = const_str(st["rv"]["op"])
                    if c is not None:
                        return c
    return None


def validator_set(prog, cid):
    """describe a `|v: usize| -> bool` closure: ('set', [..]) for `[..].contains(&v)`, ('gt', n) for `v > n`,
    ('any',) unknown"""
    g = prog.fn(cid)
    if g is None:
        return ("unknown",)
    for bi, t in g.calls():
        if (t.get("callee") or "").endswith("contains"):
            vals = promoted_array_ints(prog, g, t["args"][0])
            if vals is not None:
                return ("set", sorted(vals))
    for bi, si, st in g.stmts():
        if st["k"] == "assign" and st["rv"]["k"] == "binop" and st["rv"]["op"] in ("Gt", "Ge", "Ne", "Lt", "Le", "Eq"):
            c = const_int(st["rv"]["r"])
            if c is not None and op_place(st["rv"]["l"]) is not None and len(g.blocks) <= 2:
                return (st["rv"]["op"].lower(), c)
    return _validator_by_paths(prog, g)


def _validator_by_paths(prog, g):
    """decision table of a `|v: usize| -> bool` closure written with `matches!`, comparisons with constants, `is_power_of_two`
    and `&&`/`||`: every path to the return is a conjunction of atoms over v; the accepted set is tabulated over 0..=2*max const+2
    (a formula over the closure's constants, not a run of the program)"""
    import operator
    OPS = {"Gt": operator.gt, "Ge": operator.ge, "Lt": operator.lt, "Le": operator.le, "Eq": operator.eq, "Ne": operator.ne}
    if g.arg_count != 2:
        return ("unknown",)
    consts = [0]
    paths = []          # list of (conjunction list, result pred)
    def sym(env, op):
        c = const_int(op)
        if c is not None:
            return ("c", c)
        l = op_local(op)
        if l is None:
            return None
        pl = op_place(op)
        if l == 2 and not pl["p"]:
            return ("v",)
        if pl["p"] == ["deref"] and env.get(l) == ("refv",):
            return ("v",)
        return env.get(l)
    def walk(b, env, conj, depth):
        if depth > 40:
            raise ValueError("deep")
        env = dict(env)
        for st in g.blocks[b]["stmts"]:
            if st["k"] != "assign" or st["place"]["p"]:
                continue
            rv, d = st["rv"], st["place"]["l"]
            if rv["k"] == "use":
                env[d] = sym(env, rv["op"])
            elif rv["k"] == "ref" and rv["place"]["l"] == 2 and not rv["place"]["p"]:
                env[d] = ("refv",)
            elif rv["k"] == "ref":
                env[d] = env.get(rv["place"]["l"]) if not rv["place"]["p"] else None
            elif rv["k"] == "binop" and rv["op"] in OPS:
                a, c = sym(env, rv["l"]), sym(env, rv["r"])
                if a == ("v",) and c and c[0] == "c":
                    consts.append(c[1])
                    env[d] = ("p", (lambda k, o: (lambda v: o(v, k)))(c[1], OPS[rv["op"]]))
                elif c == ("v",) and a and a[0] == "c":
                    consts.append(a[1])
                    env[d] = ("p", (lambda k, o: (lambda v: o(k, v)))(a[1], OPS[rv["op"]]))
                else:
                    env[d] = None
            elif rv["k"] == "unop" and rv["op"] == "Not" and (sym(env, rv["x"]) or (None,))[0] == "p":
                env[d] = ("p", (lambda p_: (lambda v: not p_(v)))(sym(env, rv["x"])[1]))
            else:
                env[d] = None
        t = g.blocks[b]["term"]
        if t["k"] == "return":
            r = env.get(0)
            if r is None:
                raise ValueError("result")
            paths.append((conj, r))
        elif t["k"] == "goto":
            walk(t["target"], env, conj, depth + 1)
        elif t["k"] == "call":
            c = t.get("callee") or ""
            d = t["dest"]["l"]
            a0 = sym(env, t["args"][0]) if t["args"] else None
            if c.endswith("<impl usize>::is_power_of_two") and a0 == ("v",):
                env[d] = ("p", lambda v: v > 0 and (v & (v - 1)) == 0)
            elif c.endswith("contains") and len(t["args"]) == 2:
                vals = promoted_array_ints(prog, g, t["args"][0])
                a1 = sym(env, t["args"][1])
                if vals is None or a1 not in (("v",), ("refv",)):
                    raise ValueError("contains")
                consts.extend(vals)
                env[d] = ("p", (lambda vs: (lambda v: v in vs))(set(vals)))
            else:
                raise ValueError("call " + c)
            walk(t["target"], env, conj, depth + 1)
        elif t["k"] == "switch":
            s_ = sym(env, t["discr"])
            if s_ == ("v",):
                vals = [int(v) for v, _ in t["targets"]]
                consts.extend(vals)
                for v, tg in t["targets"]:
                    walk(tg, env, conj + [(lambda k: (lambda x: x == k))(int(v))], depth + 1)
                walk(t["otherwise"], env, conj + [(lambda ks: (lambda x: x not in ks))(set(vals))], depth + 1)
            elif s_ and s_[0] == "p":
                for v, tg in t["targets"]:
                    if v == "0":
                        walk(tg, env, conj + [(lambda p_: (lambda x: not p_(x)))(s_[1])], depth + 1)
                walk(t["otherwise"], env, conj + [s_[1]], depth + 1)
            elif s_ and s_[0] == "c":
                tg = [tg for v, tg in t["targets"] if int(v) == s_[1]]
                walk(tg[0] if tg else t["otherwise"], env, conj, depth + 1)
            else:
                raise ValueError("switch")
        else:
            raise ValueError("term " + t["k"])
    try:
        walk(0, {}, [], 0)
    except (ValueError, KeyError, IndexError, RecursionError):
        return ("unknown",)
    top = min(2 * max(consts) + 2, 1 << 16)
    def accepts(v):
        for conj, r in paths:
            if all(c(v) for c in conj):
                return bool(r[1]) if r[0] == "c" else (r[1](v) if r[0] == "p" else False)
        return False
    acc = [v for v in range(0, top + 1) if accepts(v)]
    if not acc:
        return ("set", [])
    if acc == list(range(acc[0], top + 1)):
        return ("gt", acc[0] - 1) if acc[0] > 0 else ("any",)
    if acc[-1] >= top - 1:
        return ("unknown",)
    return ("set", acc)


def reach_following_consts(f, start, limit=400):
    """blocks reachable from `start`, resolving switches on locals that were assigned a constant on the way (the temporary bool
    of `matches!` / `a && b`)"""
    seen, out, work = set(), set(), [(start, ())]
    n = 0
    while work and n < limit * 4:
        n += 1
        x, env = work.pop()
        if (x, env) in seen or f.blocks[x]["cleanup"]:
            continue
        seen.add((x, env))
        out.add(x)
        e = dict(env)
        for st in f.blocks[x]["stmts"]:
            if st["k"] == "assign" and not st["place"]["p"]:
                c = const_int(st["rv"]["op"]) if st["rv"]["k"] == "use" else None
                if c is not None:
                    e[st["place"]["l"]] = c
                else:
                    e.pop(st["place"]["l"], None)
        tt = f.blocks[x]["term"]
        nxt = f.succs(x)
        if tt["k"] == "switch" and op_local(tt["discr"]) in e:
            v = e[op_local(tt["discr"])]
            tg = [tg for vv, tg in tt["targets"] if int(vv) == v]
            nxt = tg if tg else [tt["otherwise"]]
        if tt["k"] == "call" and not tt["dest"]["p"]:
            e.pop(tt["dest"]["l"], None)
        for y in nxt:
            work.append((y, tuple(sorted(e.items()))))
    return out
