#!/usr/bin/env python3
"""record_fix.py <Fnn> <props e.g. C03/C18> <table text> <fixed-entry text> : append a `fixed:` entry for /repo HEAD and a row to DESIGN.md section 5"""
import json, subprocess, sys, re
fid, props, row, entry = sys.argv[1:5]
h = subprocess.check_output(["git", "-C", "/repo", "log", "--format=%h", "-1"]).decode().strip()
p = '/verif/known_findings.json'
k = json.load(open(p))
k["fixed"].append("fixed: property=%s %s %s" % (props.split("/")[0], h, entry))
json.dump(k, open(p, 'w'), indent=1)
s = open('/verif/DESIGN.md').read()
lines = s.split("\n")
last = max(i for i, l in enumerate(lines) if re.match(r"^\| F\d+ \|", l) and int(re.match(r"^\| F(\d+)", l).group(1)) >= 33)
lines.insert(last + 1, "| %s | %s | %s | **fixed** %s |" % (fid, props, row, h))
s = "\n".join(lines)
m = re.search(r"(\d+) genuine defects were repaired in", s)
s = s.replace(m.group(0), "%d genuine defects were repaired in" % (int(m.group(1)) + 1))
open('/verif/DESIGN.md', 'w').write(s)
print("recorded", fid, h)
