#!/bin/bash
# usage: verify_seed.sh <worktree> <n>   -- confirm seed n of a worktree: applies, compiles, 605 tests pass, demo fails with / passes without
W=$1; N=$2
cd $W || exit 9
export CARGO_TARGET_DIR=$W/target CARGO_NET_OFFLINE=true
git checkout -q -- . 
git apply seed$N.diff || { echo "RESULT $W seed$N APPLY-FAIL"; exit 1; }
T=$(cargo test --offline --no-fail-fast 2>&1 | grep -E "^test result" | head -1)
bash ./demo$N.sh >/tmp/verify_$$_with.log 2>&1; WITH=$?
git checkout -q -- .
bash ./demo$N.sh >/tmp/verify_$$_without.log 2>&1; WITHOUT=$?
echo "RESULT $W seed$N tests=[$T] demo_with_change_exit=$WITH demo_without_exit=$WITHOUT"
rm -f /tmp/verify_$$_*.log
