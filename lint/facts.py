"""Fact extraction and loading.

extract(repo) runs the casm-facts driver over the *current working tree* of
`repo` (cargo +nightly check with RUSTC_WORKSPACE_WRAPPER into a fresh target
dir) and caches the JSON facts under /verif/.cache/<tree-hash>/.  The cache key
is a hash of every file that can influence the build, so an edited tree is
always re-extracted.
"""
import hashlib, json, os, shutil, subprocess, sys, tempfile, time, fcntl

VERIF = os.path.dirname(os.path.dirname(os.path.abspath(__file__)))
DRIVER = os.path.join(VERIF, "driver", "target", "release", "casm-facts")
CACHE = os.path.join(VERIF, ".cache")


def tree_hash(repo, extra=""):
    h = hashlib.sha256()
    h.update(extra.encode())
    paths = []
    for top in ("src", "std"):
        for root, dirs, files in os.walk(os.path.join(repo, top)):
            dirs.sort()
            for f in sorted(files):
                paths.append(os.path.join(root, f))
    for f in ("Cargo.toml", "Cargo.lock"):
        paths.append(os.path.join(repo, f))
    for p in paths:
        try:
            with open(p, "rb") as fh:
                data = fh.read()
        except OSError:
            continue
        h.update(os.path.relpath(p, repo).encode())
        h.update(b"\0")
        h.update(hashlib.sha256(data).digest())
    # the driver itself
    try:
        with open(DRIVER, "rb") as fh:
            h.update(hashlib.sha256(fh.read()).digest())
    except OSError:
        pass
    return h.hexdigest()[:24]


def sysroot_lib():
    out = subprocess.run(["rustc", "+nightly", "--print", "sysroot"], capture_output=True, text=True, check=True)
    return os.path.join(out.stdout.strip(), "lib")


def run_driver(repo, outdir, profile="dev", all_targets=False, crates="customasm", extra_rustflags=""):
    """Run the driver over repo; return (ok, log)."""
    if not os.path.exists(DRIVER):
        return False, "driver binary missing: %s (run setup_cmd)" % DRIVER
    td = tempfile.mkdtemp(prefix="casmfacts-target-")
    env = dict(os.environ)
    env["LD_LIBRARY_PATH"] = sysroot_lib() + ":" + env.get("LD_LIBRARY_PATH", "")
    env["RUSTFLAGS"] = ("-Zmir-opt-level=0 -Awarnings " + extra_rustflags).strip()
    env["RUSTC_WORKSPACE_WRAPPER"] = DRIVER
    env["CASM_FACTS_OUT"] = outdir
    env["CASM_FACTS_CRATES"] = crates
    env["CARGO_TARGET_DIR"] = td
    env["CARGO_NET_OFFLINE"] = "true"
    env.pop("RUSTC_WRAPPER", None)
    cmd = ["cargo", "+nightly", "check", "--offline", "-j", "16"]
    if all_targets:
        cmd.append("--all-targets")
    if profile == "release":
        cmd.append("--release")
    try:
        p = subprocess.run(cmd, cwd=repo, env=env, capture_output=True, text=True)
        ok = p.returncode == 0
        log = p.stdout + p.stderr
    finally:
        shutil.rmtree(td, ignore_errors=True)
    return ok, log


def extract(repo="/repo", profile="dev", all_targets=False, quiet=False, crates="customasm", need=("lib", "bin")):
    """Return directory with facts for the current tree of `repo` (cached)."""
    key = tree_hash(repo, extra="%s|%s|%s|%s" % (profile, all_targets, crates, os.path.abspath(repo)))
    os.makedirs(CACHE, exist_ok=True)
    d = os.path.join(CACHE, key)
    lock = open(os.path.join(CACHE, ".lock-" + key), "w")
    fcntl.flock(lock, fcntl.LOCK_EX)
    try:
        if os.path.exists(os.path.join(d, "DONE")):
            return d
        if os.path.exists(d):
            shutil.rmtree(d)
        tmp = tempfile.mkdtemp(prefix="facts-", dir=CACHE)
        t0 = time.time()
        ok, log = run_driver(repo, tmp, profile=profile, all_targets=all_targets, crates=crates)
        if not ok:
            shutil.rmtree(tmp, ignore_errors=True)
            raise ExtractionError("fact extraction failed (does /repo compile?):\n" + log[-4000:])
        files = [f for f in os.listdir(tmp) if f.endswith(".json")]
        kinds = set()
        for f in files:
            kinds.add(f.split("-")[1] + ("-test" if "-test-" in f else ""))
        if any(k not in kinds for k in need):
            shutil.rmtree(tmp, ignore_errors=True)
            raise ExtractionError("fact extraction produced %r, expected %r facts\n%s" % (files, need, log[-2000:]))
        with open(os.path.join(tmp, "DONE"), "w") as fh:
            fh.write("%.1f\n" % (time.time() - t0))
        os.rename(tmp, d)
        # keep cache small: drop all but the newest entries (never the temporary ones of parallel runs)
        def _mt(e):
            try:
                return os.path.getmtime(os.path.join(CACHE, e))
            except OSError:
                return 0
        ents = sorted((e for e in os.listdir(CACHE) if os.path.isdir(os.path.join(CACHE, e)) and not e.startswith("facts-")), key=_mt)
        for e in ents[:-40]:
            shutil.rmtree(os.path.join(CACHE, e), ignore_errors=True)
        return d
    finally:
        fcntl.flock(lock, fcntl.LOCK_UN)
        lock.close()
        try:
            os.unlink(os.path.join(CACHE, ".lock-" + key))
        except OSError:
            pass


class ExtractionError(Exception):
    pass


def load_dir(d):
    """Load all fact files of a directory -> list of crate dicts."""
    crates = []
    for f in sorted(os.listdir(d)):
        if f.endswith(".json"):
            with open(os.path.join(d, f)) as fh:
                crates.append(json.load(fh))
    return crates
