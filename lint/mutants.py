#!/usr/bin/env python3
"""Both-ways self test: apply each seeded defect of /verif/mutants/*.json to a scratch copy of /repo
(outside /repo and /verif, removed immediately), run the property's check against the copy and
require that it reports a violation naming the expected construct.

usage: mutants.py [--prop Cxx] [--name substr] [--jobs N] [--list]
A mutant entry: {"name","property","file","old","new","expect"} — `old` must occur exactly once in `file`;
`expect` is a substring that must appear in the key/detail of a reported violation (also other properties
may be listed in "also": [..] to assert that they catch it too)."""
import argparse, json, os, shutil, subprocess, sys, tempfile
from concurrent.futures import ThreadPoolExecutor

VERIF = os.path.dirname(os.path.dirname(os.path.abspath(__file__)))


def load():
    out = []
    d = os.path.join(VERIF, "mutants")
    for f in sorted(os.listdir(d)):
        if f.endswith(".json"):
            for m in json.load(open(os.path.join(d, f))):
                m["_src"] = f
                out.append(m)
    return out


def run_one(m, repo="/repo", keep=False):
    tmp = tempfile.mkdtemp(prefix="casm-mutant-")
    try:
        subprocess.run(["rsync", "-a", "--exclude", "target", "--exclude", ".git", repo + "/", tmp + "/"], check=True)
        edits = m.get("edits") or [{"file": m["file"], "old": m["old"], "new": m["new"]}]
        for e in edits:
            p = os.path.join(tmp, e["file"])
            s = open(p, encoding="utf-8").read()
            if s.count(e["old"]) != 1:
                return (m["name"], "skipped", "`old` text occurs %d times in %s" % (s.count(e["old"]), e["file"]))
            open(p, "w", encoding="utf-8").write(s.replace(e["old"], e["new"]))
        res = []
        for prop in [m["property"]] + m.get("also", []):
            env = dict(os.environ)
            env["CASM_EVIDENCE_DIR"] = os.path.join(tmp, "_evidence")
            pr = subprocess.run([sys.executable, os.path.join(VERIF, "lint", "check.py"), prop, "--repo", tmp, "--no-evidence"],
                                capture_output=True, text=True, env=env)
            out = pr.stdout + pr.stderr
            if pr.returncode == 2:
                return (m["name"], "error", "check could not run (mutant does not compile?): " + out[-600:])
            fired = pr.returncode == 1 and "VIOLATION property=%s" % prop in out
            named = (m.get("expect") or "") in out
            if not fired:
                res.append("%s: NOT DETECTED" % prop)
            elif not named:
                res.append("%s: detected but `%s` not named:\n%s" % (prop, m.get("expect"), out[:800]))
        if res:
            return (m["name"], "missed", "; ".join(res))
        return (m["name"], "detected", "")
    finally:
        if not keep:
            shutil.rmtree(tmp, ignore_errors=True)


def main():
    ap = argparse.ArgumentParser()
    ap.add_argument("--prop")
    ap.add_argument("--name")
    ap.add_argument("--jobs", type=int, default=8)
    ap.add_argument("--list", action="store_true")
    a = ap.parse_args()
    ms = load()
    if a.prop:
        ms = [m for m in ms if m["property"] == a.prop or a.prop in m.get("also", [])]
    if a.name:
        ms = [m for m in ms if a.name in m["name"]]
    if a.list:
        for m in ms:
            print(m["property"], m["name"])
        return 0
    bad = 0
    with ThreadPoolExecutor(max_workers=a.jobs) as ex:
        for name, status, info in ex.map(run_one, ms):
            print("%-9s %s %s" % (status, name, info))
            if status in ("missed", "error"):
                bad += 1
    print("%d mutants, %d not detected/error" % (len(ms), bad))
    return 1 if bad else 0


if __name__ == "__main__":
    sys.exit(main())
