"""TAB — tables that must agree (C18 command line, C11 format dispatch, C05 operators ...)."""
import os, re
from mir import (peel, op_place, op_local, const_int, const_str, describe_origin, closure_of_origin, fn_uses, natural_loop)
import tables as T


def cstr(f, op):
    """string constant an operand originates from (through refs/derefs/copies)"""
    s = const_str(op)
    if s is not None:
        return s
    o = peel(f.origin_op(op))
    if o[0] == "const":
        return const_str(o[1])
    return None


# ---------------------------------------------------------------------------
# usage_help.md parser

def parse_usage(repo):
    p = os.path.join(repo, "src", "usage_help.md")
    txt = open(p, encoding="utf-8").read()
    opts = []          # dict(short, long, arg)
    formats = {}       # name -> dict(params=[(name, default)], same_as=(name, [(p,v)]) or None, supports={param:[..]})
    section = None
    last_fmt = None
    default_iters = None
    last_opt = None
    for line in txt.splitlines():
        if line.startswith("## "):
            section = line[3:].strip().rstrip(":")
            continue
        m = re.match(r"^\* `([^`]*)`", line)
        if section in ("Global Options", "Output Options") and m:
            spec = m.group(1)
            short = None
            long_ = None
            arg = False
            for part in [x.strip() for x in spec.split(",")]:
                mm = re.match(r"^--([A-Za-z0-9-]+)(=.*)?$", part)
                if mm:
                    long_ = mm.group(1)
                    arg = arg or bool(mm.group(2))
                    continue
                mm = re.match(r"^-([A-Za-z])(.*)$", part)
                if mm:
                    short = mm.group(1)
                    arg = arg or bool(mm.group(2))
            last_opt = {"short": short, "long": long_, "arg": arg, "section": section}
            # the two -d lines describe the same option
            if not any(o["long"] == long_ and o["short"] == short for o in opts):
                opts.append(last_opt)
            continue
        if section in ("Global Options", "Output Options"):
            mm = re.search(r"\(Default: ([^)]*)\)", line)
            if mm and last_opt is not None:
                last_opt["default"] = mm.group(1).strip()
            continue
        if section == "Formats":
            if m:
                spec = m.group(1).split(",")
                name = spec[0]
                params = []
                for ps in spec[1:]:
                    k, _, v = ps.partition(":")
                    params.append((k, v))
                formats[name] = {"params": params, "same_as": None, "supports": {}}
                last_fmt = name
                continue
            mm = re.search(r"Same as: `([^`]*)`", line)
            if mm and last_fmt:
                spec = mm.group(1).split(",")
                formats[last_fmt]["same_as"] = (spec[0], [tuple(x.split(":", 1)) for x in spec[1:]])
                continue
            mm = re.search(r"Supports (\w+) ((?:\d+(?:, | and |,| or )?)+)", line)
            if mm and last_fmt:
                formats[last_fmt]["supports"][mm.group(1)] = sorted(int(x) for x in re.findall(r"\d+", mm.group(2)))
    return {"opts": opts, "formats": formats}


# ---------------------------------------------------------------------------
# code side

def format_table(run, f):
    """parse_output_format: literal -> (variant, {field: ('const', n) | ('param', name, default, validator)})"""
    prog = run.prog
    arms = [a for a in T.str_eq_arms(f)]
    out = {}
    # the scrutinee of the big chain: most common scrutinee
    from collections import Counter
    sc = Counter(a["scrut"] for a in arms)
    if not sc:
        return out
    main = sc.most_common(1)[0][0]
    for a in arms:
        if a["scrut"] != main:
            continue
        region = T.dominated_region(f, a["true"], a["sw"])
        aggs = T.region_aggregates(f, region, "OutputFormat")
        if len(aggs) != 1:
            out[a["lit"]] = ("?", {}, a["line"])
            continue
        b, st = aggs[0]
        rv = st["rv"]
        fields = {}
        for name, op in zip(rv["fields"], rv["ops"]):
            ci = const_int(op)
            if ci is not None:
                fields[name] = ("const", ci)
                continue
            o = f.origin_op(op)
            # value of `closure(...)?`  -> place(Continue.0) of Try::branch(call)
            seen = 0
            while seen < 10:
                seen += 1
                if o[0] == "place":
                    o = o[1]
                    continue
                if o[0] == "call" and (o[1].get("callee") or "").endswith("Try::branch"):
                    o = f.origin_op(o[1]["args"][0])
                    continue
                break
            if o[0] == "call":
                t = o[1]
                tg, _ = prog.call_targets(f, t)
                # args: (&mut closure, (name, default, validator))
                tup = f.origin_op(t["args"][1]) if len(t["args"]) > 1 else None
                if tup is not None and tup[0] == "agg" and tup[1]["agg"] == "tuple" and len(tup[1]["ops"]) == 3:
                    pname = cstr(f, tup[1]["ops"][0])
                    pdef = const_int(tup[1]["ops"][1])
                    vcl = closure_of_origin(f.origin_op(tup[1]["ops"][2]))
                    fields[name] = ("param", pname, pdef, T.validator_set(prog, vcl) if vcl else ("unknown",), tg[0] if tg else None)
                    continue
            fields[name] = ("unknown", describe_origin(f, o))
        out[a["lit"]] = (rv["variant"], fields, a["line"])
    return out


def getopts_registrations(f):
    """make_opts: list of dict(short,long,hasarg,occur)"""
    regs = []
    for bi, t in f.calls():
        c = t.get("callee") or ""
        m = re.match(r"^getopts::Options::(optopt|opt|optflag|optflagopt|optmulti|optflagmulti|reqopt)$", c)
        if not m:
            continue
        kind = m.group(1)
        short = cstr(f, t["args"][1])
        long_ = cstr(f, t["args"][2])
        hasarg = {"optopt": "Yes", "optflag": "No", "optflagopt": "Maybe", "optmulti": "Yes", "optflagmulti": "No", "reqopt": "Yes"}.get(kind)
        occur = {"optmulti": "Multi", "optflagmulti": "Multi", "reqopt": "Req"}.get(kind, "Optional")
        if kind == "opt":
            for idx, key in ((5, "hasarg"), (6, "occur")):
                o = f.origin_op(t["args"][idx])
                v = o[1]["variant"] if o[0] == "agg" else "?"
                if key == "hasarg":
                    hasarg = v
                else:
                    occur = v
        regs.append({"short": short or None, "long": long_ or None, "hasarg": hasarg, "occur": occur, "line": t["span"]["line"]})
    return regs


def option_reads(f):
    """parse_command: list of (method, key, bb, dest_local)"""
    out = []
    for bi, t in f.calls():
        c = t.get("callee") or ""
        m = re.match(r"^getopts::Matches::(opt_str|opt_present|opt_strs|opt_count|opt_default|opt_defined|opt_get|opt_get_default|opt_positions|opts_present|opts_str)$", c)
        if m:
            out.append((m.group(1), cstr(f, t["args"][1]), bi, t["dest"]["l"], t["span"]["line"]))
    return out


def field_stores(f, field_path):
    """statements assigning to a place ending in the given field-name path, e.g. ['opts','max_iterations']"""
    out = []
    for bi, si, st in f.stmts():
        if st["k"] != "assign":
            continue
        names = [pr["name"] for pr in st["place"]["p"] if isinstance(pr, dict) and "f" in pr]
        if names[-len(field_path):] == field_path and len(names) >= len(field_path):
            out.append((bi, si, st))
    return out


def value_depends_on(f, op, target_local, depth=0, seen=None):
    """does operand (transitively through simple rvalues and calls' arguments) depend on target_local?"""
    seen = seen if seen is not None else set()
    p = op_place(op)
    if p is None:
        return False
    l = p["l"]
    if l == target_local:
        return True
    if l in seen or depth > 25:
        return False
    seen.add(l)
    for d in f.full_defs(l) + f.partial_defs(l):
        if d[0] == "call":
            for a in d[2]["args"]:
                if value_depends_on(f, a, target_local, depth + 1, seen):
                    return True
        else:
            st = d[3]
            if st["k"] != "assign":
                continue
            rv = st["rv"]
            from mir import rv_operands
            for o in rv_operands(rv):
                if value_depends_on(f, o, target_local, depth + 1, seen):
                    return True
            if "place" in rv and rv["place"]["l"] != l:
                if value_depends_on(f, {"copy": rv["place"]}, target_local, depth + 1, seen):
                    return True
    return False


def tab_cli(run):
    R = "TAB-cli"
    prog = run.prog
    usage = parse_usage(run.repo)
    spec = run.table("cli")
    fmts = usage["formats"]
    run.floor(R, "documented formats", len(fmts), 22)
    run.floor(R, "documented options", len(usage["opts"]), 12)
    pof = run.anchor(R, "driver::parse_output_format")
    mk = run.anchor(R, "driver::make_opts")
    pc = run.anchor(R, "driver::parse_command")
    if not (pof and mk and pc):
        return
    table = format_table(run, pof)
    run.floor(R, "format names accepted by parse_output_format", len(table), 24)
    run.count("formats_documented", len(fmts))
    run.count("formats_accepted", len(table))

    # 1. every documented format is accepted, with the documented parameters and defaults
    for name, d in sorted(fmts.items()):
        key = "%s|format|%s" % (R, name)
        if name not in table:
            run.violation(R, key, "src/usage_help.md", "format `%s` is listed in the usage text but parse_output_format has no arm for it" % name)
            continue
        variant, fields, line = table[name]
        loc = "%s:%d" % (pof.file, line)
        if variant == "?":
            run.violation(R, key, loc, "format `%s`: arm does not build exactly one OutputFormat value" % name)
            continue
        params = {f[1]: f for f in fields.values() if f[0] == "param"}
        doc_params = dict(d["params"])
        if d["same_as"]:
            tgt, pv = d["same_as"]
            # alias: the outcome must equal the target format with these parameter values
            if tgt not in table:
                run.violation(R, key, loc, "`%s` is documented as same as `%s`, which is not accepted" % (name, tgt))
                continue
            tvar, tfields, _ = table[tgt]
            want = {}
            for fname, fv in tfields.items():
                if fv[0] == "param":
                    val = dict(pv).get(fv[1])
                    want[fname] = int(val) if val is not None else fv[2]
                elif fv[0] == "const":
                    want[fname] = fv[1]
            got = {fname: fv[1] for fname, fv in fields.items() if fv[0] == "const"}
            ok = (variant == tvar and got == want and len(got) == len(fields))
            run.check(ok, R, key, loc,
                      "`%s` = %s%s as documented (same as `%s,%s`)" % (name, variant, got, tgt, ",".join("%s:%s" % x for x in pv)),
                      "`%s` is documented as same as `%s,%s` = %s%s but the code builds %s%s" % (name, tgt, ",".join("%s:%s" % x for x in pv), tvar, want, variant, {k: v for k, v in fields.items()}))
            continue
        ok = set(params) == set(doc_params)
        bad = []
        if not ok:
            bad.append("parameters in code %s, documented %s" % (sorted(params), sorted(doc_params)))
        for pn, dv in doc_params.items():
            if pn in params and params[pn][2] is None:
                bad.append("default of `%s` is not a constant in the code (it depends on other input), the usage text documents the fixed default %s" % (pn, dv))
            elif pn in params and str(params[pn][2]) != dv:
                bad.append("default of `%s` is %s in code, %s in the usage text" % (pn, params[pn][2], dv))
        run.check(not bad, R, key, loc,
                  "`%s` -> %s with parameters %s as documented" % (name, variant, {k: v[2] for k, v in params.items()}),
                  "format `%s`: %s" % (name, "; ".join(bad)))
        # documented value sets ("Supports base 2 and 16")
        for pn, vals in d["supports"].items():
            if pn in params:
                v = params[pn][3]
                run.check(v == ("set", vals), R, key + "|supports|" + pn, loc,
                          "`%s,%s` accepts exactly %s as documented" % (name, pn, vals),
                          "`%s,%s`: usage text says values %s are supported, the validator is %s" % (name, pn, vals, v))
    # 1b. parameter validators equal the audited table (values outside are rejected)
    for name, (variant, fields, line) in sorted(table.items()):
        for fname, fv in fields.items():
            if fv[0] != "param":
                run.check(fv[0] == "const", R, "%s|field|%s.%s" % (R, name, fname), "%s:%d" % (pof.file, line),
                          "`%s`: field %s is the constant %s" % (name, fname, fv[1]),
                          "`%s`: field %s of %s comes from an unrecognised source (%s)" % (name, fname, variant, fv[1:]))
                continue
            want = spec["validators"].get("%s.%s" % (name, fv[1]))
            got = list(fv[3])
            run.check(want == got, R, "%s|validator|%s.%s" % (R, name, fv[1]), "%s:%d" % (pof.file, line),
                      "`%s,%s:` validated by %s (default %s)" % (name, fv[1], got, fv[2]),
                      "`%s,%s:` validator is %s, audited table says %s" % (name, fv[1], got, want))
            # the field it fills must carry the parameter's meaning
            wantf = spec["param_field"].get(fv[1])
            run.check(wantf == fname, R, "%s|param-field|%s.%s" % (R, name, fv[1]), "%s:%d" % (pof.file, line),
                      "`%s,%s:` fills field `%s`" % (name, fv[1], fname),
                      "`%s,%s:` fills field `%s`, expected `%s`" % (name, fv[1], fname, wantf))
            # default must pass its own validator
            v = fv[3]
            okd = fv[2] is not None and ((v[0] == "set" and fv[2] in v[1]) or (v[0] == "gt" and fv[2] > v[1]) or v[0] not in ("set", "gt"))
            run.check(okd, R, "%s|default-valid|%s.%s" % (R, name, fv[1]), "%s:%d" % (pof.file, line),
                      "default %s of `%s,%s` satisfies its validator" % (fv[2], name, fv[1]),
                      "default %s of `%s,%s` is rejected by its own validator %s" % (fv[2], name, fv[1], v))
    # 1c. the closure that fetches a parameter: lookup by the given name, parse, validate, remove on success, error otherwise
    tab_cli_get_arg(run, pof)
    # 1d. unknown format name -> error; leftover parameters -> error
    tab_cli_rejections(run, pof)
    tab_cli_params_no_duplicate(run, pof)

    # 2. options: documented <-> registered <-> read
    regs = getopts_registrations(mk)
    run.floor(R, "getopts registrations", len(regs), 12)
    reads = option_reads(pc)
    run.floor(R, "option reads in parse_command", len(reads), 13)
    regkeys = {}
    for r in regs:
        for k in (r["short"], r["long"]):
            if k:
                regkeys[k] = r
    for o in usage["opts"]:
        key = "%s|option|%s" % (R, o["long"] or o["short"])
        r = regkeys.get(o["long"]) if o["long"] else regkeys.get(o["short"])
        if r is None:
            run.violation(R, key, "src/usage_help.md", "option --%s is documented but not registered in make_opts" % o["long"])
            continue
        bad = []
        if (o["short"] or None) != r["short"]:
            bad.append("short form documented `-%s`, registered `%s`" % (o["short"], r["short"]))
        if o["arg"] and r["hasarg"] == "No":
            bad.append("documented with a value but registered as a flag")
        if not o["arg"] and r["hasarg"] == "Yes":
            bad.append("documented as a flag but registered as requiring a value")
        run.check(not bad, R, key, "%s:%d" % (mk.file, r["line"]),
                  "option -%s/--%s registered as documented (HasArg::%s)" % (r["short"], r["long"], r["hasarg"]),
                  "option --%s: %s" % (o["long"], "; ".join(bad)))
    doc_longs = set(o["long"] for o in usage["opts"])
    for r in regs:
        run.check(r["long"] in doc_longs, R, "%s|registered-documented|%s" % (R, r["long"]), "%s:%d" % (mk.file, r["line"]),
                  "registered option --%s is documented" % r["long"], "registered option --%s is missing from the usage text" % r["long"])
    read_keys = set()
    for meth, k, bi, dl, line in reads:
        read_keys.add(k)
        run.check(k in regkeys, R, "%s|read-registered|%s" % (R, k), "%s:%d" % (pc.file, line),
                  "parse_command reads option `%s`, which is registered" % k,
                  "parse_command reads option `%s`, which make_opts does not register: getopts panics on an undefined option name" % k)
    for r in regs:
        used = (r["short"] in read_keys) or (r["long"] in read_keys)
        run.check(used, R, "%s|registered-read|%s" % (R, r["long"]), "%s:%d" % (mk.file, r["line"]),
                  "registered option --%s is read by parse_command" % r["long"],
                  "registered option --%s is never read by parse_command (accepted and ignored)" % r["long"])

    # 3. each option key drives the documented setting (audited field <- key table)
    for ent in spec["option_effects"]:
        keyname, field, how = ent["key"], ent["field"], ent["how"]
        key = "%s|effect|%s" % (R, keyname)
        rd = [r for r in reads if r[1] == keyname]
        if not rd:
            run.violation(R, key, pc.loc(), "option `%s` is not read in parse_command" % keyname)
            continue
        stores = field_stores(pc, field)
        # ignore the struct literal initialisation (aggregate) — only field stores are listed
        good = False
        why = "no store to `%s` depends on option `%s`" % (".".join(field), keyname)
        for bi, si, st in stores:
            rv = st["rv"]
            for (meth, k, rb, dl, line) in rd:
                if how == "or":
                    if rv["k"] == "binop" and rv["op"] == "BitOr" and _same_field(rv["l"], st["place"]) and op_local(rv["r"]) == dl:
                        good = True
                    elif rv["k"] == "binop" and rv["op"] == "BitOr" and _same_field(rv["r"], st["place"]) and op_local(rv["l"]) == dl:
                        good = True
                    else:
                        why = "`%s` is not updated as `field |= opt_present(\"%s\")`, so a later group could reset it" % (".".join(field), keyname)
                elif how == "and-not":
                    if rv["k"] == "binop" and rv["op"] == "BitAnd" and _same_field(rv["l"], st["place"]):
                        o = pc.origin_op(rv["r"])
                        if o[0] == "unop" and o[1]["op"] == "Not" and op_local(o[1]["x"]) == dl:
                            good = True
                    if not good:
                        why = "`%s` is not updated as `field &= !opt_present(\"%s\")`" % (".".join(field), keyname)
                elif how == "value":
                    if value_depends_on(pc, _rv_first_operand(rv), dl):
                        good = True
                elif how == "control":
                    if pc.dominates(rb, bi) and rb != bi:
                        good = True
                elif how == "value-if-present":
                    # the store may only happen when the option was given in THIS group (a later group without it must not reset it)
                    if (value_depends_on(pc, _rv_first_operand(rv), dl) or pc.dominates(rb, bi)) and _behind_presence(pc, dl, bi):
                        good = True
                    else:
                        why = "`%s` is assigned on a path where option `%s` is absent in the group (or not from its value): a later group without the option would reset the setting" % (".".join(field), keyname)
        run.check(good, R, key, pc.loc(),
                  "option `%s` drives `%s` (%s)" % (keyname, ".".join(field), how), "option `%s`: %s" % (keyname, why))
    # 3b. values given to callee parsers
    for ent in spec["option_calls"]:
        keyname, callee = ent["key"], ent["callee"]
        rd = [r for r in reads if r[1] == keyname]
        good = False
        for bi, t in pc.calls():
            if (t.get("resolved") or "") == callee:
                for (meth, k, rb, dl, line) in rd:
                    if any(value_depends_on(pc, a, dl) for a in t["args"]):
                        good = True
        run.check(good, R, "%s|effect-call|%s" % (R, keyname), pc.loc(),
                  "value of option `%s` is parsed by %s" % (keyname, callee),
                  "value of option `%s` does not reach %s" % (keyname, callee))
    # 3c. --iters: default as documented, 0 and non-numbers rejected
    tab_cli_iters(run, pc, usage)
    # 3d. --color on/off table
    tab_cli_color(run, pc)
    tab_cli_color_everywhere(run)
    # 4. default format and derived file names
    tab_cli_defaults(run, pc, table)
    tab_cli_derive(run)
    tab_cli_derive_name(run)
    tab_cli_derive_when(run, pc)
    tab_cli_distinct_outputs(run, pc)
    tab_cli_derive_not_any_input(run, pc)
    tab_cli_missing_values(run, pc)
    # 5. print xor write per group
    tab_cli_groups(run)


def _behind_presence(f, opt_local, block):
    """is `block` behind the Some / true edge of a test of the Option<String> / bool held in opt_local?"""
    for b in f.dominators().get(block, ()):
        t = f.blocks[b]["term"]
        if t["k"] != "switch" or b == block:
            continue
        dl = op_local(t["discr"])
        if dl is None:
            continue
        o = f.origin_local(dl)
        src = None
        if o[0] == "discr":
            src = peel(o[1])
            if src[0] == "multi":
                src_l = src[1]
            elif src[0] == "call" and not src[1]["dest"]["p"]:
                src_l = src[1]["dest"]["l"]
            else:
                continue
            if src_l != opt_local and f.copy_root(src_l) != opt_local:
                continue
            vm = o[2].get("variants") or {}
            listed = {v: tg for v, tg in t["targets"]}
            for v, name in vm.items():
                if name == "Some":
                    tg = listed.get(v, t["otherwise"])
                    if f.edge_dominates(b, tg, block):
                        return True
        elif f.copy_root(dl) == opt_local and f.local_ty(opt_local) == "bool":
            if f.edge_dominates(b, t["otherwise"], block):
                return True
    return False


def _same_field(op, place):
    p = op_place(op)
    return p is not None and p["l"] == place["l"] and [x.get("name") if isinstance(x, dict) else x for x in p["p"]] == [x.get("name") if isinstance(x, dict) else x for x in place["p"]]


def _rv_first_operand(rv):
    for k in ("op", "l", "x"):
        if k in rv and isinstance(rv[k], dict):
            return rv[k]
    if rv.get("ops"):
        return rv["ops"][0]
    return {"const": "?"}


def err_return_in_region(f, region):
    """does the region contain an assignment of Err to the return place (or a from_residual into it)?"""
    for b in region:
        for st in f.blocks[b]["stmts"]:
            if st["k"] == "assign" and st["place"]["l"] == 0 and st["rv"]["k"] == "agg" and st["rv"].get("variant") == "Err":
                return True
    return False


def report_error_in_region(f, region):
    for b in region:
        t = f.blocks[b]["term"]
        if t["k"] == "call" and re.match(r"^diagn::report::Report::error", t.get("resolved") or t.get("callee") or ""):
            return True
        if t["k"] == "call" and re.match(r"^diagn::Report::error", t.get("callee") or ""):
            return True
    return False


def ok_return_blocks(f):
    out = []
    for bi, si, st in f.stmts():
        if st["k"] == "assign" and st["place"]["l"] == 0 and not st["place"]["p"] and st["rv"]["k"] == "agg" and st["rv"].get("variant") == "Ok":
            out.append(bi)
    return out


def tab_cli_get_arg(run, pof):
    R = "TAB-cli"
    prog = run.prog
    cl = [g for g in prog.real_fns() if g.kind == "Closure" and g.raw.get("parent") == pof.id]
    getter = None
    for g in cl:
        if any((t.get("callee") or "").startswith("std::collections::HashMap") and (t.get("callee") or "").endswith("::get") for _, t in g.calls()):
            getter = g
    if getter is None:
        run.violation(R, R + "|get_arg|anchor", pof.loc(), "mechanism not found: closure of parse_output_format that looks a parameter up in the map")
        return
    g = getter
    calls = {(t.get("callee") or ""): (bi, t) for bi, t in g.calls()}
    has_parse = any("str>::parse" in c or c.endswith("str::<impl str>::parse") for c in calls)
    has_remove = any(c.endswith("::remove") for c in calls)
    # the validator is called (indirect dyn call) and the Ok(v) return depends on it
    vcall = [(bi, t) for bi, t in g.calls() if t.get("resolved_kind") == "virtual" or t.get("callee") is None or "FnMut" in (t.get("callee") or "")]
    filt = None
    if not vcall:
        # `parse().ok().filter(|v| validate(*v))`: the validator runs inside the filter's closure, `Some` = it said yes
        from mir import closure_of_origin
        from rules_sym import option_tests, deep as _deep2
        for h in prog.real_fns():
            if h.kind == "Closure" and h.id.startswith(g.id + "::{closure"):
                inner = [(bi, t) for bi, t in h.calls() if t.get("resolved_kind") == "virtual" or t.get("callee") is None or "FnMut" in (t.get("callee") or "")]
                if len(inner) == 1 and inner[0][1]["dest"]["l"] == 0 and not inner[0][1]["dest"]["p"]:
                    for bi, t in g.calls():
                        if (t.get("callee") or "").endswith("Option::<T>::filter") and closure_of_origin(g.origin_op(t["args"][1])) == h.id:
                            tests = option_tests(g, lambda d: d.startswith("Option::filter("))
                            if tests:
                                filt = tests[0]
                                vcall = inner
    run.check(has_parse, R, R + "|get_arg|parse", g.loc(), "parameter values are parsed as numbers", "parameter getter does not parse the value with str::parse")
    run.check(bool(vcall), R, R + "|get_arg|validate", g.loc(), "parameter getter calls the validator", "parameter getter never calls the validator: out-of-set values would be accepted")
    run.check(has_remove, R, R + "|get_arg|remove", g.loc(), "an accepted parameter is removed from the leftover map", "accepted parameters are not removed from the map: the leftover check would reject valid parameters (or is not driven by consumption)")
    if vcall:
        vb, vt = vcall[0]
        sw = T.bool_test(g, vt) if filt is None else (filt[1], filt[2], filt[0])
        ok = False
        if sw:
            true_region = T.dominated_region(g, sw[0], sw[2])
            false_region = T.dominated_region(g, sw[1], sw[2])
            oks = ok_return_blocks(g)
            # the Ok carrying the parsed value lies in the validator's true region only
            val_oks = [b for b in oks if b in true_region]
            bad_oks = [b for b in oks if b in false_region]
            ok = bool(val_oks) and not bad_oks
        run.check(ok, R, R + "|get_arg|validated-ok", g.loc(),
                  "the parsed value is returned only on the validator's true edge",
                  "the parsed value can be returned without passing the validator's true edge")
    # failure of parse/validate: an error is reported and Err returned
    run.check(report_error_in_region(g, g.reachable()) and err_return_in_region(g, g.reachable()), R, R + "|get_arg|reject", g.loc(),
              "invalid parameter values are reported and rejected", "parameter getter has no error+Err exit for invalid values")
    # default returned when the key is absent: Ok(def) where def is the closure's 2nd tuple field
    # (checked through the param/default agreement above)


def tab_cli_rejections(run, pof):
    R = "TAB-cli"
    f = pof
    arms = T.str_eq_arms(f)
    from collections import Counter
    sc = Counter(a["scrut"] for a in arms).most_common(1)
    main = sc[0][0] if sc else None
    chain = [a for a in arms if a["scrut"] == main]
    # unknown name: the block reached when all comparisons fail
    true_targets = set(a["true"] for a in chain)
    eq_blocks = set(a["bb"] for a in chain)
    fall = [a["false"] for a in chain if a["false"] not in eq_blocks and not _leads_to_eq(f, a["false"], eq_blocks)]
    okf = False
    for fb in fall:
        reg = T.dominated_region(f, fb)
        if report_error_in_region(f, reg) and err_return_in_region(f, reg) and not any(b in reg for b in ok_return_blocks(f)):
            okf = True
    run.check(okf and len(fall) == 1, R, R + "|unknown-format-rejected", f.loc(),
              "a name matching none of the %d literals is reported and rejected" % len(chain),
              "the fall-through of the format-name chain does not end in error+Err (unknown names accepted?)")
    # leftover parameters: after the format is chosen there is a test reading the parameter map whose one edge is error+Err,
    # and Ok(format) is only reachable past it
    params_local = None
    for bi, t in f.calls():
        if (t.get("callee") or "").startswith("std::collections::HashMap") and (t.get("callee") or "").endswith("::new") and not t["dest"]["p"]:
            params_local = t["dest"]["l"]
    if params_local is None:
        # the map is collected by a helper of the driver and handed back: the named local of that type
        for l_ in range(f.arg_count + 1, len(f.locals)):
            if re.match(r"^std::collections::HashMap<std::string::String, std::string::String", f.local_ty(l_) or "") and f.local_name(l_) not in (None, "val", "residual") \
                    and params_local is None:
                params_local = l_
    if params_local is None:
        run.violation(R, R + "|leftover|anchor", f.loc(), "mechanism not found: parameter map in parse_output_format")
        return
    agg_blocks = [b for b, st in T.region_aggregates(f, f.reachable(), "OutputFormat")]
    after = set()
    for b in agg_blocks:
        after |= _reach_from(f, b)
    found = False
    for bi, t in f.calls():
        if bi not in after:
            continue
        c = t.get("callee") or ""
        if not re.search(r"HashMap::<.*>::(contains_key|is_empty|len|get|iter|keys|drain|remove)$|IntoIterator::into_iter$", c):
            continue
        if not any(_op_refers(f, a, params_local) for a in t["args"]):
            continue
        # some successor region holds error + Err
        reach = _reach_from(f, bi)
        for b2 in reach:
            tt = f.blocks[b2]["term"]
            if tt["k"] == "switch":
                for s in f.succs(b2):
                    reg = T.dominated_region(f, s)
                    if report_error_in_region(f, reg) and err_return_in_region(f, reg) and not any(b in reg for b in ok_return_blocks(f)):
                        found = True
    run.check(found, R, R + "|leftover-params-rejected", f.loc(),
              "after the format is chosen, parameters left in the map lead to error+Err",
              "no test of the leftover parameter map with an error+Err exit follows the format selection: unknown parameters would be accepted silently")


def _leads_to_eq(f, b, eq_blocks):
    # follow straight-line gotos
    seen = 0
    while seen < 6:
        if b in eq_blocks:
            return True
        s = f.succs(b)
        if len(s) != 1:
            return False
        b = s[0]
        seen += 1
    return False


def _reach_from(f, b):
    seen = set()
    work = [b]
    while work:
        x = work.pop()
        if x in seen:
            continue
        seen.add(x)
        work.extend(f.succs(x))
    return seen


def _op_refers(f, op, local):
    p = op_place(op)
    if p is None:
        return False
    if p["l"] == local:
        return True
    # a reference taken to the local (`&map`), followed through plain copies of that reference
    l_, hops = p["l"], 0
    while hops < 4:
        hops += 1
        ds_ = f.full_defs(l_)
        if len(ds_) != 1 or ds_[0][0] != "stmt" or ds_[0][3]["k"] != "assign":
            break
        rv_ = ds_[0][3]["rv"]
        if rv_["k"] == "ref" and rv_.get("place", {}).get("l") == local:
            return True
        if rv_["k"] == "use" and op_place(rv_["op"]) is not None and not op_place(rv_["op"])["p"]:
            l_ = op_place(rv_["op"])["l"]
            if l_ == local:
                return True
            continue
        break
    o = f.origin_op(op)
    n = 0
    while n < 10:
        n += 1
        if o[0] in ("ref", "cast"):
            o = o[1]
        elif o[0] == "place":
            o = o[1]
        elif o[0] == "multi" and o[1] == local:
            return True
        elif o[0] == "call" and not o[1]["dest"]["p"] and o[1]["dest"]["l"] == local:
            return True
        else:
            break
    return False


def param_roles(prog, g, _depth=0):
    """what each parameter of a formatter is used as, recognised from its uses (not from its name):
    base = the radix whose digit width is `(p - 1).count_ones()`; digits_per_group = a modulus of digit positions;
    address_unit = what bit positions are divided by; self / fileserver by type"""
    from rules_sym import deep
    fam = [g] + [h for h in prog.real_fns() if h.kind == "Closure" and (h.raw.get("root") == g.id)]
    roles = []
    for i in range(1, g.arg_count + 1):
        ty = g.local_ty(i) or ""
        if i == 1 and "BitVec" in ty:
            roles.append("self")
            continue
        if "FileServer" in ty:
            roles.append("fileserver")
            continue
        me = "P%d" % i
        nm = g.local_name(i)
        role = set()
        for h in fam:
            tok = me if h is g else ("upvar:%s" % nm)
            for bi, t in h.calls():
                if (t.get("callee") or "").endswith("count_ones") and deep(h, t["args"][0], 4) == "(%s Sub 1_usize)" % tok:
                    role.add("base")
            for bi, si, st in h.stmts():
                if st["k"] == "assign" and st["rv"]["k"] == "binop":
                    if st["rv"]["op"] == "Rem" and deep(h, st["rv"]["r"], 3) == tok:
                        # a bit position of the output taken modulo the parameter: rounding to units; a digit index: grouping
                        role.add("unit_rem" if ".offset" in deep(h, st["rv"]["l"], 6) else "digits_per_group")
                    if st["rv"]["op"] == "Div" and deep(h, st["rv"]["r"], 3) == tok:
                        role.add("div")
        # a parameter handed unchanged to a private helper of the formatter module takes the role it has there
        if "base" not in role and "div" not in role and _depth < 3:
            for h in fam:
                tok = me if h is g else ("upvar:%s" % nm)
                for bi, t in h.calls():
                    callee = prog.fn(t.get("resolved") or t.get("callee") or "")
                    if callee is None or not callee.id.startswith("util::bitvec_format") or callee.id == g.id:
                        continue
                    for ai, a in enumerate(t["args"]):
                        if deep(h, a, 3) == tok and ai < callee.arg_count:
                            sub = param_roles(prog, callee, _depth + 1)
                            r_ = sub[ai]
                            if r_ == "address_unit":
                                role.add("div")
                            elif r_ not in ("?", "self", "fileserver"):
                                role.add(r_)
        if "base" in role:
            roles.append("base")
        elif "div" in role and "unit_rem" in role and "digits_per_group" not in role:
            roles.append("address_unit")        # positions are both divided by it and rounded to multiples of it
        elif "digits_per_group" in role:
            roles.append("digits_per_group")
        elif "div" in role:
            roles.append("address_unit")
        else:
            roles.append("?")
    return roles


def tab_cli_iters(run, pc, usage):
    R = "TAB-cli"
    f = run.anchor(R, "asm::AssemblyOptions::new")
    doc = None
    for o in usage["opts"]:
        if o["long"] == "iters":
            doc = o.get("default")
    got = None
    if f:
        for bi, si, st in f.stmts():
            if st["k"] == "assign" and st["rv"]["k"] == "agg" and st["rv"].get("adt", "").endswith("AssemblyOptions"):
                for name, op in zip(st["rv"]["fields"], st["rv"]["ops"]):
                    if name == "max_iterations":
                        got = const_int(op)
    run.check(doc is not None and got is not None and str(got) == doc, R, R + "|iters-default", f.loc() if f else "-",
              "default iteration budget %s equals the documented (Default: %s)" % (got, doc),
              "default iteration budget is %s in AssemblyOptions::new, the usage text says %s" % (got, doc))
    # rejection of 0 / non-number: the match on parse::<usize>() result
    ok0 = False
    for bi, t in pc.calls():
        if "parse::<usize>" in (t.get("callee_full") or ""):
            reach = _reach_from(pc, bi)
            # a switch on the Ok payload with value 0 leading to error+Err
            for b2 in reach:
                tt = pc.blocks[b2]["term"]
                if tt["k"] == "switch" and any(v == "0" for v, _ in tt["targets"]) and "usize" in tt["discr_ty"]:
                    tgt = [tg for v, tg in tt["targets"] if v == "0"][0]
                    reg = _reach_straight(pc, tgt)
                    if report_error_in_region(pc, reg) and err_return_in_region(pc, reg):
                        ok0 = True
    run.check(ok0, R, R + "|iters-zero-rejected", pc.loc(), "`--iters 0` is reported and rejected", "`--iters 0` is not rejected with error+Err")
    # the budget is the number written, unchanged
    from rules_sym import deep
    vals = []
    for bi, si, st in pc.stmts():
        if st["k"] == "assign" and st["place"]["p"] and isinstance(st["place"]["p"][-1], dict) and st["place"]["p"][-1].get("name") == "max_iterations" and st["rv"]["k"] == "use":
            vals.append(deep(pc, st["rv"]["op"], 10))
    okv = len(vals) == 1 and bool(re.fullmatch(r"str::parse\(Matches::opt_str\(.*, \"t\"\)@Some\.0\)@Ok\.0", vals[0]))
    run.check(okv, R, R + "|iters-value-unchanged", pc.loc(), "the iteration budget is the number given to -t, unchanged",
              "the iteration budget stored is `%s`, not the number given to -t itself: the number of passes reported can exceed the budget the user asked for" % [v[-90:] for v in vals])


def _reach_straight(f, b, limit=12):
    """blocks on the straight-line path from b (single successors), inclusive"""
    out = set()
    n = 0
    while n < limit:
        out.add(b)
        s = f.succs(b)
        if len(s) != 1:
            break
        b = s[0]
        n += 1
    return out


def tab_cli_color(run, pc):
    R = "TAB-cli"
    # the table is in parse_command itself, or in a private helper of the driver that it calls
    cands = [pc] + [h for h in (run.prog.fn(t.get("resolved") or "") for _, t in pc.calls() if t.get("resolved_local")) if h is not None and h.id.startswith("driver::")]
    best = None
    for f in cands:
        arms = {a["lit"]: a for a in T.str_eq_arms(f)}
        if "on" not in arms and "off" not in arms:
            continue
        ok = True
        got = {}
        for lit, want in (("on", 1), ("off", 0)):
            a = arms.get(lit)
            if not a:
                ok = False
                continue
            val = None
            b = a["true"]
            for _ in range(4):
                for st in f.blocks[b]["stmts"]:
                    if st["k"] == "assign" and st["rv"]["k"] == "use" and const_int(st["rv"]["op"]) is not None and f.local_ty(st["place"]["l"]) == "bool":
                        val = const_int(st["rv"]["op"])
                    if st["k"] == "assign" and st["rv"]["k"] == "agg" and st["rv"].get("variant") == "Ok" and st["rv"]["ops"] and const_int(st["rv"]["ops"][0]) is not None \
                            and "bool" in (f.local_ty(st["place"]["l"]) or ""):
                        val = const_int(st["rv"]["ops"][0])
                if val is not None:
                    break
                s_ = f.succs(b)
                if len(s_) != 1:
                    break
                b = s_[0]
            got[lit] = val
            if val != want:
                ok = False
        best = (ok, got)
        if ok:
            break
    ok, got = best if best else (False, {})
    run.check(ok, R, R + "|color-table", pc.loc(), "--color on/off map to true/false", "--color table is %s, expected on=1, off=0" % got)


def tab_cli_defaults(run, pc, table):
    R = "TAB-cli"
    # the choice is made in parse_command itself, or in a helper that is handed the group's `printout`
    from rules_sym import deep as _deep
    cands = [(pc, None)]
    for bi, t in pc.calls():
        h = run.prog.fn(t.get("resolved") or "") if t.get("resolved_local") else None
        if h is None:
            continue
        handed = False
        for i, a in enumerate(t["args"]):
            if op_place(a) is not None and _deep(pc, a, 4).endswith(".printout") and i + 1 <= h.arg_count:
                cands.append((h, i + 1))
                handed = True
        if not handed and h.id.startswith("driver::"):
            cands.append((h, None))         # a step of parse_command factored out; it reads the group's `printout` itself
    done = False
    for f, pidx in cands:
      aggs = T.region_aggregates(f, f.reachable(), "OutputFormat")
      for b in sorted(f.reachable()):
        t = f.blocks[b]["term"]
        if t["k"] != "switch":
            continue
        discr = t["discr"]
        # `match (group.format, group.printout)`: the flag is read back out of the tuple it was put into
        pl_ = (discr.get("copy") or discr.get("move")) if isinstance(discr, dict) else None
        if pl_ and len(pl_.get("p") or []) == 1 and isinstance(pl_["p"][0], dict) and isinstance(pl_["p"][0].get("f"), int):
            ds_ = f.full_defs(pl_["l"])
            if len(ds_) == 1 and ds_[0][0] == "stmt" and ds_[0][3]["rv"]["k"] == "agg" and ds_[0][3]["rv"].get("agg") == "tuple" and pl_["p"][0]["f"] < len(ds_[0][3]["rv"]["ops"]):
                discr = ds_[0][3]["rv"]["ops"][pl_["p"][0]["f"]]
        if f.local_ty(op_local(discr) or 0) != "bool":
            continue
        o = f.origin_op(discr)
        if pidx is None:
            if o[0] != "place" or not o[2] or not isinstance(o[2][-1], dict) or o[2][-1].get("name") != "printout":
                continue
        elif not (o[0] == "param" and o[1] == pidx):
            continue
        false_t = [tg for v, tg in t["targets"] if v == "0"]
        if not false_t:
            continue
        true_reg = T.dominated_region(f, t["otherwise"], b)
        false_reg = T.dominated_region(f, false_t[0], b)
        ta = [st for (bb, st) in aggs if bb in true_reg]
        fa = [st for (bb, st) in aggs if bb in false_reg]
        if not ta and not fa:
            continue
        done = True
        want = table.get("annotated")
        wd = {fn: fv[2] for fn, fv in want[1].items() if fv[0] == "param"} if want else None
        okp = len(ta) == 1 and ta[0]["rv"]["variant"] == "Annotated" and wd is not None and \
            {n: const_int(o2) for n, o2 in zip(ta[0]["rv"]["fields"], ta[0]["rv"]["ops"])} == wd
        run.check(okp, R, R + "|default-format|print", f.loc(ta[0]["span"]) if ta else f.loc(),
                  "a printing group without -f defaults to `annotated` with its documented defaults %s" % wd,
                  "default format when printing is not Annotated%s" % wd)
        okb = len(fa) == 1 and fa[0]["rv"]["variant"] == "Binary"
        run.check(okb, R, R + "|default-format|file", f.loc(fa[0]["span"]) if fa else f.loc(),
                  "a file group without -f defaults to `binary`", "default format when writing a file is not Binary")
    if not done:
        run.violation(R, R + "|default-format|anchor", pc.loc(), "mechanism not found: default format chosen on `printout`")


def tab_cli_derive(run):
    R = "TAB-cli"
    f = run.anchor(R, "driver::derive_output_filename")
    if not f:
        return
    spec = run.table("cli")["extensions"]
    sw = T.enum_switch_arms(f, "OutputFormat")
    got = {}
    if sw:
        bi, arms, otherwise, place, variants = sw[0]
        def ext_of(b):
            for bb in _reach_straight(f, b, 4):
                for st in f.blocks[bb]["stmts"]:
                    if st["k"] == "assign" and st["rv"]["k"] == "use":
                        s = const_str(st["rv"]["op"])
                        if s is not None:
                            return s
            return None
        for v, tg in arms.items():
            got[v] = ext_of(tg)
        got["_"] = ext_of(otherwise)
    run.check(got == spec, R, R + "|extensions", f.loc(), "derived extensions %s" % got, "derived extension table is %s, audited table says %s" % (got, spec))
    # guard: output == input -> error + Err, and it is the last gate before Ok
    guard = False
    for bi, t in f.calls():
        if (t.get("callee") or "") == "std::cmp::PartialEq::eq" and t["target"] is not None and not t["dest"]["p"]:
            # the input file name is the string parameter of derive_output_filename
            inp = [l for l in range(1, f.arg_count + 1) if re.search(r"^&(std::string::String|str)$", f.local_ty(l) or "")]
            if len(inp) != 1:
                continue
            if not any(value_depends_on(f, a, inp[0]) for a in t["args"]):
                continue
            sw2 = T.bool_test(f, t)
            if not sw2:
                continue
            treg = T.dominated_region(f, sw2[0], sw2[2])
            freg = T.dominated_region(f, sw2[1], sw2[2])
            oks = ok_return_blocks(f)
            if report_error_in_region(f, treg) and err_return_in_region(f, treg) and oks and all(b in freg for b in oks):
                guard = True
    run.check(guard, R, R + "|derive-not-input", f.loc(),
              "a derived name equal to the input name is reported and rejected; Ok only on the `differs` edge",
              "derive_output_filename can return a name without passing the `!= input_filename` edge")


def tab_cli_derive_when(run, pc, R="TAB-cli"):
    """an output name is derived (and checked against the input name) only for a group that is written to a file and has no name:
    the call of derive_output_filename lies on the `!printout` edge and on the `output_filename is None` edge"""
    from rules_sym import option_tests, deep as _deep
    cands = [pc] + [h for h in (run.prog.fn(t.get("resolved") or "") for _, t in pc.calls() if t.get("resolved_local")) if h is not None and h.id.startswith("driver::")]
    site = None
    for f in cands:
        for bi, t in f.calls():
            if (t.get("resolved") or "") == "driver::derive_output_filename":
                site = (f, bi, t)
    if site is None:
        run.violation(R, R + "|derive|when", pc.loc(), "mechanism not found: the call of derive_output_filename")
        return
    f, cb, ct = site
    not_printing = False
    for b in f.dominators().get(cb, ()):
        t = f.blocks[b]["term"]
        if t["k"] != "switch" or b == cb or op_local(t["discr"]) is None or f.local_ty(op_local(t["discr"])) != "bool":
            continue
        o = f.origin_op(t["discr"])
        neg = False
        if o[0] == "unop" and o[1]["op"] == "Not":
            neg = True
            o = f.origin_op(o[1]["x"])
        if o[0] == "place" and o[2] and isinstance(o[2][-1], dict) and o[2][-1].get("name") == "printout":
            ft = [tg for v, tg in t["targets"] if v == "0"]
            edge = (t["otherwise"] if neg else (ft[0] if ft else None))
            if edge is not None and f.edge_dominates(b, edge, cb):
                not_printing = True
    unnamed = any(f.edge_dominates(sb, none_, cb) for sb, some_, none_ in option_tests(f, lambda d: d.endswith(".output_filename")))
    # ... and only once every input file name is known: not inside the loop that collects them
    pushes = [bi for bi, t in pc.calls() if re.search(r"(Vec::<.*>::(push|extend|append|insert|extend_from_slice)|iter::Extend::extend)$", t.get("callee") or "") and t["args"] and _deep(pc, t["args"][0], 5).endswith(".input_filenames")]
    site_in_pc = cb if f is pc else next((bi for bi, t in pc.calls() if (t.get("resolved") or "") == f.id), None)
    in_collect_loop = False
    for h in pc.reachable():
        lp = natural_loop(pc, h)
        if lp and any(pb in lp for pb in pushes) and site_in_pc in lp:
            in_collect_loop = True
    run.check(bool(pushes) and site_in_pc is not None and not in_collect_loop, R, R + "|derive|after-inputs", pc.loc(),
              "output names are derived after all input file names have been collected",
              "parse_command derives output file names inside the loop that still collects the input file names: a group written before the group that names the input gets no output file, silently" if pushes else "mechanism not found: where input file names are collected")
    run.check(not_printing and unnamed, R, R + "|derive|when", f.loc(ct["span"]), "a name is derived only for a group that is not printed and has no output file name",
              "parse_command derives an output file name %s: a group that only prints would fail with `cannot derive safe output filename` (or get a file it did not ask for)" % (
                  "also for groups that print" if not not_printing else "also for groups that already name their file"))


def tab_cli_color_everywhere(run, R="TAB-cli"):
    """`--color=off` is honoured for every diagnostic the driver prints, also for errors about the command line itself: no call of
    Report::print_all is handed the constant `true`"""
    n, bad = 0, []
    for f in run.prog.real_fns():
        if not f.id.startswith("driver::"):
            continue
        for bi, t in f.calls():
            if (t.get("resolved") or t.get("callee") or "").endswith("Report::print_all"):
                n += 1
                flags = [a for a, ty in zip(t["args"], t.get("arg_tys") or []) if ty == "bool"]
                if len(flags) != 1 or const_int(flags[0]) is not None:
                    bad.append(f.loc(t["span"]))
    run.check(n >= 1 and not bad, R, R + "|color|every-print", "-", "every print of the diagnostics takes its colour setting from the command line (%d site(s))" % n,
              "the driver prints diagnostics with colours switched on unconditionally (%s): `--color=off prog.asm -f bogus` still prints ANSI escapes for the error about the command line" % ", ".join(bad))


def _reach_avoiding(f, start, avoid):
    seen, work = set(), [start]
    while work:
        x = work.pop()
        if x in seen or x in avoid:
            continue
        seen.add(x)
        work.extend(f.succs(x))
    return seen


def tab_cli_params_no_duplicate(run, pof, R="TAB-cli"):
    """a format parameter given twice is rejected: every insertion into the parameter map hands back the previous value, and that
    answer is tested (a previous value -> error + Err) on every path from the insertion to a successful return.  Otherwise only one
    of the values is validated and `base:3,base:16` is accepted"""
    from rules_sym import option_tests
    ins = [(bi, t) for bi, t in pof.calls() if re.search(r"HashMap::<.*>::insert$", t.get("callee") or "") and "String" in " ".join(t.get("arg_tys") or [])]
    if not ins:
        # the parameters are collected by a helper of the driver: the rule is decided there
        for _, t_ in pof.calls():
            h_ = run.prog.fn(t_.get("resolved") or "") if t_.get("resolved_local") else None
            if h_ is not None and h_.id.startswith("driver::") and h_.id != pof.id and any(re.search(r"HashMap::<.*>::insert$", t2.get("callee") or "") for _, t2 in h_.calls()):
                return tab_cli_params_no_duplicate(run, h_, R)
    # the tested value is the answer of an insertion: directly, or the named local the insertions write their answer to
    names = {"var:%s" % pof.local_name(t["dest"]["l"]) for _, t in ins if not t["dest"]["p"] and pof.local_name(t["dest"]["l"])}
    tests = [x for x in option_tests(pof, lambda e: ("HashMap" in e and "insert(" in e) or e in names)]
    good = []
    for b, some, none in tests:
        reg = T.dominated_region(pof, some, b)
        if report_error_in_region(pof, reg) and err_return_in_region(pof, reg):
            good.append(b)
    oks = set(ok_return_blocks(pof))
    # the other form: the map is asked `contains_key` first and the insertion lies on the `not there yet` edge
    absent_edges = []
    for bi, t in pof.calls():
        if re.search(r"HashMap::<.*>::contains_key", t.get("callee") or ""):
            bt = T.bool_test(pof, t)
            if bt:
                reg = T.reach_following_consts(pof, bt[0])
                if report_error_in_region(pof, reg) and err_return_in_region(pof, reg):
                    absent_edges.append((bt[2], bt[1]))
    bad = []
    for bi, t in ins:
        if t.get("target") is None:
            continue
        if any(pof.edge_dominates(b, e, bi) for b, e in absent_edges):
            continue
        if not good or (_reach_avoiding(pof, t["target"], set(good)) & oks):
            bad.append(pof.loc(t["span"]))
    run.check(bool(ins) and not bad, R, R + "|params|no-duplicate", pof.loc(),
              "a format parameter given twice is reported and rejected (%d insertion(s) into the parameter map, each tested for a previous value)" % len(ins),
              ("parse_output_format keeps only the last value of a parameter given twice (insertion(s) at %s are not tested for a previous value): `-f annotated,base:3,base:16` is accepted although base:3 is outside the documented set" % ", ".join(bad)) if ins else "mechanism not found: the insertion of format parameters into a map")


def tab_cli_derive_not_any_input(run, pc, R="TAB-cli"):
    """a derived output name is compared with every input file name, and is stored only on the `equals none of them` edge"""
    from rules_sym import deep as _deep
    cands = [pc] + [h for h in (run.prog.fn(t.get("resolved") or "") for _, t in pc.calls() if t.get("resolved_local")) if h is not None and h.id.startswith("driver::")]
    ok, found = False, False
    for f in cands:
        for cb, ct in f.calls():
            if (ct.get("resolved") or "") != "driver::derive_output_filename":
                continue
            found = True
            dl = ct["dest"]["l"]
            stores = [(bi, st) for bi, si, st in f.stmts() if st["k"] == "assign" and st["place"]["p"] and isinstance(st["place"]["p"][-1], dict)
                      and st["place"]["p"][-1].get("name") == "output_filename" and value_depends_on(f, st["rv"].get("op") or (st["rv"].get("ops") or [None])[0], dl)]
            for bi, t in f.calls():
                c = t.get("callee") or ""
                if not re.search(r"(::contains|::any|PartialEq::eq|PartialEq::ne)$", re.sub(r"::<[^>]*>", "", c)):
                    continue
                ds = [_deep(f, a, 8) for a in t["args"]]
                if not any(value_depends_on(f, a, dl) for a in t["args"]) or not any(".input_filenames" in d for d in ds):
                    continue
                bt = T.bool_test(f, t)
                if bt is None:
                    continue
                same, differ = (bt[0], bt[1]) if not c.endswith("ne") else (bt[1], bt[0])
                reg = T.reach_following_consts(f, same)
                if report_error_in_region(f, reg) and err_return_in_region(f, reg) and stores and all(f.edge_dominates(bt[2], differ, sb) for sb, _ in stores):
                    ok = True
    run.check(ok, R, R + "|derive|not-any-input", pc.loc(), "a derived output name is compared with all input file names and stored only when it equals none",
              "parse_command stores a derived output name without comparing it with every input file name: `customasm main.asm main.bin` derives `main.bin` from the first input and overwrites the second input with the output" if found else "mechanism not found: the call of derive_output_filename")


def tab_cli_distinct_outputs(run, pc, R="TAB-cli"):
    """each output group writes its own file: two groups that would write to the same name (given or derived) are rejected before
    anything is assembled"""
    from rules_sym import deep as _deep
    from mir import closure_of_origin
    prog = run.prog
    helpers = [h for h in (prog.fn(t.get("resolved") or "") for _, t in pc.calls() if t.get("resolved_local")) if h is not None and h.id.startswith("driver::")]
    cands = [pc] + helpers

    def names_file(f, op, depth=0):
        """the operand is (or is computed by a driver helper from) a group's output file name"""
        d = _deep(f, op, 8)
        if ".output_filename" in d:
            return True
        if depth < 2:
            for h in prog.real_fns():
                if h.kind != "Closure" and h.id.startswith("driver::") and (h.id.split("::")[-1] + "(") in d:
                    rets = [st["rv"] for bi, si, st in h.stmts() if st["k"] == "assign" and st["place"]["l"] == 0 and not st["place"]["p"]]
                    if any(".output_filename" in _deep(h, (rv.get("op") or (rv.get("ops") or [None])[0]), 8) for rv in rets if (rv.get("op") or rv.get("ops"))) \
                            or any(".output_filename" in _deep(h, t["args"][0], 8) for bi, t in h.calls() if t["dest"]["l"] == 0 and t["args"]):
                        return True
        return False

    def compares_names(f, t, one_side=False):
        c = t.get("callee") or ""
        if c not in ("std::cmp::PartialEq::eq", "std::cmp::PartialEq::ne") or len(t["args"]) != 2:
            return False
        hits = [names_file(f, a) for a in t["args"]]
        if one_side:
            return any(hits)
        return all(hits) and _deep(f, t["args"][0], 6) != _deep(f, t["args"][1], 6)

    ok = False
    for f in cands:
        for bi, t in f.calls():
            c = t.get("callee") or ""
            site = compares_names(f, t)
            negate = c.endswith("ne")
            if not site and re.search(r"Iterator>?::any(::<.*)?$|::contains(::<.*)?$", c) and len(t["args"]) == 2:
                # the comparison sits in the closure handed to `any` (the other side is a captured name), or is `contains` itself
                cid = closure_of_origin(f.origin_op(t["args"][1]))
                g = prog.fn(cid) if cid else None
                if g is not None:
                    site = any(compares_names(g, t2, one_side=True) for _, t2 in g.calls())
                else:
                    site = names_file(f, t["args"][0]) or names_file(f, t["args"][1])
                negate = False
            if not site:
                continue
            bt = T.bool_test(f, t)
            if bt is None:
                # part of a `a && b && ..` chain: the comparison's true edge leads (through the chain) to the rejection
                reg = set()
                for e in f.succs(bi):
                    reg |= T.reach_following_consts(f, e)
            else:
                same_edge = bt[1] if negate else bt[0]
                reg = T.reach_following_consts(f, same_edge)
            if report_error_in_region(f, reg) and err_return_in_region(f, reg):
                ok = True
    # ... but a request for the help or the version text is answered whatever the groups look like: the rejection lies behind a
    # test of `show_help` / `show_version` (directly, or through a named boolean computed from them)
    def gate_blocks(f):
        out = []
        for b in sorted(f.reachable()):
            tt = f.blocks[b]["term"]
            if tt["k"] != "switch" or op_local(tt["discr"]) is None:
                continue
            txts = [_deep(f, tt["discr"], 6)]
            for d_ in f.full_defs(f.copy_root(op_local(tt["discr"]))):
                if d_[0] == "stmt" and d_[3]["k"] == "assign":
                    rv_ = d_[3]["rv"]
                    for o_ in ([rv_.get("op")] if rv_.get("op") else []) + [rv_.get("l"), rv_.get("r"), rv_.get("x")]:
                        if o_ is not None:
                            txts.append(_deep(f, o_, 6))
            if any(re.search(r"\.show_(help|version)\)*$", x) for x in txts):
                out.append(b)
        return out
    gated = False
    cmp_blocks = set()
    gates = gate_blocks(pc)
    for f in cands:
        for bi, t in f.calls():
            c = t.get("callee") or ""
            site = compares_names(f, t) or (re.search(r"Iterator>?::any(::<.*)?$|::contains(::<.*)?$", c) and len(t["args"]) == 2 and (names_file(f, t["args"][0]) or names_file(f, t["args"][1]) or
                                            (prog.fn(closure_of_origin(f.origin_op(t["args"][1])) or "") is not None and any(compares_names(prog.fn(closure_of_origin(f.origin_op(t["args"][1]))), t2, one_side=True) for _, t2 in prog.fn(closure_of_origin(f.origin_op(t["args"][1]))).calls()))))
            if not site:
                continue
            if f is pc:
                gated = gated or any(pc.edge_dominates(g, e, bi) for g in gates for e in pc.succs(g) if g != bi)
                cmp_blocks.add(bi)
            else:
                # the comparison sits in a helper: the call of that helper in parse_command is gated
                for b2, t2 in pc.calls():
                    if (t2.get("resolved") or "") == f.id:
                        cmp_blocks.add(b2)
                    if (t2.get("resolved") or "") == f.id and any(pc.edge_dominates(g, e, b2) for g in gates for e in pc.succs(g) if g != b2):
                        gated = True
    # the names compared are the final ones: no store to a group's `output_filename` (the derived default name) can follow the
    # comparison - compared before the defaults are filled in, two groups that derive the same name pass and overwrite each other
    writers = set()
    for bi, si, st in pc.stmts():
        if st["k"] == "assign" and st["place"]["p"] and any(isinstance(pr, dict) and pr.get("name") == "output_filename" for pr in st["place"]["p"]):
            writers.add(bi)
    def _stores_name(h):
        return any(st["k"] == "assign" and st["place"]["p"] and any(isinstance(pr, dict) and pr.get("name") == "output_filename" for pr in st["place"]["p"]) for _, _, st in h.stmts())
    for bi, t in pc.calls():       # ... or a call of a helper of this crate that stores one
        h_ = prog.fn(t.get("resolved") or t.get("callee") or "")
        if h_ is not None and h_.id != pc.id and _stores_name(h_):
            writers.add(bi)
    late = set()
    for cb in cmp_blocks:
        seen_, work_ = set(), list(pc.succs(cb))
        while work_:
            x_ = work_.pop()
            if x_ in seen_ or pc.blocks[x_]["cleanup"]:
                continue
            seen_.add(x_)
            work_.extend(pc.succs(x_))
        late |= (seen_ & writers)
    run.check((not ok) or not late, R, R + "|groups|distinct-files-final-names", pc.loc(), "output names are compared after every name was settled (%d store(s) to output_filename, none can follow the comparison)" % len(writers),
              "parse_command compares the groups' file names and assigns output_filename afterwards (line(s) %s): two groups whose names are both derived (`prog.asm -f hexdump -- -f annotated`, both prog.txt) pass the comparison and the second overwrites the first, exit 0" % sorted({pc.blocks[b]["term"].get("span", {}).get("line") for b in late}))
    run.check((not ok) or gated, R, R + "|groups|distinct-files-not-for-help", pc.loc(), "the duplicate-output rejection is not consulted when only the help or version text is asked for",
              "parse_command rejects output groups that share a file name also when `-h` or `-v` is given: `customasm -v -f annotated -- -f symbols` prints `multiple output groups write to ...` instead of the version")
    run.check(ok, R, R + "|groups|distinct-files", pc.loc(), "two output groups naming the same file are reported and rejected",
              "parse_command never compares the output file names of different groups: `customasm prog.asm -f annotated -- -f symbols` derives `prog.txt` twice, writes both outputs to it and exits 0 with the first one lost")


def tab_cli_derive_name(run, R="TAB-cli"):
    """the derived output name is the first input's path with its extension replaced by the path library (`set_extension` /
    `with_extension`: the extension of the last component only), and that path is what is returned"""
    from rules_sym import deep
    f = run.anchor(R, "driver::derive_output_filename")
    if not f:
        return
    inp = [l for l in range(1, f.arg_count + 1) if re.search(r"^&(std::string::String|str)$", f.local_ty(l) or "")]
    sets = [(bi, t) for bi, t in f.calls() if re.search(r"std::path::(PathBuf::set_extension|Path::with_extension)$", t.get("callee") or "")]
    ok = len(inp) == 1 and len(sets) == 1
    why = "%d call(s) of set_extension/with_extension" % len(sets)
    if ok:
        bi, t = sets[0]
        recv, ext = deep(f, t["args"][0], 6), t["args"][1]
        ok = recv == "P%d" % inp[0] or recv.endswith("(P%d)" % inp[0])
        why = "the path whose extension is replaced is `%s`, not the input file name" % recv
        if ok:
            sw = T.enum_switch_arms(f, "OutputFormat")
            el = op_local(ext)
            ok = bool(sw) and el is not None and value_depends_on_switch(f, ext, sw[0][0])
            why = "the new extension does not come from the match on the output format"
    if ok:
        pays = [deep(f, st["rv"]["ops"][0], 10) for bi, si, st in f.stmts() if st["k"] == "assign" and st["place"]["l"] == 0 and not st["place"]["p"]
                and st["rv"]["k"] == "agg" and st["rv"].get("variant") == "Ok"]
        ok = bool(pays) and all(re.search(r"(Path|PathBuf|OsString|OsStr)::\w+\(", p_) and "fmt::format(" not in p_ and " Add " not in p_ for p_ in pays)
        why = "the name returned (%s) is not the path whose extension was replaced" % [p_[:80] for p_ in pays]
    run.check(ok, R, R + "|derive-name", f.loc(), "the derived name is the input path after the path library replaced its extension",
              "derive_output_filename: %s: a dot in a directory name, or an input without extension, would give a name in another directory or without the documented extension" % why)


def value_depends_on_switch(f, op, switch_block):
    """is the operand a local all of whose definitions sit in blocks dominated by the switch (one per arm)?"""
    l = op_local(op)
    if l is None:
        return False
    root = f.copy_root(l)
    ds = f.full_defs(root)
    return len(ds) >= 2 and all(f.dominates(switch_block, d[1]) and d[1] != switch_block for d in ds)


def tab_cli_groups(run):
    R = "TAB-cli"
    f = run.anchor(R, "driver::assemble_with_command")
    if not f:
        return
    fo = [(bi, t) for bi, t in f.calls() if (t.get("resolved") or "") == "driver::format_output"]
    wr = [(bi, t) for bi, t in f.calls() if (t.get("callee") or "").endswith("FileServer::write_bytes")]
    run.check(len(fo) == 1 and len(wr) == 1, R, R + "|group|anchors", f.loc(), "one format_output call and one write_bytes call per group",
              "expected one format_output and one write_bytes call in assemble_with_command, found %d and %d" % (len(fo), len(wr)))
    if len(fo) != 1 or len(wr) != 1:
        return
    fb, ft = fo[0]
    wb, wt = wr[0]
    # the bytes written are the formatted bytes
    dep = any(value_depends_on(f, a, ft["dest"]["l"]) for a in wt["args"])
    run.check(dep and f.dominates(fb, wb), R, R + "|group|write-formatted", f.loc(wt["span"]),
              "write_bytes writes the result of format_output", "write_bytes is not fed by (and dominated by) format_output")
    # print xor write: decided by a switch on `.printout`
    sw = None
    for b in sorted(f.reachable()):
        t = f.blocks[b]["term"]
        if t["k"] == "switch" and f.local_ty(op_local(t["discr"]) or 0) == "bool":
            o = f.origin_op(t["discr"])
            if o[0] == "place" and o[2] and isinstance(o[2][-1], dict) and o[2][-1].get("name") == "printout" and f.dominates(fb, b):
                sw = (b, t)
    if not sw:
        run.violation(R, R + "|group|printout-switch", f.loc(), "mechanism not found: branch on `printout` after format_output")
        return
    b, t = sw
    false_t = [tg for v, tg in t["targets"] if v == "0"][0]
    treg = T.dominated_region(f, t["otherwise"], b)
    freg = T.dominated_region(f, false_t, b)
    prints_true = [bi for bi, c in f.calls() if bi in treg and ((c.get("callee") or "") == "std::io::_print" or (c.get("callee") or "").endswith("io::Write::write_all"))]
    printed_formatted = False
    lossy = []
    for bi, c in f.calls():
        if bi in treg and "from_utf8_lossy" in (c.get("callee") or "") and any(value_depends_on(f, a, ft["dest"]["l"]) for a in c["args"]):
            printed_formatted = True
            lossy.append(f.loc(c["span"]))
        if bi in treg and (c.get("callee") or "").endswith("io::Write::write_all") and any(value_depends_on(f, a, ft["dest"]["l"]) for a in c["args"][1:]):
            printed_formatted = True
        # a small helper of the driver that writes the bytes it is handed to stdout
        h_ = run.prog.fn(c.get("resolved") or "") if c.get("resolved_local") else None
        if bi in treg and h_ is not None and h_.id.startswith("driver::") and any(value_depends_on(f, a, ft["dest"]["l"]) for a in c["args"]):
            wa = [t2 for _, t2 in h_.calls() if (t2.get("callee") or "").endswith("io::Write::write_all")]
            from rules_sym import deep as _d3
            if wa and any(re.fullmatch(r"P\d+", _d3(h_, t2["args"][-1], 3)) for t2 in wa) and not any("from_utf8_lossy" in (t2.get("callee") or "") for _, t2 in h_.calls()):
                printed_formatted = True
                prints_true.append(bi)
    run.check(not lossy, R, R + "|group|print-bytes-unchanged", f.loc(), "the printed output is the formatted bytes themselves",
              "assemble_with_command prints the formatted output through String::from_utf8_lossy (%s): a raw binary output with bytes that are not valid UTF-8 (`#d8 0x80` with `-f binary -p`) is printed as other bytes (ef bf bd)" % ", ".join(lossy))
    run.check(wb in freg and wb not in treg, R, R + "|group|write-only-when-not-printing", f.loc(wt["span"]),
              "the file is written only on the `!printout` edge", "write_bytes is not confined to the `!printout` edge")
    run.check(bool(prints_true) and printed_formatted, R, R + "|group|print-when-printing", f.loc(),
              "the formatted bytes are printed on the `printout` edge", "the `printout` edge does not print the formatted bytes")
    # a group that names a file always reaches the write: on the `output_filename is Some` edge nothing leads back to the loop (or
    # out of it) except through write_bytes
    from rules_sym import option_tests
    tests = option_tests(f, lambda d: d.endswith(".output_filename"))
    okw = bool(tests)
    whyw = "no test of the group's output_filename"
    for sb_, some_, none_ in tests:
        if not f.edge_dominates(sb_, some_, wb):
            continue
        seen, work = set(), [some_]
        escaped = None
        while work:
            x = work.pop()
            if x in seen or x == wb or f.blocks[x]["cleanup"]:
                continue
            seen.add(x)
            if not f.edge_dominates(sb_, some_, x):
                escaped = x
                continue
            tt = f.blocks[x]["term"]
            if tt["k"] == "return":
                escaped = x
            work.extend(f.succs(x))
        if escaped is not None:
            okw = False
            whyw = "from the `has an output file name` edge the loop can go on (block %s) without calling write_bytes" % escaped
    run.check(okw, R, R + "|group|file-always-written", f.loc(wt["span"]), "a group with an output file name always reaches write_bytes (an empty output is still a file)",
              "assemble_with_command: %s: a requested output file would not be produced (a stale file of an earlier run would stay)" % whyw)
    # the filename written is the group's output_filename
    o = f.origin_op(wt["args"][3]) if len(wt["args"]) > 3 else None
    desc = describe_origin(f, o) if o else "?"
    run.check("output_filename" in desc, R, R + "|group|write-filename", f.loc(wt["span"]),
              "write_bytes is given the group's output_filename (%s)" % desc, "write_bytes file name comes from `%s`, not the group's output_filename" % desc)


# ---------------------------------------------------------------------------
# TAB-fmt: format dispatch (C11)

def describe_arg(f, op):
    ci = const_int(op)
    if ci is not None:
        return ci
    s = cstr(f, op)
    if s is not None:
        return s
    o = peel(f.origin_op(op))
    # parameters are recognised by their type, fields of the format by their field name (never by the parameter's name)
    base = o
    projs = []
    while base and base[0] in ("place", "ref", "cast"):
        if base[0] == "place":
            projs = list(base[2]) + projs
        base = base[1]
    if base and base[0] == "param":
        ty = f.local_ty(base[1]) or ""
        fields = [pr["name"] for pr in projs if isinstance(pr, dict) and "f" in pr]
        if "OutputFormat" in ty and fields:
            return "field:" + fields[-1]
        if "BitVec" in ty and not fields:
            return "self" if (base[1] == 1 and "BitVec>::" in f.id) else "output"
        if "FileServer" in ty and not fields:
            return "fileserver"
    d = describe_origin(f, o).replace("*", "").replace("&", "")
    m = re.match(r"^param:(\w+)((?:\.\w+)*)$", d)
    if m:
        return m.group(1) + m.group(2)
    return "?" + d


def local_calls_in(run, f, region):
    out = []
    for b, t in T.region_calls(f, region):
        r = t.get("resolved")
        if r and r in run.prog.fns:
            out.append((b, t))
    return out


def panicking_blocks(f):
    out = set()
    for bi, t in f.calls():
        c = t.get("callee") or ""
        if t["target"] is None and ("panic" in c or "unreachable" in c or "assert_failed" in c):
            out.add(bi)
    return out


def param_const_domain(f, param_local):
    """values v for which the function compares `param == v` (switch or Eq) and the remaining case panics.
    returns (set_of_values, True) if such a guard exists, else (None, False)"""
    pan = panicking_blocks(f)
    if not pan:
        return None, False
    # switch directly on the parameter
    for b in sorted(f.reachable()):
        t = f.blocks[b]["term"]
        if t["k"] == "switch" and op_local(t["discr"]) is not None:
            o = peel(f.origin_op(t["discr"]))
            if o == ("param", param_local) or (o[0] == "multi" and o[1] == param_local):
                other = _reach_straight(f, t["otherwise"], 30)
                if other & pan or _only_reaches(f, t["otherwise"], pan):
                    return set(int(v) for v, _ in t["targets"]), True
    # assert!(p == a || p == b)
    vals = set()
    for bi, si, st in f.stmts():
        if st["k"] == "assign" and st["rv"]["k"] == "binop" and st["rv"]["op"] == "Eq":
            l, r = st["rv"]["l"], st["rv"]["r"]
            c = const_int(r)
            o = peel(f.origin_op(l))
            if c is not None and (o == ("param", param_local) or (o[0] == "multi" and o[1] == param_local)):
                # the false edge of the switch on this comparison must be able to reach a panic without passing a true edge
                tt = f.blocks[bi]["term"]
                if tt["k"] == "switch" and op_local(tt["discr"]) == st["place"]["l"]:
                    vals.add((c, bi))
    if vals:
        # the all-false path panics
        blocks = [b for _, b in vals]
        last_false = None
        for c, b in vals:
            tt = f.blocks[b]["term"]
            ft = [tg for v, tg in tt["targets"] if v == "0"]
            if ft and _only_reaches_or_tests(f, ft[0], pan, set(blocks)):
                last_false = b
        if last_false is not None:
            return set(c for c, _ in vals), True
    return None, False


def _only_reaches(f, b, targets, limit=40):
    """every path from b ends in one of targets (no return reachable)"""
    seen = set()
    work = [b]
    while work:
        x = work.pop()
        if x in seen:
            continue
        seen.add(x)
        if x in targets:
            continue
        k = f.blocks[x]["term"]["k"]
        if k == "return":
            return False
        s = f.succs(x)
        if not s and k != "unreachable":
            return False
        work.extend(s)
        if len(seen) > limit:
            return False
    return True


def _only_reaches_or_tests(f, b, targets, tests):
    seen = set()
    work = [b]
    while work:
        x = work.pop()
        if x in seen:
            continue
        seen.add(x)
        if x in targets or x in tests:
            continue
        k = f.blocks[x]["term"]["k"]
        if k == "return":
            return False
        s = f.succs(x)
        if not s and k != "unreachable":
            return False
        work.extend(s)
        if len(seen) > 60:
            return False
    return True


def divisor_params(f):
    """parameters (local indices) that can be the right operand of a Div/Rem"""
    out = set()
    for bi, si, st in f.stmts():
        if st["k"] == "assign" and st["rv"]["k"] == "binop" and st["rv"]["op"] in ("Div", "Rem"):
            for p in range(1, f.arg_count + 1):
                if value_depends_on(f, st["rv"]["r"], p):
                    out.add(p)
    return out


def tab_fmt(run):
    R = "TAB-fmt"
    prog = run.prog
    spec = run.table("formats")
    f = run.anchor(R, "driver::format_output")
    if not f:
        return
    sw = T.enum_switch_arms(f, "OutputFormat")
    if not sw:
        run.violation(R, R + "|anchor|switch", f.loc(), "mechanism not found: match on the OutputFormat value in format_output")
        return
    bi, arms, otherwise, place, variants = sw[0]
    run.floor(R, "OutputFormat variants", len(variants), 20)
    run.floor(R, "dispatch arms", len(arms), 20)
    for v in sorted(variants.values()):
        key = "%s|dispatch|%s" % (R, v)
        if v not in arms:
            run.violation(R, key, f.loc(), "OutputFormat::%s has no arm in format_output (falls to the default arm)" % v)
            continue
        want = spec["dispatch"].get(v)
        region = T.dominated_region(f, arms[v])
        calls = local_calls_in(run, f, region)
        if want is None:
            run.violation(R, key, f.loc(), "OutputFormat::%s is not in the audited dispatch table (new format: audit and add it to tables/formats.json)" % v)
            continue
        if len(calls) != 1:
            run.violation(R, key, f.loc(), "arm of OutputFormat::%s calls %d local functions, expected exactly one formatter" % (v, len(calls)))
            continue
        b, t = calls[0]
        callee = t["resolved"].rsplit("::", 1)[-1]
        args = [describe_arg(f, a) for a in t["args"]]
        ok = callee == want[0] and args == want[1]
        run.check(ok, R, key, f.loc(t["span"]),
                  "OutputFormat::%s -> %s(%s)" % (v, callee, ", ".join(map(str, args))),
                  "OutputFormat::%s is formatted by %s(%s); its name implies %s(%s)" % (v, callee, ", ".join(map(str, args)), want[0], ", ".join(map(str, want[1]))))
        # positional agreement field -> parameter name
        g = prog.fn(t["resolved"])
        pn = spec["param_names"].get(callee)
        if g is not None and pn is not None:
            got = param_roles(prog, g)
            run.check(got == pn, R, "%s|params|%s" % (R, callee), g.loc(),
                      "%s takes (%s)" % (callee, ", ".join(map(str, got))),
                      "%s uses its parameters as (%s), the dispatch table assumes (%s): a radix and a group width (both usize) would be silently exchanged" % (callee, ", ".join(map(str, got)), ", ".join(pn)))
        # the result of the formatter is what is returned (text.bytes().collect() or directly)
        dl = t["dest"]["l"]
        if dl != 0:
            rets = [x for x in f.full_defs(0)]
            dep = any((d[0] == "call" and any(value_depends_on(f, a, dl) for a in d[2]["args"])) for d in rets)
            run.check(dep, R, "%s|returned|%s" % (R, v), f.loc(t["span"]), "the text produced for %s is what format_output returns" % v,
                      "the text produced for %s does not reach the return value" % v)
    # wrappers
    for wname, (callee, wargs) in sorted(spec["wrappers"].items()):
        g = prog.find("BitVec>::" + wname)
        key = "%s|wrapper|%s" % (R, wname)
        if len(g) != 1:
            run.violation(R, key, "-", "mechanism not found: %s" % wname)
            continue
        g = g[0]
        calls = local_calls_in(run, g, g.reachable())
        if len(calls) != 1:
            run.violation(R, key, g.loc(), "%s calls %d local functions, expected one" % (wname, len(calls)))
            continue
        b, t = calls[0]
        got = [describe_arg(g, a) for a in t["args"]]
        run.check(t["resolved"].endswith("::" + callee) and got == wargs, R, key, g.loc(),
                  "%s = %s(%s)" % (wname, callee, ", ".join(map(str, got))),
                  "%s calls %s(%s), expected %s(%s)" % (wname, t["resolved"].rsplit("::", 1)[-1], ", ".join(map(str, got)), callee, ", ".join(map(str, wargs))))
    # panic-guarded parameter domains: every caller passes a handled constant (or a validated set)
    cli = run.table("cli")["validators"]
    checked = 0
    for g in prog.real_fns():
        if not re.search(r"bitvec_format::<impl [\w:]*BitVec>::format_", g.id):
            continue
        for p in range(2, g.arg_count + 1):
            dom, guarded = param_const_domain(g, p)
            if not guarded:
                continue
            checked += 1
            pname = g.local_name(p)
            # all call sites
            for h in prog.real_fns():
                for b, t in h.calls():
                    if t.get("resolved") != g.id:
                        continue
                    a = t["args"][p - 1]
                    ci = const_int(a)
                    key = "%s|domain|%s.%s|from|%s" % (R, g.id.rsplit("::", 1)[-1], pname, h.id)
                    if ci is not None:
                        run.check(ci in dom, R, key + "|%d" % ci, h.loc(t["span"]),
                                  "%s passes %s=%d to %s, which handles %s" % (h.id, pname, ci, g.id.rsplit("::", 1)[-1], sorted(dom)),
                                  "%s passes %s=%d to %s, which panics for anything but %s" % (h.id, pname, ci, g.id.rsplit("::", 1)[-1], sorted(dom)))
                    else:
                        d = describe_arg(h, a)
                        m = re.match(r"^field:(\w+)$", str(d))
                        # value comes from an OutputFormat field: the driver's validator set must be inside the domain
                        vs = None
                        if m:
                            fmtname = {"format_tcgame": "tcgame", "format_annotated": "annotated", "format_intelhex": "intelhex"}.get(g.id.rsplit("::", 1)[-1])
                            pn = {"address_unit": "addr_unit"}.get(m.group(1), m.group(1))
                            vs = cli.get("%s.%s" % (fmtname, pn))
                        okv = vs is not None and vs[0] == "set" and set(vs[1]) <= dom
                        run.check(okv, R, key + "|validated", h.loc(t["span"]),
                                  "%s of %s comes from a command-line parameter validated to %s, inside the handled set %s" % (pname, g.id.rsplit("::", 1)[-1], vs, sorted(dom)),
                                  "%s of %s (handled values %s, panics otherwise) receives `%s`, which is not validated to that set" % (pname, g.id.rsplit("::", 1)[-1], sorted(dom), d))
    run.floor(R, "panic-guarded formatter parameters", checked, 3)
    # divisor parameters of formatters fed from the command line must exclude zero
    for callee, fmtname in (("format_annotated", "annotated"), ("format_tcgame", "tcgame"), ("format_intelhex", "intelhex")):
        g = prog.find("BitVec>::" + callee)
        if len(g) != 1:
            run.violation(R, "%s|div|anchor|%s" % (R, callee), "-", "mechanism not found: %s" % callee)
            continue
        g = g[0]
        for p in divisor_params(g):
            pname = g.local_name(p)
            cname = {"digits_per_group": "group", "address_unit": "addr_unit"}.get(pname, pname)
            vs = cli.get("%s.%s" % (fmtname, cname))
            if vs is None:
                continue
            nonzero = (vs[0] == "set" and 0 not in vs[1]) or (vs[0] == "gt" and vs[1] >= 0)
            run.check(nonzero, R, "%s|div|%s.%s" % (R, callee, pname), g.loc(),
                      "%s divides by `%s`; its command-line validator %s excludes 0" % (callee, pname, vs),
                      "%s divides by `%s` but the command-line validator %s admits 0" % (callee, pname, vs))
        # power-of-two bases for (base-1).count_ones()
    for fmtname in ("annotated", "tcgame"):
        vs = cli.get(fmtname + ".base")
        ok = vs and vs[0] == "set" and all(v >= 2 and (v & (v - 1)) == 0 for v in vs[1])
        run.check(ok, R, "%s|pow2|%s.base" % (R, fmtname), "tables/cli.json",
                  "every accepted base of `%s` is a power of two >= 2 (bits per digit = log2 base)" % fmtname,
                  "`%s` accepts a base that is not a power of two: digits are extracted as bit groups" % fmtname)


def fmt_profile(run):
    """numeric radix/width profile of the binary-data formatters; end-of-data tests compare plain positions"""
    R = "TAB-fmt"
    prog = run.prog
    spec = run.table("formats")
    from collections import Counter, defaultdict
    prof = defaultdict(Counter)
    for f in prog.real_fns():
        root = f.raw.get("root") or f.id
        if "bitvec_format" not in root:
            continue
        for bi, t in f.calls():
            m = re.search(r"Argument::<'_>::new_(\w+)$", t.get("callee") or "")
            if m:
                ty = (t.get("gargs") or ["?"])[-1].lstrip("&")      # `{:02X}` of a `&u8` prints the u8
                if re.search(r"^&?(u8|u16|u32|u64|usize|i32|i64|isize|util::bigint::BigInt)$", ty):
                    prof[root.rsplit("::", 1)[-1]]["%s<%s>" % (m.group(1), ty)] += 1
    # numbers printed by a private helper of the module count for the formatters that call it
    calls_local = defaultdict(set)
    for f in prog.real_fns():
        root = f.raw.get("root") or f.id
        if "bitvec_format" not in root:
            continue
        for bi, t in f.calls():
            c = t.get("resolved") or t.get("callee") or ""
            if re.search(r"^util::bitvec_format\w*::(<impl util::bitvec::BitVec>::)?(?!format_)\w+$", c) and prog.fn(c) is not None:
                calls_local[root.rsplit("::", 1)[-1]].add(c.rsplit("::", 1)[-1])
    def folded(name, seen=()):
        tot = Counter(prof.get(name, {}))
        for h in calls_local.get(name, ()):
            if h not in seen and h != name:
                tot += folded(h, seen + (name,))
        return tot
    for name, want in sorted(spec["numeric_profile"].items()):
        if name.startswith("_"):
            continue
        got = dict(folded(name))
        g = prog.find("BitVec>::" + name)
        # the kinds (radix and integer type) are what a reader of the format depends on; how many format sites print them is a
        # matter of code layout (a header printed field by field or in a loop) and is not compared
        run.check(set(got) == set(want), R, "%s|numeric-profile|%s" % (R, name), g[0].loc() if g else "-",
                  "%s prints its numbers as %s" % (name, got),
                  "%s prints its numbers as %s; the format's rules (audited) require %s — a field printed in another radix or from a wider type no longer decodes" % (name, got, want))
    # end-of-data tests
    audited = set(spec.get("audited_end_tests", []))
    n = 0
    for f in prog.real_fns():
        root = f.raw.get("root") or f.id
        if "bitvec_format" not in root:
            continue
        for bi, si, st in f.stmts():
            if st["k"] != "assign" or st["rv"]["k"] != "binop" or st["rv"]["op"] not in ("Lt", "Le", "Gt", "Ge", "Eq", "Ne"):
                continue
            sides = [st["rv"]["l"], st["rv"]["r"]]
            org = [peel(f.origin_op(x)) if op_place(x) is not None else ("const",) for x in sides]
            islen = [o[0] == "call" and (o[1].get("resolved") or "").endswith("bitvec::BitVec::len") for o in org]
            if not any(islen):
                continue
            n += 1
            other = org[1] if islen[0] else org[0]
            raw_other = sides[1] if islen[0] else sides[0]
            computed = other[0] == "binop" or (other[0] == "place" and other[1][0] == "binop")
            ol = op_local(raw_other)
            if ol is not None and f.local_name(f.copy_root(ol)):
                computed = False   # a named position variable, however it was computed
            key = "%s|end-test|%s" % (R, f.id)
            if computed and key not in audited:
                run.violation(R, key, f.loc(st["span"]),
                              "%s compares the output length with a freshly computed position (%s): end-of-data tests in the formatters compare a plain bit position with len(), bits beyond the end read as zero; a shifted bound drops or invents the last partial granule" % (f.id, describe_origin(f, other)))
            else:
                run.ok(R, key + "|%d" % st["span"]["line"] if False else key, f.loc(st["span"]), "%s: end-of-data test compares a plain position with len()" % f.id)
    run.floor(R, "end-of-data tests in formatters", n, 8)
    # a count of whole granules (len / granule, rounded down) is not an end bound: the last, partial granule lies beyond it.  The
    # tree uses such a quotient only inside the round-up idiom `len / g + (if len % g == 0 {0} else {1})`; compared directly with
    # a position it cuts the trailing bits off
    from rules_sym import deep as _deep2
    nq = 0
    for f in prog.real_fns():
        root = f.raw.get("root") or f.id
        if "bitvec_format" not in root:
            continue
        quots = {}
        for bi, si, st in f.stmts():
            if st["k"] == "assign" and st["rv"]["k"] == "binop" and st["rv"]["op"] in ("Div", "Shr") and not st["place"]["p"]:
                try:
                    le = str(_deep2(f, st["rv"]["l"], 3))
                except Exception:
                    continue
                if re.fullmatch(r"(P1\.len|BitVec::len\(P1\))", le):
                    quots[f.copy_root(st["place"]["l"])] = st
        nq += len(quots)
        for bi, si, st in f.stmts():
            if st["k"] == "assign" and st["rv"]["k"] == "binop" and st["rv"]["op"] in ("Lt", "Le", "Gt", "Ge", "Eq", "Ne"):
                for x in (st["rv"]["l"], st["rv"]["r"]):
                    xl = op_local(x)
                    if xl is not None and f.copy_root(xl) in quots:
                        run.violation(R, "%s|end-test|rounded-down|%s" % (R, f.id), f.loc(st["span"]),
                                      "%s compares a position with the number of *whole* granules in the output (len / granule, rounded down, computed at line %s): when the length is not a multiple of the granule, the trailing bits are treated as beyond the end and dropped from the output" % (f.id, quots[f.copy_root(xl)]["span"]["line"]))
    run.check(nq >= 3, R, R + "|end-test|rounded-down|floor", "-", "rounded-down granule counts in the formatters: %d, none is compared with a position" % nq,
              "rounded-down granule counts in the formatters: found %d, 3 were confirmed by hand (anchor lost?)" % nq)


def bit_source(run, R="TAB-fmt"):
    """sibling agreement of the formatters: every formatter obtains the assembled bits by asking the BitVec for single bits
    (`read_bit`, which answers 0 past the end -- the zero padding of the last granule), its length and its blocks/spans, or by
    delegating to the sibling the audited wrapper table names.  A formatter that gets its data any other way (another
    formatter's bytes, the backing integer) deviates from all its siblings and from what was audited."""
    prog = run.prog
    spec = run.table("formats")
    allowed = re.compile(r"util::bitvec::BitVec::(len|read_bit|get_blocks)$")
    n = 0
    for f in prog.real_fns():
        if f.kind not in ("AssocFn", "Fn") or not re.search(r"^util::bitvec_format\w*::(<impl util::bitvec::BitVec>::)?\w+$", f.id):
            continue
        name = f.id.rsplit("::", 1)[-1]
        if name.startswith("format_"):
            n += 1
        bad = []
        for bi, t in f.calls():
            tys = t.get("arg_tys", [])
            if not tys or not re.fullmatch(r"&(mut )?util::bitvec::BitVec", tys[0]):
                continue
            c = t.get("resolved") or t.get("callee") or "?"
            if allowed.search(c):
                continue
            w = spec["wrappers"].get(name)
            if w and c.endswith("::" + w[0]):
                continue
            # a private helper of the formatter module (not itself a formatter: not a target of the dispatch or wrapper tables) is
            # held to the same rule where it is defined
            known_formatters = {v[0] for v in spec["dispatch"].values()} | {v[0] for v in spec["wrappers"].values()} | set(spec["wrappers"].keys())
            if re.search(r"^util::bitvec_format\w*::(<impl util::bitvec::BitVec>::)?\w+$", c) and prog.fn(c) is not None and c.rsplit("::", 1)[-1] not in known_formatters:
                continue
            bad.append(c.rsplit("::", 1)[-1])
        run.check(not bad, R, "%s|bit-source|%s" % (R, name), f.loc(),
                  "%s reads the assembled bits through read_bit/len/get_blocks or its audited wrapper target" % name,
                  "%s obtains its data through %s: every sibling formatter reads single bits with read_bit (zero past the end), so the padding of the last granule and the bit order are not what was audited" % (name, sorted(set(bad))))
    run.floor(R, "formatters with a bit source", n, 15)


def tab_cli_escapes_gated(run, R="TAB-cli"):
    """`--color=off` means no escape sequence at all: a text that contains the escape character reaches the output only through
    `StringStyler::add_style`, the one function that asks `use_colors` first.  Every use of such a constant (or literal) anywhere in
    the crate is an argument of add_style"""
    import json
    prog = run.prog
    esc = set()
    for c in prog.fns.values():
        if c.kind not in ("Const", "Static", "AssocConst"):
            continue
        txt = json.dumps(c.raw.get("blocks"))
        if "\\u001b" in txt or "\\u{1b}" in txt or "\x1b" in txt:
            esc.add(c.id)
    gate = [f for f in prog.real_fns() if f.id.endswith("StringStyler::add_style")]
    gated = False
    for f in gate:
        for b in sorted(f.reachable()):
            tt = f.blocks[b]["term"]
            if tt["k"] == "switch" and op_local(tt["discr"]) is not None:
                o = f.origin_op(tt["discr"])
                if o and o[0] == "place" and o[2] and isinstance(o[2][-1], dict) and o[2][-1].get("name") == "use_colors":
                    gated = True
    n, bad = 0, []
    for f in prog.real_fns():
        for bi, si, st in f.stmts():
            if st["k"] != "assign":
                continue
            txt = json.dumps(st["rv"])
            hit = [e for e in esc if ('"%s"' % e) in txt] or (["literal"] if ("\\u001b" in txt or "\x1b" in txt) else [])
            if not hit:
                continue
            n += 1
            dl = st["place"]["l"]
            users = [t for b2, t in f.calls() if any(value_depends_on(f, a, dl) for a in t["args"])]
            if not users or not all((t.get("resolved") or t.get("callee") or "").endswith("StringStyler::add_style") for t in users):
                bad.append("%s in %s" % (hit[0].rsplit("::", 1)[-1], f.id.rsplit("::", 1)[-1]))
    run.check(bool(esc) and gated and n >= 5 and not bad, R, R + "|color|escapes-gated", gate[0].loc() if gate else "-",
              "every escape sequence reaches the output through add_style, which asks use_colors (%d use(s) of %d constant(s))" % (n, len(esc)),
              "an escape sequence is written without asking `use_colors` (%s): `--color=off` still produces ANSI escapes in the diagnostics" % (", ".join(bad) or "gate not found: add_style no longer tests use_colors"))


def tab_cli_missing_values(run, pc, R="TAB-cli"):
    """an option that takes a value does something only with that value: every option declared with an optional argument
    (`HasArg::Maybe`) is asked `opt_present` in parse_command, and being present without a value ends in error + Err - the option
    is never silently ignored (`customasm main.asm -o` writing the derived name, `-t` running with the default budget)"""
    from rules_sym import deep as _deep
    mk = run.anchor(R, "driver::make_opts")
    if mk is None:
        return
    maybe = [[x for x in (r["short"], r["long"]) if x] for r in getopts_registrations(mk) if r["hasarg"] == "Maybe"]
    n, bad = 0, []
    for names in maybe:
        n += 1
        ok = False
        for bi, t in pc.calls():
            if not (t.get("callee") or "").endswith("Matches::opt_present") or len(t["args"]) < 2:
                continue
            lit = cstr(pc, t["args"][1])
            if lit not in names:
                continue
            bt = T.bool_test(pc, t)
            if bt is None:
                continue
            reg = T.reach_following_consts(pc, bt[0])
            # on the `present` edge an error + Err is reachable before anything else happens with the group
            if report_error_in_region(pc, reg) and err_return_in_region(pc, reg):
                ok = True
        if not ok:
            bad.append("/".join(names))
    run.check(n >= 2 and not bad, R, R + "|value-options|missing-value-rejected", pc.loc(), "every option with an optional argument is rejected when it is given without one (%d option(s))" % n,
              "parse_command looks only at the value of %s: given without a value the option is silently ignored (`customasm main.asm -o` writes the derived name and exits 0)" % (", ".join("`%s`" % b for b in bad) or "options that were not found in make_opts"))
