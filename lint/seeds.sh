#!/bin/bash
# re-run every confirmed seeded change of /verif/seeded against the current checks (each on a scratch copy of /repo)
cd /verif
fail=0
for s in seeded/*/patch.diff; do
  id=$(basename $(dirname $s))
  prop=$(python3 -c "import json;print(json.load(open('seeded/$id/meta.json'))['property'])")
  out=$(SEED_LINES=200 lint/seedtest.sh $s $prop 2>&1)
  n=$(echo "$out" | grep -c "^VIOLATION")
  if echo "$out" | grep -q "DOES NOT APPLY"; then echo "stale     $id ($prop): patch no longer applies to /repo"; 
  elif echo "$out" | grep -q "cannot analyse the tree"; then echo "stale     $id ($prop): the patched tree does not compile (patch applied with fuzz onto changed code)"; fail=1;
  elif [ "$n" -gt 0 ]; then echo "detected  $id ($prop): $n violation(s)"; else echo "MISSED    $id ($prop)"; fail=1; fi
done
exit $fail
