"""MPT — must-pass-through / argument-agreement rules (C01, C06, C12, C14, C15, C16, C17)."""
import re
from mir import (peel, op_place, op_local, const_int, describe_origin, natural_loop)
import tables as T
from rules_tab import value_depends_on, cstr, err_return_in_region, report_error_in_region

TRY = "std::ops::Try::branch"


def success_edge_of_call(f, bi, t):
    """(switch block, target) reached exactly when the Result of call t (block bi) is Ok, through its `?`;
    None when the result is not `?`-propagated right away"""
    if t["dest"]["p"]:
        return None
    dl = t["dest"]["l"]
    # follow move into Try::branch
    cur = t["target"]
    hops = 0
    res_l = dl
    while cur is not None and hops < 6:
        hops += 1
        tt = f.blocks[cur]["term"]
        if tt["k"] == "call" and (tt.get("callee") or "") == TRY and tt["args"] and op_local(tt["args"][0]) is not None and f.copy_root(op_local(tt["args"][0])) in (res_l, f.copy_root(res_l)):
            cf = tt["dest"]["l"]
            sb = tt["target"]
            st = f.blocks[sb]["term"]
            if st["k"] == "switch":
                for v, tg in st["targets"]:
                    if v == "0":
                        return (sb, tg)
            return None
        if tt["k"] in ("goto", "drop") or (tt["k"] == "call" and (tt.get("resolved") or "").endswith("pop_parent")):
            cur = tt.get("target")
            continue
        break
    return None


def source_chain(f, op, limit=14):
    """names of the calls a value comes from, looking through `?`, unwrap, as_ref, clone, deref and payload projections"""
    out = []
    o = f.origin_op(op) if op_place(op) is not None else ("const", op)
    n = 0
    while o is not None and n < limit:
        n += 1
        if o[0] in ("ref", "cast"):
            o = o[1]
        elif o[0] == "place":
            out.append("." + ".".join(pr["name"] if isinstance(pr, dict) and "name" in pr else (pr.get("downcast", "") if isinstance(pr, dict) else "") for pr in o[2] if pr != "deref"))
            o = o[1]
        elif o[0] == "call":
            t = o[1]
            out.append(t.get("resolved_full") or t.get("resolved") or t.get("callee") or "indirect")
            c = t.get("callee") or ""
            if t["args"] and (c in ("std::ops::Try::branch", "std::clone::Clone::clone", "std::ops::Deref::deref") or re.search(r"(Option|Result)::<.*>::(unwrap|as_ref|expect|clone|unwrap_or)$", c) or c.endswith("unwrap_bigint") or c.endswith("::get")):
                o = f.origin_op(t["args"][0]) if not c.endswith("::get") else None
                if c.endswith("::get"):
                    break
            else:
                break
        elif o[0] == "param":
            out.append("param:" + str(f.local_name(o[1])))
            break
        elif o[0] == "multi":
            out.append("var:" + str(f.local_name(o[1])))
            break
        else:
            break
    return out


def calls_to(f, suffix):
    return [(bi, t) for bi, t in f.calls() if (t.get("resolved") or t.get("callee") or "").endswith(suffix)]


def guarded_by_success(f, guard_calls, site_block):
    """is site_block only reachable through the Ok edge of (one of) the guard calls?"""
    for bi, t in guard_calls:
        se = success_edge_of_call(f, bi, t)
        if se and f.edge_dominates(se[0], se[1], site_block):
            return (bi, t)
    return None


def same_origin(f, a, b):
    da = describe_origin(f, f.origin_op(a)) if op_place(a) is not None else str(const_int(a))
    db = describe_origin(f, f.origin_op(b)) if op_place(b) is not None else str(const_int(b))
    return da == db, da, db


# ---------------------------------------------------------------------------------------------- C06 / C12 / C01

def build_output_rules(run, R="MPT"):
    prog = run.prog
    f = run.anchor(R, "asm::output::build_output")
    if f is None:
        return
    writes = calls_to(f, "BitVec::write_bigint_with_span")
    usage = calls_to(f, "output::check_bank_usage")
    outp = calls_to(f, "output::check_bank_output")
    ovl = calls_to(f, "OverlapChecker::check_and_insert")
    run.floor(R, "emission sites in build_output", len(writes), 2)
    run.floor(R, "check_bank_output calls", len(outp), 4)
    run.floor(R, "overlap insertions", len(ovl), 3)
    for wb, wt in writes:
        what = describe_origin(f, f.origin_op(wt["args"][4])).replace("&", "").replace("*", "")
        chain = " ".join(source_chain(f, wt["args"][4]))
        kind = "instruction" if "instruction::Instruction" in chain else ("data element" if "data_block::DataElement" in chain else what[-40:])
        key = "%s|emit|%s" % (R, kind)
        loc = f.loc(wt["span"])
        g1 = guarded_by_success(f, usage, wb)
        run.check(g1 is not None, R, key + "|usage", loc, "%s: written only after check_bank_usage succeeded" % kind,
                  "%s bits can be written without a successful check_bank_usage (default bank used while custom banks exist)" % kind)
        g2 = guarded_by_success(f, outp, wb)
        ok2 = g2 is not None
        why2 = "no dominating successful check_bank_output"
        if ok2:
            gb, gt = g2
            # args: (report, span, decls, defs, ctx, size, write)
            w_ok = const_int(gt["args"][6]) == 1
            size_desc = describe_origin(f, f.origin_op(gt["args"][5]))
            enc = what
            ok2 = w_ok and (enc + ".size") in size_desc.replace("&", "").replace("*", "")
            why2 = "check_bank_output is called with write=%s and size `%s` for an item `%s`" % (const_int(gt["args"][6]), size_desc, enc)
        run.check(ok2, R, key + "|range", loc, "%s: written only after check_bank_output(size of this item, write = true) succeeded" % kind,
                  "%s bits can leave their bank: %s" % (kind, why2))
        g3 = guarded_by_success(f, ovl, wb)
        ok3 = g3 is not None
        why3 = "no dominating successful overlap_checker.check_and_insert"
        if ok3:
            ob, ot = g3
            s1, a1, b1 = same_origin(f, ot["args"][3], wt["args"][2])     # position
            size_desc = describe_origin(f, f.origin_op(ot["args"][4])).replace("&", "").replace("*", "")
            ok3 = s1 and (what + ".size") in size_desc
            why3 = "check_and_insert(pos=%s, size=%s) vs write at %s of `%s`" % (a1, size_desc, b1, what)
        run.check(ok3, R, key + "|overlap", loc, "%s: written only after the overlap checker accepted exactly this position and size" % kind,
                  "%s bits can overwrite other output: %s" % (kind, why3))
        # position and address come from the iterator context
        pd = describe_origin(f, f.origin_op(wt["args"][2]))
        ad = " ".join(source_chain(f, wt["args"][3]))
        run.check("get_output_position" in pd, R, key + "|position", loc, "%s: output position = ctx.get_output_position()" % kind, "%s is written at `%s`, not at ctx.get_output_position()" % (kind, pd))
        run.check("get_address" in ad, R, key + "|address", loc, "%s: recorded address = ctx.get_address()" % kind, "%s records address `%s`, not ctx.get_address()" % (kind, ad))
    # labels: range test with size 0 / no write; span at the output position with the symbol's value
    marks = calls_to(f, "BitVec::mark_span")
    run.floor(R, "label spans", len(marks), 1)
    for mb, mt in marks:
        g2 = guarded_by_success(f, outp, mb)
        ok = g2 is not None and const_int(g2[1]["args"][5]) == 0 and const_int(g2[1]["args"][6]) == 0
        run.check(ok, R, R + "|label|range", f.loc(mt["span"]), "labels are range-checked with size 0 and write = false", "a label is recorded without check_bank_output(.., 0, false)")
        pd = describe_origin(f, f.origin_op(mt["args"][1]))
        vd = " ".join(source_chain(f, mt["args"][3]))
        run.check("get_output_position" in pd and "value" in vd, R, R + "|label|span", f.loc(mt["span"]), "a label's listing row carries its output position and its symbol value", "label row built from `%s` / `%s`" % (pd, vd))
    # reservations enter the overlap checker with their own size
    res_ins = [(b, t) for b, t in ovl if "reserve_size" in describe_origin(f, f.origin_op(t["args"][4]))]
    run.check(len(res_ins) == 1, R, R + "|res|overlap", f.loc(), "#res regions are inserted into the overlap checker with reserve_size", "#res regions are not inserted into the overlap checker with their reserve_size")
    # fill happens before the walk, on the same output
    fb = calls_to(f, "output::fill_banks")
    nb = calls_to(f, "ResolveIterator::<'ast, 'decls>::next")
    run.check(bool(fb) and bool(nb) and all(f.dominates(fb[0][0], b) for b, t in nb), R, R + "|fill-first", f.loc(), "fill_banks runs on the output before items are written", "fill_banks is not applied before the items are written")
    # the iterator of build_output is a final pass (no guessing): ResolveIterator::new(ast, defs, false, true)
    newc = calls_to(f, "ResolveIterator::<'ast, 'decls>::new")
    ok = bool(newc) and [const_int(a) for a in newc[0][1]["args"][2:4]] == [0, 1]
    run.check(ok, R, R + "|final-walk", f.loc(), "build_output walks the program as a last (no-guess) pass", "build_output's walk is not (is_first=false, is_last=true)")


def bitvec_rules(run, R="MPT"):
    prog = run.prog
    w = run.anchor(R, "BitVec::write_bigint_with_span")
    if w:
        wb = calls_to(w, "BitVec::write_bigint")
        ms = calls_to(w, "BitVec::mark_span")
        ok = len(wb) == 1 and len(ms) == 1
        if ok:
            s1, a1, b1 = same_origin(w, wb[0][1]["args"][1], {"copy": {"l": 3, "p": []}})
            po = peel(w.origin_op(ms[0][1]["args"][1]))
            off_ok = po[0] == "agg" and po[1].get("variant") == "Some" and describe_origin(w, w.origin_op(po[1]["ops"][0])) == "param:offset"
            sz = describe_origin(w, w.origin_op(ms[0][1]["args"][2]))
            ok = describe_origin(w, w.origin_op(wb[0][1]["args"][1])) == "param:offset" and off_ok and "param:bigint.size" in sz.replace("*", "")
        run.check(ok, R, R + "|span=write", w.loc(), "write_bigint_with_span records a span with exactly the offset and size it writes", "write_bigint_with_span writes and records different offsets/sizes")
    # who may write bits: only write_bigint_with_span (from the output builder), fill_banks, and the incstr helper
    allowed = run.table("mpt")["bit_writers"]
    n = 0
    for f in prog.real_fns():
        for bi, t in f.calls():
            r = t.get("resolved") or ""
            if r.endswith("bitvec::BitVec::write_bigint") or r.endswith("bitvec::BitVec::write_bit"):
                n += 1
                run.check(f.id in allowed, R, "%s|bit-writer|%s" % (R, f.id), f.loc(t["span"]), "%s writes output bits (audited: %s)" % (f.id, allowed.get(f.id, "")),
                          "%s writes bits into a BitVec but is not an audited writer: every emitted item must come with its span" % f.id)
    run.floor(R, "bit writer call sites", n, 3)
    # listing formatters iterate spans only after sorting them by offset
    for name in ("format_annotated", "format_tcgame", "format_addrspan"):
        g = prog.find("BitVec>::" + name)
        if len(g) != 1:
            run.violation(R, R + "|sorted|anchor|" + name, "-", "mechanism not found: " + name)
            continue
        g = g[0]
        _sorted_spans(run, g, R, name)
    gb = run.anchor(R, "bitvec::BitVec::get_blocks")
    if gb:
        _sorted_spans(run, gb, R, "get_blocks")


def _sorted_spans(run, g, R, name):
    sorts = [bi for bi, t in g.calls() if re.search(r"slice::<impl \[T\]>::sort", t.get("resolved") or t.get("callee") or "")]
    iters = [bi for bi, t in g.calls() if (t.get("callee") or "") in ("std::iter::IntoIterator::into_iter",) and "BitVecSpan" in " ".join(t.get("arg_tys", []))]
    # the sort key is the offset
    keyed = False
    for h in run.prog.real_fns():
        if h.kind == "Closure" and h.raw.get("parent") == g.id:
            for bi, si, st in h.stmts():
                if st["k"] == "assign":
                    from mir import rv_places
                    for pl in rv_places(st["rv"]):
                        if any(isinstance(pr, dict) and pr.get("name") == "offset" for pr in pl["p"]):
                            keyed = True
    ok = bool(sorts) and bool(iters) and all(any(g.dominates(s, i) for s in sorts) for i in iters) and keyed
    run.check(ok, R, "%s|sorted|%s" % (R, name), g.loc(), "%s walks the spans only after sorting them by output offset" % name,
              "%s iterates the spans without a dominating sort by offset: rows would appear in emission order of the walk, not output order" % name)


def pipeline(run, R="PIPE"):
    """phases of asm::assemble: each phase runs only after the previous one succeeded, output last"""
    f = run.prog.fn("asm::assemble::{closure#0}")
    if f is None:
        run.violation(R, R + "|anchor", "-", "mechanism not found: run closure of asm::assemble")
        return
    order = run.table("mpt")["pipeline"]
    prev = None
    for name in order:
        cs = calls_to(f, name)
        if not cs:
            run.violation(R, "%s|%s" % (R, name), f.loc(), "phase `%s` is not called by asm::assemble" % name)
            prev = None
            continue
        if prev is not None:
            pn, pcs = prev
            good = all(guarded_by_success(f, pcs, b) is not None for b, t in cs)
            run.check(good, R, "%s|%s->%s" % (R, pn.rsplit("::", 1)[-1], name.rsplit("::", 1)[-1]), f.loc(cs[0][1]["span"]),
                      "`%s` runs only after `%s` succeeded" % (name.rsplit("::", 1)[-1], pn.rsplit("::", 1)[-1]),
                      "`%s` can run although `%s` did not succeed (or before it)" % (name.rsplit("::", 1)[-1], pn.rsplit("::", 1)[-1]))
        prev = (name, cs)
    # the loop of the first phases exits only when nothing changed
    rc = calls_to(f, "resolver::constant::resolve_constants_simple")
    ri = calls_to(f, "resolver::directive_if::resolve_ifs")
    ok = False
    if rc and ri:
        # a comparison of the constant count with its previous value and of the ifs count with 0 guards the loop exit
        eqs = []
        for bi, si, st in f.stmts():
            if st["k"] == "assign" and st["rv"]["k"] == "binop" and st["rv"]["op"] in ("Eq", "Ne"):
                ds = [" ".join(source_chain(f, x)) if op_place(x) is not None else str(const_int(x)) for x in (st["rv"]["l"], st["rv"]["r"])]
                eqs.append(ds)
        c1 = any(any("resolve_constants_simple" in d for d in ds) and any("prev_resolved_constants_count" in d for d in ds) for ds in eqs)
        c2 = any(any("resolve_ifs" in d for d in ds) and "0" in ds for ds in eqs)
        ok = c1 and c2
    run.check(ok, R, R + "|prepass-loop-exit", f.loc(), "the declare/resolve-constants/resolve-ifs loop ends only when no constant and no #if was resolved in a round",
              "the pre-pass loop's exit no longer compares the resolved-constants count with the previous round and the resolved-#if count with 0")


def symbol_listing(run, R="MPT"):
    prog = run.prog
    f = prog.find("format_recursive")
    f = [x for x in f if "symbol_format" in x.id]
    if len(f) != 1:
        run.violation(R, R + "|symbols|anchor", "-", "mechanism not found: symbol_format::format_recursive")
        return
    f = f[0]
    # formatter called only on the false edge of symbol.no_emit
    calls = [(bi, t) for bi, t in f.calls() if t.get("callee") in ("std::ops::FnMut::call_mut", "std::ops::Fn::call", "std::ops::FnOnce::call_once")]
    ok = False
    for bi, t in calls:
        for b in f.dominators().get(bi, ()):
            tt = f.blocks[b]["term"]
            if tt["k"] == "switch" and op_local(tt["discr"]) is not None:
                dl = op_local(tt["discr"])
                o = f.origin_local(dl)
                neg = False
                if o[0] == "unop" and o[1]["op"] == "Not":
                    neg = True
                    d = describe_origin(f, f.origin_op(o[1]["x"]))
                else:
                    d = describe_origin(f, f.origin_local(f.copy_root(dl)))
                if d.endswith(".no_emit"):
                    ft = [tg for v, tg in tt["targets"] if v == "0"][0]
                    emit_edge = tt["otherwise"] if neg else ft
                    if f.edge_dominates(b, emit_edge, bi):
                        ok = True
    run.check(bool(calls) and ok, R, R + "|symbols|no_emit", f.loc(), "a symbol is listed only on the `!no_emit` edge", "the symbol formatter can be called for a symbol marked no_emit (or the test is gone)")
    # the value printed is the symbol's own final value
    vals = False
    for bi, t in calls:
        ops = list(t["args"])
        for a in t["args"]:
            o = peel(f.origin_op(a))
            if o[0] == "agg" and o[1].get("agg") == "tuple":
                ops += o[1]["ops"]
        d = " ".join(" ".join(source_chain(f, a)) for a in ops)
        if ".value" in d:
            vals = True
    run.check(vals, R, R + "|symbols|value", f.loc(), "the listed value is the symbol's resolved value", "the symbol formatter is not given the symbol's value")


# ---------------------------------------------------------------------------------------------- C01 rejections

def rejections(run, R="REJ"):
    prog = run.prog
    # R1: every result of match_instr is tested by error_on_no_matches before use
    sites = 0
    for f in prog.real_fns():
        for bi, t in f.calls():
            if (t.get("resolved") or "") != "asm::matcher::match_instr":
                continue
            sites += 1
            dl = t["dest"]["l"]
            chk = [(b2, t2) for b2, t2 in f.calls() if (t2.get("resolved") or "").endswith("matcher::error_on_no_matches") and any(value_depends_on(f, a, dl) for a in t2["args"])]
            ok = bool(chk) and all(f.dominates(bi, b2) for b2, _ in chk)
            # nothing else reads the matches before the check (uses of the vector other than the check must be dominated by it)
            key = "%s|no-match|%s" % (R, f.id)
            if ok:
                from mir import fn_uses
                from rules_det import alias_closure
                aliases, uses = alias_closure(f, dl)
                cb = chk[0][0]
                early = [u for u in uses if u[0] != cb and not f.dominates(cb, u[0]) and not (u[1] == "term" and u[2] is chk[0][1])]
                ok = not early
            run.check(ok, R, key, f.loc(t["span"]), "%s: the matches of match_instr are tested by error_on_no_matches before any other use" % f.id,
                      "%s uses the result of match_instr without (or before) error_on_no_matches: an unknown instruction would not be reported" % f.id)
    run.floor(R, "match_instr call sites", sites, 2)
    en = run.anchor(R, "matcher::error_on_no_matches")
    if en:
        # len == 0 -> error + Err
        ok = False
        for bi, si, st in en.stmts():
            if st["k"] == "assign" and st["rv"]["k"] == "binop" and st["rv"]["op"] in ("Eq", "Ne") and (const_int(st["rv"]["r"]) == 0 or const_int(st["rv"]["l"]) == 0):
                tt = en.blocks[bi]["term"]
                if tt["k"] == "switch":
                    ft = [tg for v, tg in tt["targets"] if v == "0"][0]
                    empty_t = tt["otherwise"] if st["rv"]["op"] == "Eq" else ft
                    reg = T.dominated_region(en, empty_t, bi)
                    ok = report_error_in_region(en, reg) and err_return_in_region(en, reg)
        run.check(ok, R, R + "|no-match|helper", en.loc(), "error_on_no_matches: an empty match list is reported and returns Err", "error_on_no_matches no longer reports/returns Err for an empty match list")
    # R2: ties are an error in a last pass
    re_ = run.anchor(R, "instruction::resolve_encoding")
    if re_:
        # the `Some(smallest_encodings)` return must not be reachable from the (!can_guess && len > 1) region
        gt = None
        for bi, si, st in re_.stmts():
            if st["k"] == "assign" and st["rv"]["k"] == "binop" and st["rv"]["op"] in ("Gt", "Ge") and const_int(st["rv"]["r"]) in (1, 2):
                d = " ".join(source_chain(re_, st["rv"]["l"]))
                if "::len" in d:
                    gt = (bi, st)
        ok = False
        if gt:
            bi, st = gt
            tt = re_.blocks[bi]["term"]
            if tt["k"] == "switch":
                tie_t = tt["otherwise"]
                reg = T.dominated_region(re_, tie_t, bi)
                pushes = any((t2.get("resolved") or "").endswith("Report::push_multiple") or (t2.get("resolved") or "").endswith("Report::error_span") for b2, t2 in T.region_calls(re_, reg))
                somes = [b2 for b2, st2 in T.region_aggregates(re_, reg) if st2["rv"].get("variant") == "Some" and "Option" in st2["rv"].get("adt", "")]
                # behind the !can_guess edge
                from rules_fix import edge_true_dominates
                last = False
                for b in re_.dominators().get(bi, ()):
                    t3 = re_.blocks[b]["term"]
                    if t3["k"] == "switch" and op_local(t3["discr"]) is not None:
                        o = re_.origin_local(op_local(t3["discr"]))
                        if o[0] == "unop" and o[1]["op"] == "Not":
                            inner = re_.origin_op(o[1]["x"])
                            if inner[0] == "call" and (inner[1].get("resolved") or "").endswith("can_guess"):
                                last = True
                        elif o[0] == "call" and (o[1].get("resolved") or "").endswith("can_guess"):
                            last = True
                ok = pushes and not somes and last
        run.check(ok, R, R + "|tie", re_.loc(), "resolve_encoding: several equally small encodings in a last pass are reported and yield None, never a choice",
                  "resolve_encoding no longer turns a tie between equally small encodings into an error in the last pass")
    # R3: an unresolved symbol is an error unless guessing
    ev = run.anchor(R, "resolver::eval::eval_variable")
    if ev:
        gb = calls_to(ev, "SymbolManager::<T>::get_by_name")
        run.check(len(gb) == 1 and success_edge_of_call(ev, gb[0][0], gb[0][1]) is not None, R, R + "|symbol|lookup", ev.loc(),
                  "eval_variable propagates the failure of get_by_name (undefined symbol)", "eval_variable does not propagate the failure of the symbol lookup")
        cg = [bi for bi, t in ev.calls() if (t.get("resolved") or "").endswith("can_guess")]
        ok = False
        for bi in cg:
            tt = ev.blocks[ev.blocks[bi]["term"]["target"]]["term"] if ev.blocks[bi]["term"]["target"] is not None else None
            # the edge on which guessing is NOT allowed must report and return Err
            b2 = ev.blocks[bi]["term"]["target"]
            for b in [b2] + ev.succs(b2):
                t3 = ev.blocks[b]["term"]
                if t3["k"] == "switch":
                    for s_ in ev.succs(b):
                        reg = T.dominated_region(ev, s_, b)
                        if report_error_in_region(ev, reg) and err_return_in_region(ev, reg):
                            ok = True
        run.check(ok, R, R + "|symbol|unknown-is-error", ev.loc(), "an Unknown symbol value is an error when guessing is not allowed", "eval_variable no longer reports an unresolved symbol in the last pass")
