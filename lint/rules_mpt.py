"""MPT — must-pass-through / argument-agreement rules (C01, C06, C12, C14, C15, C16, C17)."""
import re, json
from mir import (peel, op_place, op_local, const_int, describe_origin, natural_loop)
import tables as T
from rules_tab import value_depends_on, cstr, err_return_in_region, report_error_in_region

TRY = "std::ops::Try::branch"


def success_edge_of_call(f, bi, t):
    """(switch block, target) reached exactly when the Result of call t (block bi) is Ok, through its `?`;
    None when the result is not `?`-propagated right away"""
    if t["dest"]["p"]:
        return None
    dl = t["dest"]["l"]
    # follow move into Try::branch
    cur = t["target"]
    hops = 0
    res_l = dl
    while cur is not None and hops < 6:
        hops += 1
        tt = f.blocks[cur]["term"]
        if tt["k"] == "call" and (tt.get("callee") or "") == TRY and tt["args"] and op_local(tt["args"][0]) is not None and f.copy_root(op_local(tt["args"][0])) in (res_l, f.copy_root(res_l)):
            cf = tt["dest"]["l"]
            sb = tt["target"]
            st = f.blocks[sb]["term"]
            if st["k"] == "switch":
                for v, tg in st["targets"]:
                    if v == "0":
                        return (sb, tg)
            return None
        if tt["k"] in ("goto", "drop") or (tt["k"] == "call" and (tt.get("resolved") or "").endswith("pop_parent")):
            cur = tt.get("target")
            continue
        break
    return None


def source_chain(f, op, limit=14):
    """names of the calls a value comes from, looking through `?`, unwrap, as_ref, clone, deref and payload projections"""
    out = []
    o = f.origin_op(op) if op_place(op) is not None else ("const", op)
    n = 0
    while o is not None and n < limit:
        n += 1
        if o[0] in ("ref", "cast"):
            o = o[1]
        elif o[0] == "place":
            out.append("." + ".".join(pr["name"] if isinstance(pr, dict) and "name" in pr else (pr.get("downcast", "") if isinstance(pr, dict) else "") for pr in o[2] if pr != "deref"))
            o = o[1]
        elif o[0] == "call":
            t = o[1]
            out.append(t.get("resolved_full") or t.get("resolved") or t.get("callee") or "indirect")
            c = t.get("callee") or ""
            if t["args"] and (c in ("std::ops::Try::branch", "std::clone::Clone::clone", "std::ops::Deref::deref", "std::borrow::Borrow::borrow", "std::convert::AsRef::as_ref") or re.search(r"(Option|Result)::<.*>::(unwrap|as_ref|expect|clone|unwrap_or)$", c) or c.endswith("unwrap_bigint") or c.endswith("::get")):
                o = f.origin_op(t["args"][0]) if not c.endswith("::get") else None
                if c.endswith("::get"):
                    break
            else:
                break
        elif o[0] == "param":
            out.append("param:" + str(f.local_name(o[1])))
            out.append("P%d" % o[1])
            break
        elif o[0] == "multi":
            out.append("var:" + str(f.local_name(o[1])))
            break
        else:
            break
    return out


def calls_to(f, suffix):
    return [(bi, t) for bi, t in f.calls() if (t.get("resolved") or t.get("callee") or "").endswith(suffix)]


def guarded_by_success(f, guard_calls, site_block):
    """is site_block only reachable through the Ok edge of (one of) the guard calls?"""
    for bi, t in guard_calls:
        se = success_edge_of_call(f, bi, t)
        if se and f.edge_dominates(se[0], se[1], site_block):
            return (bi, t)
    return None


def same_origin(f, a, b):
    da = describe_origin(f, f.origin_op(a)) if op_place(a) is not None else str(const_int(a))
    db = describe_origin(f, f.origin_op(b)) if op_place(b) is not None else str(const_int(b))
    return da == db, da, db


# ---------------------------------------------------------------------------------------------- C06 / C12 / C01

def build_output_rules(run, R="MPT"):
    prog = run.prog
    f = run.anchor(R, "asm::output::build_output")
    if f is None:
        return
    writes = calls_to(f, "BitVec::write_bigint_with_span")
    usage = calls_to(f, "output::check_bank_usage")
    outp = calls_to(f, "output::check_bank_output")
    ovl = calls_to(f, "OverlapChecker::check_and_insert")
    run.floor(R, "emission sites in build_output", len(writes), 2)
    run.floor(R, "check_bank_output calls", len(outp), 4)
    run.floor(R, "overlap insertions", len(ovl), 3)
    for wb, wt in writes:
        what = describe_origin(f, f.origin_op(wt["args"][4])).replace("&", "").replace("*", "")
        chain = " ".join(source_chain(f, wt["args"][4]))
        kind = "instruction" if "instruction::Instruction" in chain else ("data element" if "data_block::DataElement" in chain else what[-40:])
        key = "%s|emit|%s" % (R, kind)
        loc = f.loc(wt["span"])
        g1 = guarded_by_success(f, usage, wb)
        run.check(g1 is not None, R, key + "|usage", loc, "%s: written only after check_bank_usage succeeded" % kind,
                  "%s bits can be written without a successful check_bank_usage (default bank used while custom banks exist)" % kind)
        g2 = guarded_by_success(f, outp, wb)
        ok2 = g2 is not None
        why2 = "no dominating successful check_bank_output"
        if ok2:
            gb, gt = g2
            # args: (report, span, decls, defs, ctx, size, write)
            w_ok = const_int(gt["args"][6]) == 1
            size_desc = describe_origin(f, f.origin_op(gt["args"][5]))
            enc = what
            ok2 = w_ok and (enc + ".size") in size_desc.replace("&", "").replace("*", "")
            why2 = "check_bank_output is called with write=%s and size `%s` for an item `%s`" % (const_int(gt["args"][6]), size_desc, enc)
        run.check(ok2, R, key + "|range", loc, "%s: written only after check_bank_output(size of this item, write = true) succeeded" % kind,
                  "%s bits can leave their bank: %s" % (kind, why2))
        g3 = guarded_by_success(f, ovl, wb)
        ok3 = g3 is not None
        why3 = "no dominating successful overlap_checker.check_and_insert"
        if ok3:
            ob, ot = g3
            s1, a1, b1 = same_origin(f, ot["args"][3], wt["args"][2])     # position
            size_desc = describe_origin(f, f.origin_op(ot["args"][4])).replace("&", "").replace("*", "")
            ok3 = s1 and (what + ".size") in size_desc
            why3 = "check_and_insert(pos=%s, size=%s) vs write at %s of `%s`" % (a1, size_desc, b1, what)
        run.check(ok3, R, key + "|overlap", loc, "%s: written only after the overlap checker accepted exactly this position and size" % kind,
                  "%s bits can overwrite other output: %s" % (kind, why3))
        # position and address come from the iterator context
        pd = describe_origin(f, f.origin_op(wt["args"][2]))
        ad = " ".join(source_chain(f, wt["args"][3]))
        run.check("get_output_position" in pd, R, key + "|position", loc, "%s: output position = ctx.get_output_position()" % kind, "%s is written at `%s`, not at ctx.get_output_position()" % (kind, pd))
        run.check("get_address" in ad, R, key + "|address", loc, "%s: recorded address = ctx.get_address()" % kind, "%s records address `%s`, not ctx.get_address()" % (kind, ad))
    # labels: range test with size 0 / no write; span at the output position with the symbol's value
    marks = calls_to(f, "BitVec::mark_span")
    run.floor(R, "label spans", len(marks), 1)
    for mb, mt in marks:
        g2 = guarded_by_success(f, outp, mb)
        ok = g2 is not None and const_int(g2[1]["args"][5]) == 0 and const_int(g2[1]["args"][6]) == 0
        run.check(ok, R, R + "|label|range", f.loc(mt["span"]), "labels are range-checked with size 0 and write = false", "a label is recorded without check_bank_output(.., 0, false)")
        pd = describe_origin(f, f.origin_op(mt["args"][1]))
        vd = " ".join(source_chain(f, mt["args"][3]))
        run.check("get_output_position" in pd and "value" in vd, R, R + "|label|span", f.loc(mt["span"]), "a label's listing row carries its output position and its symbol value", "label row built from `%s` / `%s`" % (pd, vd))
    # reservations enter the overlap checker with their own size
    res_ins = [(b, t) for b, t in ovl if "reserve_size" in describe_origin(f, f.origin_op(t["args"][4]))]
    run.check(len(res_ins) == 1, R, R + "|res|overlap", f.loc(), "#res regions are inserted into the overlap checker with reserve_size", "#res regions are not inserted into the overlap checker with their reserve_size")
    # fill happens before the walk, on the same output
    fb = calls_to(f, "output::fill_banks")
    nb = calls_to(f, "ResolveIterator::<'ast, 'decls>::next")
    run.check(bool(fb) and bool(nb) and all(f.dominates(fb[0][0], b) for b, t in nb), R, R + "|fill-first", f.loc(), "fill_banks runs on the output before items are written", "fill_banks is not applied before the items are written")
    # the iterator of build_output is a final pass (no guessing): ResolveIterator::new(ast, defs, false, true)
    newc = calls_to(f, "ResolveIterator::<'ast, 'decls>::new")
    ok = bool(newc) and [const_int(a) for a in newc[0][1]["args"][2:4]] == [0, 1]
    run.check(ok, R, R + "|final-walk", f.loc(), "build_output walks the program as a last (no-guess) pass", "build_output's walk is not (is_first=false, is_last=true)")


def bitvec_rules(run, R="MPT"):
    prog = run.prog
    w = run.anchor(R, "BitVec::write_bigint_with_span")
    if w:
        wb = calls_to(w, "BitVec::write_bigint")
        ms = calls_to(w, "BitVec::mark_span")
        ok = len(wb) == 1 and len(ms) == 1
        if ok:
            # written at offset X the value V; recorded: Some(X), V.size - the same parameter expressions, whatever they are called
            wx = _deep(w, wb[0][1]["args"][1], 4)
            wv = _deep(w, wb[0][1]["args"][2], 4)
            mo = _deep(w, ms[0][1]["args"][1], 4)
            msz = _deep(w, ms[0][1]["args"][2], 4)
            ok = bool(re.fullmatch(r"P\d+", wx)) and bool(re.fullmatch(r"P\d+", wv)) and mo == "Some{%s}" % wx and msz == "%s.size" % wv
        run.check(ok, R, R + "|span=write", w.loc(), "write_bigint_with_span records a span with exactly the offset and size it writes", "write_bigint_with_span writes and records different offsets/sizes")
    # who may write bits: only write_bigint_with_span (from the output builder), fill_banks, and the incstr helper
    allowed = run.table("mpt")["bit_writers"]
    n = 0
    for f in prog.real_fns():
        for bi, t in f.calls():
            r = t.get("resolved") or ""
            if r.endswith("bitvec::BitVec::write_bigint") or r.endswith("bitvec::BitVec::write_bit"):
                n += 1
                run.check(f.id in allowed, R, "%s|bit-writer|%s" % (R, f.id), f.loc(t["span"]), "%s writes output bits (audited: %s)" % (f.id, allowed.get(f.id, "")),
                          "%s writes bits into a BitVec but is not an audited writer: every emitted item must come with its span" % f.id)
    run.floor(R, "bit writer call sites", n, 3)
    # listing formatters iterate spans only after sorting them by offset
    for name in ("format_annotated", "format_tcgame", "format_addrspan"):
        g = prog.find("BitVec>::" + name)
        if len(g) != 1:
            run.violation(R, R + "|sorted|anchor|" + name, "-", "mechanism not found: " + name)
            continue
        g = g[0]
        _sorted_spans(run, g, R, name)
    gb = run.anchor(R, "bitvec::BitVec::get_blocks")
    if gb:
        _sorted_spans(run, gb, R, "get_blocks")


def _sorted_spans(run, g, R, name):
    sorts = [bi for bi, t in g.calls() if re.search(r"slice::<impl \[T\]>::sort", t.get("resolved") or t.get("callee") or "")]
    iters = [bi for bi, t in g.calls() if (t.get("callee") or "") in ("std::iter::IntoIterator::into_iter",) and "BitVecSpan" in " ".join(t.get("arg_tys", []))]
    # the sort key is the offset
    keyed = False
    for h in run.prog.real_fns():
        if h.kind == "Closure" and h.raw.get("parent") == g.id:
            for bi, si, st in h.stmts():
                if st["k"] == "assign":
                    from mir import rv_places
                    for pl in rv_places(st["rv"]):
                        if any(isinstance(pr, dict) and pr.get("name") == "offset" for pr in pl["p"]):
                            keyed = True
    ok = bool(sorts) and bool(iters) and all(any(g.dominates(s, i) for s in sorts) for i in iters) and keyed
    # spans that share an offset (a label and the item after it, zero-sized items) keep the order they were written in: the sort is stable
    unstable = [t.get("callee") for bi, t in g.calls() if re.search(r"slice::<impl \[T\]>::sort_unstable", t.get("resolved") or t.get("callee") or "")]
    run.check(not unstable, R, "%s|sorted-stable|%s" % (R, name), g.loc(), "%s sorts its spans with a stable sort" % name,
              "%s sorts its spans with `%s`: rows that share an output position (a label and the item that follows it) would be listed in an arbitrary order" % (name, (unstable or ["?"])[0].rsplit("::", 1)[-1]))
    run.check(ok, R, "%s|sorted|%s" % (R, name), g.loc(), "%s walks the spans only after sorting them by output offset" % name,
              "%s iterates the spans without a dominating sort by offset: rows would appear in emission order of the walk, not output order" % name)


def pipeline(run, R="PIPE"):
    """phases of asm::assemble: each phase runs only after the previous one succeeded, output last"""
    f = run.prog.fn("asm::assemble::{closure#0}")
    if f is None:
        run.violation(R, R + "|anchor", "-", "mechanism not found: run closure of asm::assemble")
        return
    order = run.table("mpt")["pipeline"]
    prev = None
    for name in order:
        cs = calls_to(f, name)
        if not cs:
            run.violation(R, "%s|%s" % (R, name), f.loc(), "phase `%s` is not called by asm::assemble" % name)
            prev = None
            continue
        if prev is not None:
            pn, pcs = prev
            good = all(guarded_by_success(f, pcs, b) is not None for b, t in cs)
            run.check(good, R, "%s|%s->%s" % (R, pn.rsplit("::", 1)[-1], name.rsplit("::", 1)[-1]), f.loc(cs[0][1]["span"]),
                      "`%s` runs only after `%s` succeeded" % (name.rsplit("::", 1)[-1], pn.rsplit("::", 1)[-1]),
                      "`%s` can run although `%s` did not succeed (or before it)" % (name.rsplit("::", 1)[-1], pn.rsplit("::", 1)[-1]))
        prev = (name, cs)
    # the loop of the first phases exits only when nothing changed
    rc = calls_to(f, "resolver::constant::resolve_constants_simple")
    ri = calls_to(f, "resolver::directive_if::resolve_ifs")
    ok = False
    if rc and ri:
        # a comparison of the constant count with its previous value and of the ifs count with 0 guards the loop exit
        eqs = []
        for bi, si, st in f.stmts():
            if st["k"] == "assign" and st["rv"]["k"] == "binop" and st["rv"]["op"] in ("Eq", "Ne"):
                ds = [" ".join(source_chain(f, x)) if op_place(x) is not None else str(const_int(x)) for x in (st["rv"]["l"], st["rv"]["r"])]
                eqs.append(ds)
        c1 = any(any("resolve_constants_simple" in d for d in ds) and any("prev_resolved_constants_count" in d for d in ds) for ds in eqs)
        c2 = any(any("resolve_ifs" in d for d in ds) and "0" in ds for ds in eqs)
        ok = c1 and c2
    run.check(ok, R, R + "|prepass-loop-exit", f.loc(), "the declare/resolve-constants/resolve-ifs loop ends only when no constant and no #if was resolved in a round",
              "the pre-pass loop's exit no longer compares the resolved-constants count with the previous round and the resolved-#if count with 0")


def symbol_listing(run, R="MPT"):
    prog = run.prog
    f = prog.find("format_recursive")
    f = [x for x in f if "symbol_format" in x.id]
    if len(f) != 1:
        run.violation(R, R + "|symbols|anchor", "-", "mechanism not found: symbol_format::format_recursive")
        return
    f = f[0]
    # formatter called only on the false edge of symbol.no_emit
    calls = [(bi, t) for bi, t in f.calls() if t.get("callee") in ("std::ops::FnMut::call_mut", "std::ops::Fn::call", "std::ops::FnOnce::call_once")]
    ok = False
    for bi, t in calls:
        for b in f.dominators().get(bi, ()):
            tt = f.blocks[b]["term"]
            if tt["k"] == "switch" and op_local(tt["discr"]) is not None:
                dl = op_local(tt["discr"])
                o = f.origin_local(dl)
                neg = False
                if o[0] == "unop" and o[1]["op"] == "Not":
                    neg = True
                    d = describe_origin(f, f.origin_op(o[1]["x"]))
                else:
                    d = describe_origin(f, f.origin_local(f.copy_root(dl)))
                if d.endswith(".no_emit"):
                    ft = [tg for v, tg in tt["targets"] if v == "0"][0]
                    emit_edge = tt["otherwise"] if neg else ft
                    if f.edge_dominates(b, emit_edge, bi):
                        ok = True
    run.check(bool(calls) and ok, R, R + "|symbols|no_emit", f.loc(), "a symbol is listed only on the `!no_emit` edge", "the symbol formatter can be called for a symbol marked no_emit (or the test is gone)")
    # the value printed is the symbol's own final value
    vals = False
    for bi, t in calls:
        ops = list(t["args"])
        for a in t["args"]:
            o = peel(f.origin_op(a))
            if o[0] == "agg" and o[1].get("agg") == "tuple":
                ops += o[1]["ops"]
        d = " ".join(" ".join(source_chain(f, a)) for a in ops)
        if ".value" in d:
            vals = True
    run.check(vals, R, R + "|symbols|value", f.loc(), "the listed value is the symbol's resolved value", "the symbol formatter is not given the symbol's value")


# ---------------------------------------------------------------------------------------------- C01 rejections

def rejections(run, R="REJ"):
    prog = run.prog
    # R1: every result of match_instr is tested by error_on_no_matches before use
    sites = 0
    for f in prog.real_fns():
        for bi, t in f.calls():
            if (t.get("resolved") or "") != "asm::matcher::match_instr":
                continue
            sites += 1
            dl = t["dest"]["l"]
            chk = [(b2, t2) for b2, t2 in f.calls() if (t2.get("resolved") or "").endswith("matcher::error_on_no_matches") and any(value_depends_on(f, a, dl) for a in t2["args"])]
            ok = bool(chk) and all(f.dominates(bi, b2) for b2, _ in chk)
            # nothing else reads the matches before the check (uses of the vector other than the check must be dominated by it)
            key = "%s|no-match|%s" % (R, f.id)
            if ok:
                from mir import fn_uses
                from rules_det import alias_closure
                aliases, uses = alias_closure(f, dl)
                cb = chk[0][0]
                early = [u for u in uses if u[0] != cb and not f.dominates(cb, u[0]) and not (u[1] == "term" and u[2] is chk[0][1])]
                ok = not early
            run.check(ok, R, key, f.loc(t["span"]), "%s: the matches of match_instr are tested by error_on_no_matches before any other use" % f.id,
                      "%s uses the result of match_instr without (or before) error_on_no_matches: an unknown instruction would not be reported" % f.id)
    run.floor(R, "match_instr call sites", sites, 2)
    en = run.anchor(R, "matcher::error_on_no_matches")
    if en:
        # len == 0 -> error + Err
        ok = False
        for bi, si, st in en.stmts():
            if st["k"] == "assign" and st["rv"]["k"] == "binop" and st["rv"]["op"] in ("Eq", "Ne") and (const_int(st["rv"]["r"]) == 0 or const_int(st["rv"]["l"]) == 0):
                tt = en.blocks[bi]["term"]
                if tt["k"] == "switch":
                    ft = [tg for v, tg in tt["targets"] if v == "0"][0]
                    empty_t = tt["otherwise"] if st["rv"]["op"] == "Eq" else ft
                    reg = T.dominated_region(en, empty_t, bi)
                    ok = report_error_in_region(en, reg) and err_return_in_region(en, reg)
        run.check(ok, R, R + "|no-match|helper", en.loc(), "error_on_no_matches: an empty match list is reported and returns Err", "error_on_no_matches no longer reports/returns Err for an empty match list")
    # R2: ties are an error in a last pass
    re_ = run.anchor(R, "instruction::resolve_encoding")
    if re_:
        # the `Some(smallest_encodings)` return must not be reachable from the (!can_guess && len > 1) region
        gt = None
        for bi, si, st in re_.stmts():
            if st["k"] == "assign" and st["rv"]["k"] == "binop" and st["rv"]["op"] in ("Gt", "Ge") and const_int(st["rv"]["r"]) in (1, 2):
                d = " ".join(source_chain(re_, st["rv"]["l"]))
                if "::len" in d:
                    gt = (bi, st)
        ok = False
        if gt:
            bi, st = gt
            tt = re_.blocks[bi]["term"]
            if tt["k"] == "switch":
                tie_t = tt["otherwise"]
                reg = T.dominated_region(re_, tie_t, bi)
                pushes = any((t2.get("resolved") or "").endswith("Report::push_multiple") or (t2.get("resolved") or "").endswith("Report::error_span") for b2, t2 in T.region_calls(re_, reg))
                somes = [b2 for b2, st2 in T.region_aggregates(re_, reg) if st2["rv"].get("variant") == "Some" and "Option" in st2["rv"].get("adt", "")]
                # behind the !can_guess edge
                from rules_fix import edge_true_dominates
                last = False
                for b in re_.dominators().get(bi, ()):
                    t3 = re_.blocks[b]["term"]
                    if t3["k"] == "switch" and op_local(t3["discr"]) is not None:
                        o = re_.origin_local(op_local(t3["discr"]))
                        if o[0] == "unop" and o[1]["op"] == "Not":
                            inner = re_.origin_op(o[1]["x"])
                            if inner[0] == "call" and (inner[1].get("resolved") or "").endswith("can_guess"):
                                last = True
                        elif o[0] == "call" and (o[1].get("resolved") or "").endswith("can_guess"):
                            last = True
                ok = pushes and not somes and last
        run.check(ok, R, R + "|tie", re_.loc(), "resolve_encoding: several equally small encodings in a last pass are reported and yield None, never a choice",
                  "resolve_encoding no longer turns a tie between equally small encodings into an error in the last pass")
    # R3: an unresolved symbol is an error unless guessing
    ev = run.anchor(R, "resolver::eval::eval_variable")
    if ev:
        gb = calls_to(ev, "SymbolManager::<T>::get_by_name")
        run.check(len(gb) == 1 and success_edge_of_call(ev, gb[0][0], gb[0][1]) is not None, R, R + "|symbol|lookup", ev.loc(),
                  "eval_variable propagates the failure of get_by_name (undefined symbol)", "eval_variable does not propagate the failure of the symbol lookup")
        cg = [bi for bi, t in ev.calls() if (t.get("resolved") or "").endswith("can_guess")]
        ok = False
        for bi in cg:
            tt = ev.blocks[ev.blocks[bi]["term"]["target"]]["term"] if ev.blocks[bi]["term"]["target"] is not None else None
            # the edge on which guessing is NOT allowed must report and return Err
            b2 = ev.blocks[bi]["term"]["target"]
            for b in [b2] + ev.succs(b2):
                t3 = ev.blocks[b]["term"]
                if t3["k"] == "switch":
                    for s_ in ev.succs(b):
                        reg = T.dominated_region(ev, s_, b)
                        if report_error_in_region(ev, reg) and err_return_in_region(ev, reg):
                            ok = True
        run.check(ok, R, R + "|symbol|unknown-is-error", ev.loc(), "an Unknown symbol value is an error when guessing is not allowed", "eval_variable no longer reports an unresolved symbol in the last pass")


# ---------------------------------------------------------------------------------------------- C14 inclusion

FS_API = re.compile(r"^(std::fs::|std::path::Path::(exists|try_exists|is_file|is_dir|is_symlink|read_dir|metadata|canonicalize|read_link|symlink_metadata)|std::env::(current_dir|set_current_dir))")


def _param_by_type(f, rx):
    """index of the single parameter whose type matches rx"""
    ps = [i for i in range(1, f.arg_count + 1) if re.search(rx, f.local_ty(i) or "")]
    return ps[0] if len(ps) == 1 else None


def _iterates_param(g, op, pidx):
    """op is an element of the slice parameter number pidx, obtained from its iterator"""
    ch = source_chain(g, op)
    if pidx is None or not any(c.endswith("Iterator::next") or c.endswith("Iterator>::next") for c in ch):
        return False
    for bi, t in g.calls():
        if (t.get("callee") or "").endswith("IntoIterator::into_iter") and ("P%d" % pidx) in source_chain(g, t["args"][0]):
            return True
    return False


def inclusion(run, R="INC"):
    prog = run.prog
    nav = run.anchor(R, "file_navigation::filename_navigate")
    # INC1: names that reach get_handle inside asm:: come from filename_navigate (or are the file name parameter of
    # parse_and_resolve_includes, whose callers pass root names or navigated names)
    n = 0
    for f in prog.real_fns():
        if not f.id.startswith("asm::"):
            continue
        for bi, t in f.calls():
            if not (t.get("callee") or "").endswith("FileServer::get_handle"):
                continue
            n += 1
            ch = " ".join(source_chain(f, t["args"][3]))
            key = "%s|navigated|%s" % (R, f.id)
            if "filename_navigate" in ch:
                run.ok(R, key, f.loc(t["span"]), "%s opens a name produced by filename_navigate" % f.id)
            elif f.id.endswith("parse_and_resolve_includes") and _param_by_type(f, r"^S$") is not None and ("P%d" % _param_by_type(f, r"^S$")) in source_chain(f, t["args"][3]):
                # its callers
                ok = True
                for g in prog.real_fns():
                    for b2, t2 in g.calls():
                        if (t2.get("resolved") or "") == f.id:
                            c2 = " ".join(source_chain(g, t2["args"][3]))
                            if not ("filename_navigate" in c2 or (g.id.endswith("parse_many_and_resolve_includes") and _iterates_param(g, t2["args"][3], _param_by_type(g, r"^&\[S\]$")))):
                                ok = False
                run.check(ok, R, key, f.loc(t["span"]), "%s opens its file name parameter, which is a root file or a navigated name at every call site" % f.id,
                          "%s is called with a file name that is neither a root file name nor the result of filename_navigate" % f.id)
            else:
                run.violation(R, key, f.loc(t["span"]), "%s opens `%s`, which did not pass filename_navigate: relative resolution and confinement would be bypassed" % (f.id, ch[:120]))
    run.floor(R, "get_handle call sites in asm::", n, 2)       # 3 on the pinned tree; two inclusion functions may share one helper
    # INC2: filename_navigate validates and collapses; `..` past the start is an error
    if nav:
        val = calls_to(nav, "file_navigation::filename_validate_relative")
        oks = [bi for bi, si, st in nav.stmts() if st["k"] == "assign" and st["place"]["l"] == 0 and not st["place"]["p"] and st["rv"]["k"] == "agg" and st["rv"].get("variant") == "Ok"]
        std_ok = []
        other_ok = []
        for b in oks:
            # the early return for <std>/ names is the one dominated by the true edge of is_std_path
            from rules_fix import edge_true_dominates
            if edge_true_dominates(nav, lambda d: "is_std_path" in d, b):
                std_ok.append(b)
            else:
                other_ok.append(b)
        ok = bool(val) and bool(other_ok) and all(guarded_by_success(nav, val, b) is not None for b in other_ok)
        run.check(ok, R, R + "|navigate|validated", nav.loc(), "every non-<std> result of filename_navigate passed filename_validate_relative",
                  "filename_navigate can return a path that did not pass filename_validate_relative")
        run.check(len(std_ok) <= 1, R, R + "|navigate|std-early-return", nav.loc(), "only <std>/ names are returned verbatim", "several verbatim returns in filename_navigate")
        # `..` with an empty stack -> error + Err; the pop happens only on the other edge
        found = False
        for bi, t in nav.calls():
            if (t.get("callee") or "") in ("std::cmp::PartialEq::eq", "std::cmp::PartialEq::ne") and any(T.promoted_str(prog, nav, x) == ".." for x in t["args"]) and t["target"] is not None:
                sw = T.bool_test(nav, t)
                if sw is None:
                    continue
                if t["callee"].endswith("ne"):
                    sw = (sw[1], sw[0], sw[2])     # (`is ..` edge, `is not ..` edge, block)
                swb = sw[2] if len(sw) > 2 else sw[2]
                reg = T.dominated_region(nav, sw[0], swb)
                removes = [b3 for b3, t3 in T.region_calls(nav, reg) if (t3.get("callee") or "").endswith("::remove") or (t3.get("callee") or "").endswith("::pop")]
                if not removes:
                    continue
                okr = True
                for rb in removes:
                    g_ok = False
                    for b2 in reg:
                        t2 = nav.blocks[b2]["term"]
                        if t2["k"] != "switch":
                            continue
                        ss = nav.succs(b2)
                        for e in ss:
                            if nav.edge_dominates(b2, e, rb):
                                for o_ in ss:
                                    if o_ != e:
                                        r2 = T.dominated_region(nav, o_, b2)
                                        if report_error_in_region(nav, r2) and err_return_in_region(nav, r2):
                                            g_ok = True
                    okr = okr and g_ok
                if not okr:
                    # `if stack.pop().is_none() { error }`: the removal is the emptiness test
                    from rules_sym import option_tests
                    for sb_, some_, none_ in option_tests(nav, lambda d: d.startswith("Vec::pop(")):
                        if sb_ in reg or nav.dominates(swb, sb_):
                            r2 = T.dominated_region(nav, none_, sb_)
                            if report_error_in_region(nav, r2) and err_return_in_region(nav, r2):
                                okr = True
                found = found or okr
        # every component of the result went through the `..` test: the stack that `..` pops from starts empty and is only
        # pushed to behind the `is not ..` edge
        stack_ok = False
        why_s = "collapse stack not found"
        for bi, t in nav.calls():
            if (t.get("callee") or "") in ("std::cmp::PartialEq::eq", "std::cmp::PartialEq::ne") and any(T.promoted_str(prog, nav, x) == ".." for x in t["args"]) and t["target"] is not None:
                sw = T.bool_test(nav, t)
                if sw is None:
                    continue
                if t["callee"].endswith("ne"):
                    sw = (sw[1], sw[0], sw[2])
                reg = T.dominated_region(nav, sw[0], sw[2])
                pops = [t3 for b3, t3 in T.region_calls(nav, reg) if (t3.get("callee") or "").endswith("::remove") or (t3.get("callee") or "").endswith("::pop")]
                if not pops:
                    continue
                from rules_sym import _root_of_ref
                stack = _root_of_ref(nav, pops[0]["args"][0])
                defs = nav.full_defs(stack) if stack is not None else []
                starts_empty = len(defs) == 1 and defs[0][0] == "call" and re.search(r"Vec::<.*>::new$", defs[0][2].get("callee") or "") is not None
                pushes = [(b3, t3) for b3, t3 in nav.calls() if re.search(r"Vec::<.*>::(push|extend|append|insert|extend_from_slice)$", t3.get("callee") or "") and _root_of_ref(nav, t3["args"][0]) == stack]
                guarded = all(nav.edge_dominates(t["target"], sw[1], b3) for b3, t3 in pushes)
                stack_ok = starts_empty and bool(pushes) and guarded
                why_s = "the stack `..` pops from %s" % ("does not start empty (it is pre-filled with components that were never tested for `..`)" if not starts_empty else "is pushed to outside the `is not ..` edge")
        # both slash styles are one separator: every separator-sensitive string operation works on the normalised spelling
        raw_ops = []
        n_sep = 0
        for bi_, t_ in nav.calls():
            c_ = t_.get("callee") or ""
            if not re.search(r"<impl str>::(starts_with|ends_with|contains|find|rfind|split|rsplit|split_once|rsplit_once|strip_prefix|strip_suffix|split_terminator|trim_start_matches|trim_end_matches)$", c_) or len(t_["args"]) < 2:
                continue
            pat = _deep(nav, t_["args"][1], 3)
            if "/" not in pat and "\\" not in pat:
                continue
            n_sep += 1
            recv = _deep(nav, t_["args"][0], 6)
            if not re.search(r'str::replace\(.*, "\\\\", "/"\)', recv):
                raw_ops.append("%s(%s, %s)" % (c_.rsplit("::", 1)[-1], recv[:40], pat))
        run.check(n_sep >= 2 and not raw_ops, R, R + "|navigate|separators-normalised", nav.loc(),
                  "every separator-sensitive test or split in filename_navigate reads the spelling with `\\` replaced by `/` (%d operation(s))" % n_sep,
                  "filename_navigate tests or splits a path as written, before `\\` is turned into `/` (%s): the backslash spelling of a path would be resolved differently from its forward-slash spelling" % raw_ops)
        # `.` and empty components are no directories: every list of components that `..` can pop from has been through the filter
        # that drops them (the written path is; the including file's own path has to be as well)
        unfiltered = []
        for bi_, t_ in nav.calls():
            if (t_.get("callee") or "").endswith("<impl str>::split") and len(t_["args"]) >= 2 and "/" in _deep(nav, t_["args"][1], 3):
                d_ = _deep(nav, {"copy": t_["dest"]}, 3)
                used_in_filter = any((t2.get("callee") or "").endswith("Iterator::filter") and d_ in _deep(nav, t2["args"][0], 5) for _, t2 in nav.calls())
                if not used_in_filter:
                    unfiltered.append(_deep(nav, t_["args"][0], 4)[:50])
        run.check(not unfiltered, R, R + "|navigate|dot-components-collapsed", nav.loc(),
                  "`.` and empty components are dropped from both paths before `..` is collapsed",
                  "filename_navigate splits `%s` into components without dropping `.` and empty ones: a `..` then pops such a component instead of a directory, so with a root file given as `./main.asm` (or `sub//m.asm`) the path `../x.asm` is accepted and names a file outside the root file's directory" % ", ".join(unfiltered))
        run.check(stack_ok, R, R + "|navigate|all-components-tested", nav.loc(), "every component of the result (from the including file's path as well as from the written path) went through the `..` test",
                  "filename_navigate: %s: `..` components in the including file's own path survive into the result, so a root file given as `../x/main.asm` can name files outside the working directory" % why_s)
        # no way round the collapse: every path answered `Ok` is either a library path handed back unchanged (behind the
        # `is_std_path` edge) or leaves through the `..` loop - an early `Ok` for "simple" names skips the confinement test for
        # the including file's own components
        dd_heads = []
        for bi, t in nav.calls():
            if (t.get("callee") or "") in ("std::cmp::PartialEq::eq", "std::cmp::PartialEq::ne") and any(T.promoted_str(prog, nav, x) == ".." for x in t["args"]):
                best = None
                for h_ in sorted(nav.reachable()):
                    l_ = natural_loop(nav, h_)
                    if bi in l_ and (best is None or len(l_) < len(best[1])):
                        best = (h_, l_)
                if best:
                    dd_heads.append(best[0])
        std_edge = None
        for bi, t in calls_to(nav, "file_navigation::is_std_path"):
            sw_ = T.bool_test(nav, t)
            if sw_ is not None:
                std_edge = (sw_[2], sw_[0])
        oks, stray = 0, []
        for bi, si, st in nav.stmts():
            if st["k"] == "assign" and st["rv"]["k"] == "agg" and st["rv"].get("adt") == "std::result::Result" and st["rv"].get("variant") == "Ok":
                oks += 1
                through = any(nav.dominates(h_, bi) and bi not in natural_loop(nav, h_) for h_ in dd_heads)
                is_std = std_edge is not None and nav.edge_dominates(std_edge[0], std_edge[1], bi)
                if not (through or is_std):
                    stray.append(nav.loc(st.get("span")) if st.get("span") else "bb%d" % bi)
        run.check(oks >= 1 and bool(dd_heads) and not stray, R, R + "|navigate|ok-only-through-collapse", nav.loc(),
                  "every `Ok` of filename_navigate is the unchanged library path or comes after the `..` collapse loop (%d Ok construction(s))" % oks,
                  "filename_navigate answers `Ok` on a path that does not run the `..` collapse (%s): the including file's own components are then never tested, so with a root file given as `../outer.asm` a plain `#include \"sibling.asm\"` reads outside the working directory" % (", ".join(stray) or "collapse loop not found"))
        run.check(found, R, R + "|navigate|dotdot-confined", nav.loc(), "`..` with nothing left to pop is reported and rejected", "filename_navigate no longer rejects `..` past the start of the path")
    # real file system only behind `!is_std_path`, and only inside the file server
    allowed = run.table("mpt")["fs_users"]
    n = 0
    for f in prog.real_fns():
        for bi, t in f.calls():
            c = t.get("callee") or ""
            if FS_API.match(c):
                n += 1
                root = f.raw.get("root") or f.id
                run.check(root in allowed, R, "%s|fs-user|%s" % (R, root), f.loc(t["span"]), "%s uses the file system API (audited: %s)" % (root, allowed.get(root, "")),
                          "%s calls `%s` but is not an audited user of the file system: files must only be opened through the file server" % (root, c))
    run.floor(R, "file system API call sites", n, 3)
    gh = [g for g in prog.real_fns() if g.id.endswith("FileServerReal as util::fileserver::FileServer>::get_handle")]
    if len(gh) != 1:
        run.violation(R, R + "|std-never-on-disk|anchor", "-", "mechanism not found: FileServerReal::get_handle")
    else:
        g = gh[0]
        ex = [bi for bi, t in g.calls() if (t.get("callee") or "").endswith("Path::exists")]
        ins = [bi for bi, t in g.calls() if (t.get("callee") or "").endswith("::insert")]
        isstd = calls_to(g, "file_navigation::is_std_path")
        ok = bool(isstd) and bool(ins)
        if ok:
            ib, it = isstd[0]
            sw = T.bool_test(g, it)
            if sw is None:
                ok = False
            else:
                true_reg = set()
                work = [sw[0]]
                # blocks reachable from the `is std` edge must not register a new handle
                from rules_fix import reach_from
                # the true edge may share its target with the `!exists` edge (an `||`): what matters is that no insert is
                # reachable from it
                true_reach = reach_from(g, sw[0])
                ok = not any(b in true_reach for b in ins)
        run.check(ok, R, R + "|std-never-on-disk", g.loc(), "FileServerReal::get_handle never registers a <std>/ name from the file system",
                  "FileServerReal::get_handle can look a `<std>/...` name up on the real file system: with a directory named `<std>` in the working directory, `<std>/../../x` escapes the project")
    # INC3: cycle detection and #once
    pr = run.anchor(R, "asm::parser::parse_and_resolve_includes")
    if pr:
        rec = [(bi, t) for bi, t in pr.calls() if (t.get("resolved") or "") == pr.id]
        cont = [(bi, t) for bi, t in pr.calls() if (t.get("callee") or "").endswith("::contains")]
        # the include stack and the #once set are the parameters of those types
        sp_ = "P%s" % _param_by_type(pr, r"^&mut std::vec::Vec<std::string::String>$")
        op_ = "P%s" % _param_by_type(pr, r"^&mut std::collections::HashSet<std::string::String>$")
        push = [bi for bi, t in pr.calls() if (t.get("callee") or "").endswith("Vec::<T, A>::push") and sp_ in source_chain(pr, t["args"][0])]
        pop = [bi for bi, t in pr.calls() if (t.get("callee") or "").endswith("Vec::<T, A>::pop") and sp_ in source_chain(pr, t["args"][0])]
        seen_c = [(bi, t) for bi, t in cont if sp_ in source_chain(pr, t["args"][0])]
        once_c = [(bi, t) for bi, t in cont if op_ in source_chain(pr, t["args"][0])]
        ok = len(rec) == 1 and len(seen_c) == 1
        if ok:
            rb, rt = rec[0]
            cb, ct = seen_c[0]
            sw = T.bool_test(pr, ct)
            ok = sw is not None and pr.edge_dominates(sw[2], sw[1], rb)
            if ok:
                treg = T.dominated_region(pr, sw[0], sw[2])
                ok = report_error_in_region(pr, treg) and err_return_in_region(pr, treg)
        run.check(ok, R, R + "|cycle", pr.loc(), "the recursive inclusion happens only on the `not already on the include stack` edge; the other edge reports and fails",
                  "parse_and_resolve_includes can recurse into a file that is already on the include stack (or no longer reports the cycle): inclusion cycles loop until the stack overflows")
        okp = len(rec) == 1 and bool(push) and bool(pop) and all(pr.dominates(p_, rec[0][0]) for p_ in push) and all(pr.dominates(rec[0][0], p_) for p_ in pop)
        run.check(okp, R, R + "|cycle|stack", pr.loc(), "the include stack is pushed before and popped after the recursive call",
                  "the include stack is not pushed before / popped after the recursive call: sibling includes of the same file would be rejected, or cycles missed")
        # the name pushed and tested is the navigated name
        okn = all("filename_navigate" in " ".join(source_chain(pr, t["args"][1])) for bi, t in seen_c)
        run.check(okn, R, R + "|cycle|same-name", pr.loc(), "the cycle test uses the navigated (normalised) file name", "the cycle test does not use the navigated file name")
        # once
        gh_calls = [(bi, t) for bi, t in pr.calls() if (t.get("callee") or "").endswith("FileServer::get_handle")]
        oko = len(once_c) == 1 and bool(gh_calls)
        if oko:
            cb, ct = once_c[0]
            sw = T.bool_test(pr, ct)
            oko = sw is not None and all(pr.edge_dominates(sw[2], sw[1], b) for b, _ in gh_calls)
        run.check(oko, R, R + "|once|tested-first", pr.loc(), "a file marked #once is skipped before it is opened again", "the #once set is not consulted before opening the file")
        ins = [(bi, t) for bi, t in pr.calls() if (t.get("callee") or "").endswith("HashSet::<T, S, A>::insert") or ((t.get("callee") or "").endswith("::insert") and op_ in source_chain(pr, t["args"][0]))]
        anyc = [(bi, t) for bi, t in pr.calls() if (t.get("callee") or "") == "std::iter::Iterator::any"]
        oki = len(ins) == 1 and len(anyc) == 1
        if oki:
            ab, at = anyc[0]
            sw = T.bool_test(pr, at)
            oki = sw is not None and pr.edge_dominates(sw[2], sw[0], ins[0][0])
            # the closure looks for DirectiveOnce
            from mir import closure_of_origin
            cid = closure_of_origin(pr.origin_op(at["args"][1]))
            g2 = prog.fn(cid) if cid else None
            has_once = False
            if g2:
                for bi2, si2, st2 in g2.stmts():
                    if st2["k"] == "assign" and st2["rv"]["k"] == "discr":
                        vs = st2["rv"].get("variants") or {}
                        tt = g2.blocks[bi2]["term"]
                        if tt["k"] == "switch":
                            for v, tg in tt["targets"]:
                                if vs.get(v) == "DirectiveOnce":
                                    has_once = True
            oki = oki and has_once
        run.check(oki, R, R + "|once|marked", pr.loc(), "a file enters the #once set exactly when its AST contains a #once directive",
                  "the #once set is no longer filled on the `contains a DirectiveOnce node` edge")
        # ... and the nodes looked at are the file's own: the test comes before anything is spliced into (or taken out of) them
        if len(anyc) == 1:
            ab = anyc[0][0]
            muts = [(bi, t) for bi, t in pr.calls() if re.search(r"Vec::<.*>::(splice|insert|remove|extend|append|push|drain|retain|extend_from_slice)$", t.get("callee") or "")
                    and str((t.get("arg_tys") or [""])[0]).startswith("&mut") and "AstAny" in str((t.get("arg_tys") or [""])[0])]
            from rules_fix import reach_from
            after = set()
            for mb, _ in muts:
                after |= reach_from(pr, mb)
            okb = bool(muts) and ab not in after
            run.check(okb, R, R + "|once|own-nodes", pr.loc(), "the #once test reads the file's nodes before any included file is spliced into them (%d splice site(s))" % len(muts),
                      "the #once test can run after nodes of included files were spliced into the list it looks at: a file without #once that includes a #once file would be treated as #once itself" if muts else "mechanism not found: the splice of included nodes")
    # the #once set lives across all root files, the include stack is per root file
    pm = run.anchor(R, "asm::parser::parse_many_and_resolve_includes")
    if pm is not None:
        calls_p = [(bi, t) for bi, t in pm.calls() if (t.get("resolved") or "").endswith("parse_and_resolve_includes")]
        oko = len(calls_p) == 1
        why = "%d call(s) of parse_and_resolve_includes" % len(calls_p)
        if oko:
            cb, ct = calls_p[0]
            loops = [natural_loop(pm, h) for h in sorted(pm.reachable())]
            loop = set()
            for l_ in loops:
                if cb in l_:
                    loop |= l_
            def creation_block(op):
                o = pm.origin_op(op)
                while o and o[0] in ("ref", "cast"):
                    o = o[1]
                if o and o[0] == "call":
                    return o[2], (o[1].get("callee") or "")
                if o and o[0] == "multi":
                    ds = pm.full_defs(o[1])
                    if len(ds) == 1 and ds[0][0] == "call":
                        return ds[0][1], (ds[0][2].get("callee") or "")
                return None, ""
            ob, oc = creation_block(ct["args"][5])
            sb, sc = creation_block(ct["args"][4])
            oko = bool(loop) and ob is not None and "HashSet" in oc and ob not in loop
            why = "the #once set is created inside the loop over the root files" if ob in loop else "creation of the #once set not found"
            if oko:
                oko = sb is not None and sb in loop
                why = "the include stack is not fresh for every root file"
        run.check(oko, R, R + "|once|shared-across-roots", pm.loc(), "one #once set for all root files; a fresh include stack per root file",
                  "parse_many_and_resolve_includes: %s: a #once file included from two root files would be spliced twice (or a legitimate second inclusion rejected as a cycle)" % why)
    # incbin returns the file's bytes: the data sliced comes from FileServer::get_bytes, not from a text decoding
    gb_ = run.anchor(R, "eval_fn::eval_builtin_incbin")
    if gb_ is not None:
        sl = [(bi, t) for bi, t in gb_.calls() if (t.get("callee") or "") == "std::ops::Index::index" and "Range" in " ".join(t.get("arg_tys", []))]
        okb = bool(sl)
        chain = []
        for bi, t in sl:
            chain = source_chain(gb_, t["args"][0], 20)
            txt = " ".join(chain)
            good = bool(re.search(r"FileServer>?::get_bytes", txt)) and "get_str" not in txt and "as_bytes" not in txt and "from_utf8" not in txt
            if not good:
                # through a local helper: its own result must come from get_bytes
                for c_ in chain:
                    h = prog.fn(c_)
                    if h is not None:
                        hs = " ".join(" ".join(source_chain(h, {"copy": {"l": 0, "p": []}}, 20)) for _ in [0])
                        rets = [t2 for b2, t2 in h.calls() if t2["dest"]["l"] == 0]
                        htxt = " ".join((t2.get("resolved") or t2.get("callee") or "") for t2 in rets) + " " + hs
                        good = bool(re.search(r"FileServer>?::get_bytes", htxt)) and "get_str" not in htxt
            okb = okb and good
        run.check(okb, R, R + "|incbin|exact-bytes", gb_.loc(), "incbin slices the bytes delivered by FileServer::get_bytes",
                  "incbin no longer slices the raw bytes of the file (data comes from `%s`): invalid UTF-8 sequences would be replaced and every later offset shifts" % " <- ".join(chain)[:200])
    # INC4: range tests dominate the slice in the inclusion functions
    for name in ("eval_fn::eval_builtin_incbin", "eval_fn::eval_builtin_incstr"):
        g = run.anchor(R, name)
        if not g:
            continue
        sl = [(bi, t) for bi, t in g.calls() if (t.get("callee") or "") == "std::ops::Index::index" and "Range" in " ".join(t.get("arg_tys", []))] + calls_to(g, "BigInt::slice")
        # the requested range: `start` is the local that can hold argument 1, `end` the one that can hold start + argument 2
        s_locals, e_locals = [], []
        for l in range(g.arg_count + 1, len(g.locals)):
            ds = g.full_defs(l)
            if len(ds) < 2:
                continue
            exprs = []
            for d in ds:
                if d[0] == "call":
                    exprs.append(_deep(g, ("call", d[2], d[1]), 5))
                elif d[3]["k"] == "assign" and d[3]["rv"]["k"] == "use":
                    exprs.append(_deep(g, d[3]["rv"]["op"], 5))
            if any("saturating_add(" in e or "checked_add(" in e for e in exprs):
                e_locals.append(l)
            elif any(re.search(r"expect_usize\(Index::index\(P\d+\.args, 1_usize\)", e) for e in exprs):
                s_locals.append(l)
        tests = []
        for bi, si, st in g.stmts():
            if st["k"] == "assign" and st["rv"]["k"] == "binop" and st["rv"]["op"] in ("Ge", "Gt"):
                tt = g.blocks[bi]["term"]
                if tt["k"] == "switch":
                    reg = T.dominated_region(g, tt["otherwise"], bi)
                    if report_error_in_region(g, reg) and err_return_in_region(g, reg):
                        ft = [tg for v, tg in tt["targets"] if v == "0"][0]
                        deps = [nm for nm, ls_ in (("start", s_locals), ("end", e_locals)) if any(value_depends_on(g, st["rv"]["l"], l) for l in ls_)]
                        tests.append((bi, ft, deps))
        starts = [x for x in tests if x[2] == ["start"]]
        ends = [x for x in tests if "end" in x[2]]
        ok = bool(sl) and bool(starts) and bool(ends) and all(any(g.edge_dominates(b, ft, sb) for b, ft, d in starts) and any(g.edge_dominates(b, ft, sb) for b, ft, d in ends) for sb, _ in sl)
        # every successful answer went through both tests -- except the one for an empty file (nothing to take a range of)
        ok_blocks = [bi for bi, si, st in g.stmts() if st["k"] == "assign" and st["place"]["l"] == 0 and not st["place"]["p"] and st["rv"]["k"] == "agg" and st["rv"].get("variant") == "Ok"]
        empty_edges = []
        for bi, si, st in g.stmts():
            if st["k"] == "assign" and st["rv"]["k"] == "binop" and st["rv"]["op"] in ("Eq", "Ne") and "0_usize" in (_deep(g, st["rv"]["l"], 3), _deep(g, st["rv"]["r"], 3)):
                tt = g.blocks[bi]["term"]
                if tt["k"] == "switch" and not any(value_depends_on(g, o_, l) for o_ in (st["rv"]["l"], st["rv"]["r"]) for l in s_locals + e_locals) \
                        and not any(re.search(r"expect_usize\(", _deep(g, o_, 8)) for o_ in (st["rv"]["l"], st["rv"]["r"])):
                    ft = [tg for v, tg in tt["targets"] if v == "0"]
                    if ft:
                        empty_edges.append((bi, tt["otherwise"] if st["rv"]["op"] == "Eq" else ft[0]))
        loose = [b for b in ok_blocks if not (any(g.edge_dominates(x, e, b) for x, e in empty_edges) or
                                               (any(g.edge_dominates(x, ft, b) for x, ft, d in starts) and any(g.edge_dominates(x, ft, b) for x, ft, d in ends)))]
        run.check(bool(ok_blocks) and not loose, R, "%s|range-every-ok|%s" % (R, name.rsplit("::", 1)[-1]), g.loc(),
                  "%s: every Ok answer (%d) is behind both range tests, or is the answer for an empty file" % (name.rsplit("::", 1)[-1], len(ok_blocks)),
                  "%s can answer Ok without having passed both range tests (block(s) %s): a range past the end of the file would be accepted and answered with other digits than requested" % (name.rsplit("::", 1)[-1], loose))
        # ... and the empty-file answer is only given when no range was requested (a range of an empty file is past its end)
        cnt_edges = []
        for bi, si, st in g.stmts():
            if st["k"] == "assign" and st["rv"]["k"] == "binop" and st["rv"]["op"] in ("Ge", "Gt", "Lt", "Le", "Eq", "Ne"):
                l_, r_ = _deep(g, st["rv"]["l"], 4), _deep(g, st["rv"]["r"], 4)
                if re.search(r"len\(\*?P\d+\.args\)", l_) and r_ in ("2_usize", "1_usize"):
                    tt = g.blocks[bi]["term"]
                    if tt["k"] != "switch":
                        continue
                    ft = [tg for v, tg in tt["targets"] if v == "0"][0]
                    op = st["rv"]["op"]
                    # the edge on which fewer than two arguments were given
                    few = {("Ge", "2_usize"): ft, ("Gt", "1_usize"): ft, ("Lt", "2_usize"): tt["otherwise"], ("Le", "1_usize"): tt["otherwise"],
                           ("Eq", "1_usize"): tt["otherwise"], ("Ne", "1_usize"): ft}.get((op, r_))
                    if few is not None:
                        cnt_edges.append((bi, few))
        empties = [b for b in ok_blocks if any(g.edge_dominates(x, e, b) for x, e in empty_edges)
                   and not (any(g.edge_dominates(x, ft, b) for x, ft, d in starts) and any(g.edge_dominates(x, ft, b) for x, ft, d in ends))]
        ranged = [b for b in empties if not any(g.edge_dominates(x, e, b) for x, e in cnt_edges)]
        run.check(not ranged, R, "%s|range-empty-whole-file-only|%s" % (R, name.rsplit("::", 1)[-1]), g.loc(),
                  "%s: the empty-file answer (%d site(s)) is only given when no range was requested" % (name.rsplit("::", 1)[-1], len(empties)),
                  "%s answers an empty value for an empty file whatever range was requested (block(s) %s): `(\"empty.bin\", 5, 3)` names bytes past the end of the file and is accepted" % (name.rsplit("::", 1)[-1], ranged))
        run.check(ok, R, "%s|range|%s" % (R, name.rsplit("::", 1)[-1]), g.loc(), "%s: the slice of the file contents is behind the `start < len` and `end <= len` edges" % name.rsplit("::", 1)[-1],
                  "%s can slice the file contents without having passed both range tests (start after EOF / end after EOF)" % name.rsplit("::", 1)[-1])


# ---------------------------------------------------------------------------------------------- overlap checker / fill (C06)

def _deep(f, o, d=6):
    from rules_sym import deep
    return deep(f, o, d)


def short_callee_(c):
    return re.sub(r"<[^<>]*>", "", c).split("::")[-1] if c else c


def overlap_rules(run, R="OVL"):
    prog = run.prog
    ci = run.anchor(R, "OverlapChecker::check_and_insert")
    co = run.anchor(R, "OverlapChecker::check_overlap")
    if ci is not None:
        cc = calls_to(ci, "OverlapChecker::check_overlap")
        ins = [(bi, t) for bi, t in ci.calls() if re.search(r"Vec::<.*>::insert$", t.get("callee") or "") and _deep(ci, t["args"][0]) == "P1.entries"]
        # every other way of changing the entry list: a call handed `&mut self.entries`, or a store to the field
        other = [(bi, t) for bi, t in ci.calls() if (bi, t) not in ins and any(
            str(ty).startswith("&mut") and _deep(ci, a) == "P1.entries" for a, ty in zip(t["args"], t.get("arg_tys", [])))]
        stores = [bi for bi, si, st in ci.stmts() if st["k"] == "assign" and st["place"]["l"] == 1 and "entries" in json.dumps(st["place"].get("proj", []))]
        ok = len(cc) == 1 and len(ins) == 1 and not other and not stores
        why = "%d call(s) of check_overlap, %d insertion(s), %d other mutation(s) of the entry list (%s)" % (
            len(cc), len(ins), len(other) + len(stores), ", ".join(sorted(short_callee_(t.get("callee") or "?") for _, t in other)) or "-")
        if ok:
            cb, ct = cc[0]
            ib, it = ins[0]
            args = [_deep(ci, a) for a in ct["args"]]
            ok = args == ["P1", "P4", "P5"]
            why = "check_overlap is asked about %s" % args
            idx = _deep(ci, it["args"][1])
            ent = _deep(ci, it["args"][2], 3)
            if ok:
                ok = idx == "OverlapChecker::check_overlap(P1, P4, P5).0" and "position: P4" in ent and "size: P5" in ent
                why = "inserted at `%s` as `%s`" % (idx, ent)
            # the test of the overlapping entry (match / if let / is_some)
            if ok:
                from rules_sym import option_tests
                tests = option_tests(ci, lambda d: d.startswith("OverlapChecker::check_overlap(P1, P4, P5).1"))
                sw = (tests[0][1], tests[0][2], tests[0][0]) if tests else None
                ok = sw is not None
                why = "no test of the overlapping entry"
                if ok:
                    from rules_sym import report_error_in_region as rep2
                    sreg = T.dominated_region(ci, sw[0], sw[2])
                    ok = rep2(ci, sreg) and err_return_in_region(ci, sreg) and ci.edge_dominates(sw[2], sw[1], ib)
                    why = "the `overlaps` edge does not report and fail, or the insertion is not confined to the `no overlap` edge"
        run.check(ok, R, R + "|insert-guarded", ci.loc(), "an item is recorded only on the `no overlap` edge, at the index and with the position/size it was checked with; an overlap is reported and fails",
                  "OverlapChecker::check_and_insert: %s" % why)
        # zero-sized items are never recorded
        okz = False
        for bi, si, st in ci.stmts():
            if st["k"] == "assign" and st["rv"]["k"] == "binop" and st["rv"]["op"] in ("Eq", "Ne", "Gt") and {_deep(ci, st["rv"]["l"]), _deep(ci, st["rv"]["r"])} == {"P5", "0_usize"}:
                tt = ci.blocks[bi]["term"]
                if tt["k"] == "switch" and ins:
                    ft = [tg for v, tg in tt["targets"] if v == "0"]
                    nz_edge = ft[0] if st["rv"]["op"] == "Eq" else tt["otherwise"]
                    if ft and ci.edge_dominates(bi, nz_edge, ins[0][0]):
                        okz = True
        run.check(okz, R, R + "|entries-nonzero", ci.loc(), "only items with bits are recorded, so entries are disjoint intervals and the two neighbours decide",
                  "OverlapChecker::check_and_insert can record a zero-sized item: an entry without bits at the position of a later write (or between an item and a later write) hides the real neighbours from check_overlap")
    if co is not None:
        arms = T.enum_switch_arms(co, "Result")
        err_entry = None
        ok_entry = None
        swb = None
        for b, a, oth, pl, vs in arms:
            if "binary_search_by" in _deep(co, {"copy": pl}):
                err_entry, ok_entry, swb = a.get("Err"), a.get("Ok"), b
        if err_entry is None:
            run.violation(R, R + "|neighbours", co.loc(), "mechanism not found: match on the binary search result in check_overlap")
            return
        ereg = T.dominated_region(co, err_entry, swb)
        # neighbour comparisons: the entry at the insertion index (next) and the one before it (prev), however they are
        # fetched (indexing behind a bounds test, or slice::get)
        I = r"[^()]*(?:\([^()]*(?:\([^()]*\)[^()]*)*\)[^()]*)*@Err\.0"
        ENT = lambda idx: r"(?:Index::index\(P1\.entries, %s\)|slice::get\(P1\.entries, %s\)@Some\.0)" % (idx, idx)
        NEXT_E = ENT(I)
        PREV_E = ENT(r"\(" + I + r" Sub 1_usize\)")
        # `i.checked_sub(1).and_then(|p| self.entries.get(p))` is the entry before the insertion index, absent on None
        from rules_sym import deep as _sdeep
        getters = [g for g in run.prog.real_fns() if g.id.startswith(co.id + "::{closure") and
                   re.fullmatch(r"slice::get\(upvar:\w+\.entries, P2\)", _sdeep(g, {"copy": {"l": 0, "p": []}}, 6) or "")]

        def norm(d):
            if len(getters) == 1:
                d = re.sub(r"Option::and_then\(num::checked_sub\((" + I + r"), 1_usize\), closure\(P1\)\)", r"slice::get(P1.entries, (\1 Sub 1_usize))", d)
            return d
        cmp_next, cmp_prev = set(), set()
        absent_edges = {}      # (block, target) -> "next" / "prev": edges on which that neighbour does not exist
        for x in sorted(ereg):
            tt = co.blocks[x]["term"]
            if tt["k"] != "switch":
                continue
            ft = [tg for v, tg in tt["targets"] if v == "0"]
            for st in co.blocks[x]["stmts"]:
                if st["k"] == "assign" and st["rv"]["k"] == "binop" and op_local(tt["discr"]) == st["place"]["l"]:
                    l, r, op = norm(_deep(co, st["rv"]["l"], 8)), norm(_deep(co, st["rv"]["r"], 8)), st["rv"]["op"]
                    if op == "Gt" and l == "(P2 Add P3)" and re.fullmatch(NEXT_E + r"\.position", r):
                        cmp_next.add(x)
                    elif op == "Gt" and r == "P2" and re.fullmatch(r"\(" + PREV_E + r"\.position Add " + PREV_E + r"\.size\)", l):
                        cmp_prev.add(x)
                    elif op == "Lt" and re.fullmatch(I, l) and r == "Vec::len(P1.entries)" and ft:
                        absent_edges[(x, ft[0])] = "next"
                    elif op == "Gt" and re.fullmatch(I, l) and r == "0_usize" and ft:
                        absent_edges[(x, ft[0])] = "prev"
                    elif op == "Lt" and re.fullmatch(r"\(" + I + r" Sub 1_usize\)", l) and r == "Vec::len(P1.entries)" and ft:
                        absent_edges[(x, ft[0])] = "prev"
        from rules_sym import option_tests
        for sb_, some_, none_ in option_tests(co, lambda d: bool(re.fullmatch(r"slice::get\(P1\.entries, " + I + r"\)", d))):
            absent_edges[(sb_, none_)] = "next"
        for sb_, some_, none_ in option_tests(co, lambda d: bool(re.fullmatch(r"slice::get\(P1\.entries, \(" + I + r" Sub 1_usize\)\)", norm(d)))):
            absent_edges[(sb_, none_)] = "prev"
        okn = bool(cmp_next) and bool(cmp_prev)
        why = "comparisons found: next=%d prev=%d" % (len(cmp_next), len(cmp_prev))
        if okn:
            for k_, blocks in (("next", cmp_next), ("prev", cmp_prev)):
                for b in blocks:
                    reg = T.dominated_region(co, co.blocks[b]["term"]["otherwise"], b)
                    if not any(st["k"] == "assign" and st["rv"]["k"] == "agg" and st["rv"].get("variant") == "Some" for x in reg for st in co.blocks[x]["stmts"]):
                        okn = False
                        why = "the `%s` neighbour comparison does not answer with the overlapping entry" % k_
        if okn:
            # blocks only reachable when size == 0 are exempt (entries-nonzero makes them dead)
            exempt = set()
            for bi, si, st in co.stmts():
                if st["k"] == "assign" and st["rv"]["k"] == "binop" and st["rv"]["op"] == "Eq" and {_deep(co, st["rv"]["l"]), _deep(co, st["rv"]["r"])} == {"P3", "0_usize"}:
                    tt = co.blocks[bi]["term"]
                    if tt["k"] == "switch":
                        exempt |= T.dominated_region(co, tt["otherwise"], bi)
            # path search: (block, next settled, prev settled); a neighbour is settled once compared or known absent
            seen = set()
            work = [(err_entry, 0, 0)]
            while work:
                x, nx, pv = work.pop()
                if (x, nx, pv) in seen or x in exempt or x not in ereg:
                    continue
                seen.add((x, nx, pv))
                if x in cmp_next:
                    nx = 1
                if x in cmp_prev:
                    pv = 1
                for st in co.blocks[x]["stmts"]:
                    if st["k"] == "assign" and st["rv"]["k"] == "agg" and st["rv"].get("variant") == "None" and not (nx and pv):
                        okn = False
                        why = "a `no overlap` answer at line %d can be given without having settled the %s neighbour" % (st["span"]["line"], "next" if not nx else "previous")
                for s_ in co.succs(x):
                    n2, p2 = nx, pv
                    a_ = absent_edges.get((x, s_))
                    if a_ == "next":
                        n2 = 1
                    elif a_ == "prev":
                        p2 = 1
                    work.append((s_, n2, p2))
        run.check(okn, R, R + "|neighbours", co.loc(), "when no entry starts at the position, `no overlap` is only answered after comparing with the next entry (position + size > next.position) and the previous one (prev.position + prev.size > position)",
                  "OverlapChecker::check_overlap: %s" % why)
        # same position: overlap when both have bits
        oreg = T.dominated_region(co, ok_entry, swb) if ok_entry is not None else set()
        oks = any(st["k"] == "assign" and st["rv"]["k"] == "agg" and st["rv"].get("variant") == "Some" for x in oreg for st in co.blocks[x]["stmts"])
        run.check(oks, R, R + "|same-position", co.loc(), "an entry starting at the same position is an overlap", "an entry at the same position is no longer reported as overlapping")


def full_loops(run, fname, R="MPT", what="every bank"):
    """the loops of `fname` have no early exit: they are left only when their iterator is exhausted"""
    f = run.anchor(R, fname)
    if f is None:
        return
    n = 0
    for h in sorted(f.reachable()):
        loop = natural_loop(f, h)
        if not loop:
            continue
        n += 1
        bad = []
        for x in sorted(loop):
            for s_ in f.succs(x):
                if s_ in loop or f.blocks[s_]["cleanup"]:
                    continue
                tt = f.blocks[x]["term"]
                okx = False
                if tt["k"] == "switch" and op_local(tt["discr"]) is not None:
                    o = f.origin_local(op_local(tt["discr"]))
                    if o[0] == "discr" and re.search(r"Iterator::next\(", _deep(f, o[1])):
                        vs = o[2].get("variants") or {}
                        none = [tg for v, tg in tt["targets"] if vs.get(v) == "None"]
                        if none and none[0] == s_:
                            okx = True
                if tt["k"] in ("assert",) or f.blocks[s_]["term"]["k"] in ("unreachable",):
                    okx = True
                if not okx:
                    # an exit that can only end in `Err` (a rejection) is not an early success
                    seen = set()
                    work = [s_]
                    has_err = has_other = False
                    while work:
                        y = work.pop()
                        if y in seen or y in loop:
                            continue
                        seen.add(y)
                        for st in f.blocks[y]["stmts"]:
                            if st["k"] == "assign" and st["place"]["l"] == 0 and not st["place"]["p"]:
                                if st["rv"]["k"] == "agg" and st["rv"].get("variant") == "Err":
                                    has_err = True
                                else:
                                    has_other = True
                        ty = f.blocks[y]["term"]
                        if ty["k"] == "call" and ty["dest"]["l"] == 0:
                            if (ty.get("callee") or "").endswith("FromResidual::from_residual"):
                                has_err = True
                            else:
                                has_other = True
                        work.extend(z for z in f.succs(y) if not f.blocks[z]["cleanup"])
                    okx = has_err and not has_other
                if not okx:
                    bad.append(f.blocks[x]["term"].get("span", {}).get("line", 0))
        run.check(not bad, R, "%s|full-loop|%s" % (R, fname.rsplit("::", 1)[-1]), f.loc(), "%s visits %s: its loop is left only when the iterator is exhausted" % (fname.rsplit("::", 1)[-1], what),
                  "%s leaves its loop early (exit edge(s) near line(s) %s): not %s is visited" % (fname, bad, what))
    run.check(n >= 1, R, "%s|full-loop|%s|exists" % (R, fname.rsplit("::", 1)[-1]), f.loc(), "loop found", "mechanism not found: loop in %s" % fname)


def mesen_header_rule(run, R="MPT"):
    """Mesen label offsets: the 16-byte header is subtracted from the label's complete file offset (address - bank start +
    bank output offset), never from a partial sum: a bank may start inside the header while its labels lie beyond it."""
    prog = run.prog
    fs = _mesen_family(prog)
    if not fs:
        run.violation(R, R + "|mesen-header|anchor", "-", "mechanism not found: format_mesen_mlb")
        return
    n = 0
    for g in fs:
        for bi, t in g.calls():
            c = t.get("callee") or ""
            if not (c.endswith("::checked_sub") or c.endswith("::saturating_sub") or c.endswith("::wrapping_sub")) or len(t["args"]) != 2 or not _is_ines_header(g, t["args"][1]):
                continue
            n += 1
            expr = _deep(g, t["args"][0], 10)
            holder = g
            hops = 0
            while re.fullmatch(r"P\d+", expr) and holder.kind == "Closure" and hops < 4:
                hops += 1
                par = prog.fn(holder.raw.get("parent"))
                nxt = None
                if par is not None:
                    for b2, t2 in par.calls():
                        if re.search(r"Option::<T>::(and_then|map)$", t2.get("callee") or "") and len(t2["args"]) == 2:
                            from mir import closure_of_origin
                            if closure_of_origin(par.origin_op(t2["args"][1])) == holder.id:
                                nxt = (par, _deep(par, t2["args"][0], 12))
                if nxt is None:
                    break
                holder, expr = nxt
            # the label's own address: BigInt::maybe_into of the value parameter of the formatting closure
            ok = bool(re.search(r"BigInt::maybe_into\(P\d+\)", expr))
            run.check(ok, R, R + "|mesen-header|" + (g.id.rsplit("::", 2)[-2] + "::" + g.id.rsplit("::", 1)[-1] if g.kind == "Closure" else "fn"), g.loc(t["span"]),
                      "the header size is subtracted from a value that includes the label's address",
                      "format_mesen_mlb subtracts the 16-byte header from `%s`, which does not include the label's address: labels of a bank that starts inside the header would be dropped (or misplaced)" % expr[:200])
    for g in fs:
        for bi, si, st in g.stmts():
            if st["k"] == "assign" and st["rv"]["k"] == "binop" and st["rv"]["op"].startswith("Sub") and _is_ines_header(g, st["rv"]["r"]):
                n += 1
                expr = _deep(g, st["rv"]["l"], 10)
                run.check(bool(re.search(r"BigInt::maybe_into\(P\d+\)", expr)), R, R + "|mesen-header|binop", g.loc(st["span"]), "header subtracted from the full offset",
                          "format_mesen_mlb subtracts the 16-byte header from `%s`, which does not include the label's address" % expr[:200])
    run.floor(R, "header subtractions in format_mesen_mlb", n, 1)


def alignment_rules(run, R="ALIGN"):
    """label values are absolute addresses, so every alignment of the bank position (`#align`, `#labelalign`) is computed from
    the absolute address (bank start address x unit + position), never from the position inside the bank alone"""
    prog = run.prog
    n = 0
    for f in prog.real_fns():
        root = f.raw.get("root") or f.id
        if not root.startswith("asm::resolver::iter::") and not root.startswith("asm::resolver::align") and not root.startswith("asm::resolver::label"):
            continue
        # raw remainders
        for bi, si, st in f.stmts():
            if st["k"] == "assign" and st["rv"]["k"] == "binop" and st["rv"]["op"] == "Rem" and not st["span"].get("mac"):
                d = _deep(f, st["rv"]["l"], 8)
                if _deep(f, st["rv"]["r"], 5).endswith(".addr_unit"):
                    continue        # whole addressable units inside the bank: the address itself is addr_start + position / unit
                if "cur_position" in d or "position" in d:
                    n += 1
                    run.check("addr_start" in d, R, "%s|remainder|%s" % (R, root), f.loc(st["span"]), "remainder taken on the absolute address",
                              "%s aligns `%s`, a position inside the bank, without the bank's start address: labels of a bank whose start address is not a multiple of the alignment get the wrong value" % (root, d[:120]))
        for bi, t in f.calls():
            c = t.get("resolved") or t.get("callee") or ""
            if c.endswith("iter::bits_until_alignment"):
                n += 1
                d = _deep(f, t["args"][2], 10)
                ok = "addr_start" in d and "addr_unit" in d and "cur_position" in d
                if not ok:
                    # the absolute address may be computed by a local helper: look at what it (and the argument) reads
                    names = set()
                    for l_, pr_ in _read_places(f, t["args"][2]):
                        names |= {x for x in pr_ if isinstance(x, str)}
                    o_ = f.origin_op(t["args"][2])
                    while o_ and o_[0] in ("ref", "cast", "place"):
                        o_ = o_[1]
                    hops = 0
                    while o_ and o_[0] == "call" and hops < 4:
                        hops += 1
                        h_ = prog.fn(o_[1].get("resolved") or "")
                        if h_ is not None and o_[1].get("resolved_local") and not (o_[1].get("resolved") or "").endswith("BigInt::checked_add") and "util::bigint" not in (o_[1].get("resolved") or ""):
                            # a helper that keeps what it computed in the iterator (a store through its `self`) answers for the bank
                            # that was current when it was first asked, not for the current one
                            memo = [st9 for b9, s9, st9 in h_.stmts() if st9["k"] == "assign" and st9["place"]["l"] == 1 and any(isinstance(x, dict) and "f" in x for x in st9["place"]["p"])]
                            if memo:
                                run.violation(R, "%s|absolute|remembered|%s" % (R, root), h_.loc(memo[0]["span"]),
                                              "%s computes part of the absolute address once and keeps it in the iterator (`%s`): after `#bank` switches to another bank the alignment is still computed from the first bank's start address" % (h_.id.rsplit("::", 1)[-1], memo[0]["place"]["p"][-1].get("name")))
                            for b9, s9, st9 in h_.stmts():
                                if st9["k"] == "assign":
                                    from mir import rv_places as _rvp
                                    for pl9 in _rvp(st9["rv"]):
                                        names |= {pr9["name"] for pr9 in pl9["p"] if isinstance(pr9, dict) and "f" in pr9}
                            for a9 in o_[1]["args"]:
                                for l_, pr_ in _read_places(f, a9):
                                    names |= {x for x in pr_ if isinstance(x, str)}
                            break
                        o_ = f.origin_op(o_[1]["args"][0]) if o_[1]["args"] else None
                        while o_ and o_[0] in ("ref", "cast", "place"):
                            o_ = o_[1]
                    ok = {"addr_start", "addr_unit", "cur_position"} <= names
                run.check(ok, R, "%s|absolute|%s" % (R, root), f.loc(t["span"]), "%s aligns addr_start x addr_unit + position" % root.rsplit("::", 1)[-1],
                          "%s asks for the padding of `%s`, expected the absolute bit address (addr_start x addr_unit + cur_position)" % (root, d[:160]))
    run.floor(R, "alignment computations", n, 2)
    # `#labelalign` pads before labels only: a constant takes up no position, so nothing is padded for it
    nl = 0
    for f in prog.real_fns():
        if not re.search(r"resolver::iter::ResolveIterator(::<.*>)?::next$", f.id):
            continue
        for bi, t in f.calls():
            if not (t.get("resolved") or t.get("callee") or "").endswith("iter::bits_until_alignment"):
                continue
            nl += 1
            behind_label = False
            for b in f.dominators().get(bi, ()):
                tt = f.blocks[b]["term"]
                if tt["k"] != "switch" or b == bi or op_local(tt["discr"]) is None:
                    continue
                o = f.origin_local(op_local(tt["discr"]))
                if o and o[0] == "discr":
                    pl_ = o[2].get("place") if isinstance(o[2], dict) else None
                    d_ = _deep(f, {"copy": pl_}, 5) if pl_ else ""
                    vs = o[2].get("variants") or {}
                    if d_.endswith(".kind") and "Label" in vs.values():
                        edges = {vs.get(v): tg for v, tg in tt["targets"]}
                        unlisted = [nm for nm in vs.values() if nm not in edges]
                        if len(unlisted) == 1:
                            edges[unlisted[0]] = tt["otherwise"]
                        if "Label" in edges:
                            yes = T.reach_following_consts(f, edges["Label"])
                            no = set()
                            for nm, tg in edges.items():
                                if nm != "Label":
                                    no |= T.reach_following_consts(f, tg)
                            if bi in yes and bi not in no:
                                behind_label = True
            run.check(behind_label, R, "%s|labelalign|labels-only" % R, f.loc(t["span"]), "the `#labelalign` padding is applied only when the symbol is a label",
                      "ResolveIterator::next pads to `#labelalign` for every top-level symbol, constants included: `#d8 1 / x = 5 / #d8 2` in a bank with `#labelalign 32` puts three padding bytes after the constant line (and `y = $` reads the padded address)")
    run.floor(R, "labelalign padding sites", nl, 1)
    # an address that is not a whole number of units is an error unless guessing is allowed: the flag handed to eval_address is the
    # pass's own `can_guess()` and nothing else (or the constant of an audited caller)
    audited_const = {}      # (an entry for eval_asm::resolve_once was wrong: F50 - the block's confirming pass floored the address too)
    ng = 0
    for f in prog.real_fns():
        for bi, t in f.calls():
            c = t.get("resolved") or t.get("callee") or ""
            if not re.search(r"ResolverContext(::<.*>)?::eval_address$", c):
                continue
            ng += 1
            flag = [a for a, ty in zip(t["args"], t.get("arg_tys") or []) if ty == "bool"]
            root = f.raw.get("root") or f.id
            okf = False
            whyf = "no bool argument"
            if len(flag) == 1:
                a = flag[0]
                if const_int(a) is not None:
                    okf = const_int(a) == 0 or root in audited_const
                    whyf = "the constant `true` (always allowed to be misaligned) in a caller that is not audited for it"
                else:
                    o = f.origin_op(a)
                    o = peel(o) if o else o
                    okf = bool(o and o[0] == "call" and re.search(r"ResolverContext(::<.*>)?::can_guess$", o[1].get("resolved") or o[1].get("callee") or ""))
                    whyf = "`%s`, which is not the pass's can_guess() alone" % describe_origin(f, f.origin_op(a))[:100]
            run.check(okf, R, "%s|guess-flag|%s" % (R, root), f.loc(t["span"]), "%s hands eval_address the pass's own can_guess() (or an audited constant)" % root.rsplit("::", 1)[-1],
                      "%s lets eval_address accept a position that is not on an address boundary under %s: in the confirming pass a misaligned label would get a truncated address instead of the error" % (root, whyf))
    run.floor(R, "eval_address call sites", ng, 3)
    g = run.anchor(R, "asm::resolver::iter::bits_until_alignment")
    if g is not None:
        cm = calls_to(g, "BigInt::checked_mod")
        ok = len(cm) == 1 and _deep(g, cm[0][1]["args"][0]) == "P3"
        run.check(ok, R, R + "|helper", g.loc(), "bits_until_alignment takes the remainder of the address it is given", "bits_until_alignment no longer takes the remainder of its address argument")
        # addresses may be negative (`#addr -4`): the truncating remainder is then negative and has to be brought back into 0..alignment
        sg = [t for bi, t in g.calls() if (t.get("resolved") or t.get("callee") or "").endswith("BigInt::sign") and "checked_mod(" in _deep(g, t["args"][0], 5)]
        run.check(bool(sg), R, R + "|helper|negative-addresses", g.loc(), "bits_until_alignment handles the negative remainder of a negative address",
                  "bits_until_alignment converts the remainder of the address straight to usize: in a bank with a negative start address (`#addr -4`) `#align` and `#labelalign` fail with `value is out of supported range` although labels and `$` work there")


def write_rules(run, R="WRITE"):
    """the real file server's write: every `Ok` passed the `Ok` edge of a write to the file it created with the data it was
    given (no early success), and both error arms report"""
    prog = run.prog
    fs = [g for g in prog.real_fns() if g.id.endswith("FileServerReal as util::fileserver::FileServer>::write_bytes")]
    if len(fs) != 1:
        run.violation(R, R + "|anchor", "-", "mechanism not found: FileServerReal::write_bytes")
        return
    f = fs[0]
    cr = [(bi, t) for bi, t in f.calls() if re.search(r"std::fs::(File::create|write|OpenOptions)", t.get("callee") or "")]
    wr = [(bi, t) for bi, t in f.calls() if re.search(r"(std::io::Write::write_all|std::fs::write)$", t.get("callee") or "")]
    oks = [bi for bi, si, st in f.stmts() if st["k"] == "assign" and st["place"]["l"] == 0 and not st["place"]["p"] and st["rv"]["k"] == "agg" and st["rv"].get("variant") == "Ok"]
    ok = bool(cr) and bool(wr) and bool(oks)
    why = "creation, write or success return not found"
    if ok:
        from rules_sym import _switch_on_call_result
        def ok_edge(bi, t):
            dl = t["dest"]["l"]
            for b in sorted(f.reachable()):
                tt = f.blocks[b]["term"]
                if tt["k"] == "switch" and op_local(tt["discr"]) is not None:
                    o = f.origin_local(op_local(tt["discr"]))
                    if o[0] == "discr":
                        base = o[1]
                        while base[0] in ("ref", "cast"):
                            base = base[1]
                        if base[0] == "call" and base[1] is t:
                            vs = o[2].get("variants") or {}
                            for v, tg in tt["targets"]:
                                if vs.get(v) == "Ok":
                                    return (b, tg)
            return None
        e1 = ok_edge(*cr[0])
        e2 = ok_edge(*wr[0])
        ok = e1 is not None and e2 is not None and all(f.edge_dominates(e1[0], e1[1], b) and f.edge_dominates(e2[0], e2[1], b) for b in oks)
        why = "a success return is not behind the Ok edges of both the creation and the write"
        if ok:
            data = _deep(f, wr[0][1]["args"][-1], 4)
            ok = bool(re.fullmatch(r"P\d+", data)) and "Vec<u8>" in (f.local_ty(int(data[1:])) or "")
            why = "the bytes written are `%s`, not the data parameter" % data
    # the file that is created is the one that was asked for, and no answer of the file system is thrown away
    if cr:
        created = _deep(f, cr[0][1]["args"][-1], 8)
        named = bool(re.search(r"Path::new\((Deref::deref\()?P\d+", created)) or bool(re.fullmatch(r".*\bP\d+\)*", created)) and "format(" not in created
        run.check(named and "format(" not in created, R, R + "|creates-the-named-file", f.loc(cr[0][1]["span"]), "the file created is the one named by the caller",
                  "FileServerReal::write_bytes creates `%s`, not the file it was asked to write: the requested output only exists if a later step succeeds, and a file of that other name is overwritten" % created[:80])
    import json
    dropped = []
    for bi, t in f.calls():
        c = t.get("callee") or ""
        if not re.search(r"^std::fs::", c) or t["dest"]["p"] or "Result" not in (f.local_ty(t["dest"]["l"]) or ""):
            continue
        dl = t["dest"]["l"]
        used = False
        for b2 in f.reachable():
            blk = f.blocks[b2]
            for st in blk["stmts"]:
                if st["k"] == "assign" and re.search(r'"l": %d\b' % dl, json.dumps(st["rv"])):
                    used = True
            tt = blk["term"]
            if tt["k"] == "call" and tt is not t and re.search(r'"l": %d\b' % dl, json.dumps(tt.get("args"))):
                used = True
            if tt["k"] == "switch" and re.search(r'"l": %d\b' % dl, json.dumps(tt.get("discr"))):
                used = True
        if not used:
            dropped.append("%s at %s" % (c.rsplit("::", 1)[-1], f.loc(t["span"])))
    run.check(not dropped, R, R + "|no-answer-dropped", f.loc(), "every answer of the file system in write_bytes is looked at",
              "FileServerReal::write_bytes throws away the answer of %s: a failure there ends in `Ok`, i.e. a successful run without the requested output" % ", ".join(dropped))
    run.check(ok, R, R + "|success-means-written", f.loc(), "FileServerReal::write_bytes answers Ok only after creating the file and writing the given data succeeded",
              "FileServerReal::write_bytes: %s: a run could report success without the requested output file existing with its contents" % why)


def bank_range_rules(run, R="MPT"):
    """check_bank_output rejects an item by its END: the rejection decision depends on position + item size and on the bank's
    size (an item that starts inside the bank but ends beyond it is rejected)"""
    f = run.anchor(R, "asm::output::check_bank_output")
    if f is None:
        return
    # the item size is the usize parameter, the position comes from the context
    szp = [i for i in range(1, f.arg_count + 1) if f.local_ty(i) == "usize"]
    ok = len(szp) == 1
    why = "no single usize parameter (the item size)"
    if ok:
        sz = szp[0]
        # the first rejection: a switch whose taken edge reports `out of range` and fails
        from rules_sym import report_error_in_region as rep2
        found = False
        range_blocks = []
        for b in sorted(f.reachable()):
            tt = f.blocks[b]["term"]
            if tt["k"] != "switch" or op_local(tt["discr"]) is None:
                continue
            for e in f.succs(b):
                reg = T.dominated_region(f, e, b)
                if rep2(f, reg) and err_return_in_region(f, reg):
                    d = _deep(f, tt["discr"], 8)
                    if d.startswith("var:") and op_local(tt["discr"]) is not None:
                        # a named boolean that the comparison (and constants for the other cases) is assigned to
                        parts = []
                        for d_ in f.full_defs(f.copy_root(op_local(tt["discr"]))):
                            if d_[0] == "stmt" and d_[3]["k"] == "assign":
                                rv_ = d_[3]["rv"]
                                if rv_["k"] == "binop":
                                    parts.append("(%s %s %s)" % (_deep(f, rv_["l"], 8), rv_["op"], _deep(f, rv_["r"], 8)))
                                elif rv_["k"] == "use":
                                    parts.append(_deep(f, rv_["op"], 8))
                        d = " | ".join(parts)
                    dep_size = value_depends_on(f, tt["discr"], sz)
                    if "cur_position" in d and ".size" in d:
                        found = True
                        ok = dep_size and ("P%d" % sz) in d
                        why = "the out-of-range decision `%s` does not involve the item's size: only the start of an item is tested against the bank's size" % d[:160]
                        range_blocks.append(b)
        if not found:
            ok = False
            why = "no rejection that compares the position with the bank's size"
        # every successful answer has been through the range test, or the bank has no size
        from rules_sym import option_tests
        none_edges = {(sb_, none_) for sb_, some_, none_ in option_tests(f, lambda d: d.endswith(".size") and "cur_position" not in d)}
        okp = bool(range_blocks) and bool(none_edges)
        whyp = "no test of the bank's optional size" if range_blocks else "no range test"
        if okp:
            seen, work = set(), [0]
            while work:
                x = work.pop()
                if x in seen or x in range_blocks:
                    continue
                seen.add(x)
                for e in f.succs(x):
                    if (x, e) not in none_edges:
                        work.append(e)
            bad = [x for x in sorted(seen) if any(st["k"] == "assign" and st["place"]["l"] == 0 and not st["place"].get("proj") and st["rv"]["k"] == "agg"
                                                   and st["rv"].get("variant") == "Ok" for st in f.blocks[x]["stmts"])]
            okp = not bad
            whyp = "an Ok answer (bb%s) is reachable without the range test although the bank has a size" % ",".join(map(str, bad))
        run.check(okp, R, R + "|bank-range|every-ok-tested", f.loc(), "every Ok answer of check_bank_output is behind the range test or the `bank has no size` edge",
                  "check_bank_output: %s: an item (a reservation, an #addr) past the end of a sized bank would be accepted" % whyp)
    run.check(ok, R, R + "|bank-range|end-of-item", f.loc(), "an item is rejected when position + size exceeds the bank's size",
              "check_bank_output: %s; an item that starts inside the bank but ends past it would be written beyond the bank (into the next bank's window)" % why)


def _read_places(f, op, seen=None, depth=0, out=None):
    """all places (local, projection names) read, transitively, to compute an operand"""
    from mir import rv_operands, rv_places
    out = out if out is not None else set()
    seen = seen if seen is not None else set()
    pl = op_place(op)
    if pl is None or depth > 25:
        return out
    out.add((pl["l"], tuple((pr.get("name") if "f" in pr else pr.get("downcast")) if isinstance(pr, dict) else pr for pr in pl["p"])))
    l = pl["l"]
    if l in seen:
        return out
    seen.add(l)
    for d in f.full_defs(l) + f.partial_defs(l):
        if d[0] == "call":
            for a in d[2]["args"]:
                _read_places(f, a, seen, depth + 1, out)
        elif d[3]["k"] == "assign":
            rv = d[3]["rv"]
            for o in rv_operands(rv):
                _read_places(f, o, seen, depth + 1, out)
            for p2 in rv_places(rv):
                _read_places(f, {"copy": p2}, seen, depth + 1, out)
    return out


def _bank_overlap_via_helper(run, f, dec):
    """the overlap decision reads two calls of a local helper, one per bank, each given that bank's optional size; in the helper
    every answer computed on the `size is Some` edge reads the size"""
    prog = run.prog
    calls = []
    for bi, t in f.calls():
        h = prog.fn(t.get("resolved") or t.get("callee") or "")
        if h is None or not h.id.startswith("asm::output::"):
            continue
        for i, (a, ty) in enumerate(zip(t["args"], t.get("arg_tys") or [])):
            if "Option<usize>" in ty and _deep(f, a, 6).endswith(".size"):
                calls.append((bi, t, h, i + 1, _deep(f, a, 6)))
    if len(calls) < 2 or len(set(c[4] for c in calls)) < 2:
        return False, "the decision does not ask about the sizes of both banks (%d helper call(s) given a bank size)" % len(calls), len(calls)
    # the decision depends on every such call: by data, or by control (`a && b`)
    reads = set()
    ctrl = set()
    for dd in f.full_defs(dec):
        if dd[0] == "call":
            reads.add(dd[2]["dest"]["l"])
            for a in dd[2]["args"]:
                for l_, pr in _read_places(f, a):
                    reads.add(l_)
        else:
            from mir import rv_operands
            for o in rv_operands(dd[3]["rv"]):
                for l_, pr in _read_places(f, o):
                    reads.add(l_)
        for sb in f.dominators().get(dd[1], ()):
            t2 = f.blocks[sb]["term"]
            if t2["k"] == "switch" and sb != dd[1] and op_local(t2["discr"]) is not None:
                for l_, pr in _read_places(f, t2["discr"]):
                    ctrl.add(l_)
    for bi, t, h, k, d in calls:
        if t["dest"]["l"] not in reads and t["dest"]["l"] not in ctrl and f.copy_root(t["dest"]["l"]) != dec:
            return False, "the answer about `%s` does not reach the decision" % d, len(calls)
    # inside the helper
    for h, k in set((c[2], c[3]) for c in calls):
        from rules_sym import option_tests
        tests = option_tests(h, lambda d: d == "P%d" % k)
        if not tests:
            return False, "%s does not test whether the size it is given is present" % h.id, len(calls)
        n_ans = 0
        for sb, some, none in tests:
            for dd in h.full_defs(0):
                if not h.edge_dominates(sb, some, dd[1]):
                    continue
                n_ans += 1
                rd = set()
                if dd[0] == "call":
                    for a in dd[2]["args"]:
                        _read_places(h, a, out=rd)
                else:
                    from mir import rv_operands
                    for o in rv_operands(dd[3]["rv"]):
                        _read_places(h, o, out=rd)
                for sb2 in h.dominators().get(dd[1], ()):
                    t2 = h.blocks[sb2]["term"]
                    if t2["k"] == "switch" and sb2 != dd[1] and h.edge_dominates(sb, some, sb2) and op_local(t2["discr"]) is not None:
                        _read_places(h, t2["discr"], out=rd)
                if not any(l_ == k and "Some" in pr for l_, pr in rd):
                    return False, "%s answers on the `has a size` edge without reading the size" % h.id, len(calls)
        if n_ans == 0:
            return False, "%s gives no answer on the `has a size` edge" % h.id, len(calls)
    return True, "", len(calls)


def bank_overlap_rules(run, R="MPT"):
    """check_bank_overlap: whenever a bank of a pair has a size, the overlap decision for that pair reads that size (its end),
    not only where the banks start"""
    f = run.anchor(R, "asm::output::check_bank_overlap")
    if f is None:
        return
    from rules_sym import report_error_in_region as rep2
    dec = None
    for b in sorted(f.reachable()):
        tt = f.blocks[b]["term"]
        if tt["k"] == "switch" and op_local(tt["discr"]) is not None and f.local_ty(op_local(tt["discr"])) == "bool":
            reg = T.dominated_region(f, tt["otherwise"], b)
            if rep2(f, reg) and err_return_in_region(f, reg):
                dec = f.copy_root(op_local(tt["discr"]))
    if dec is None:
        run.violation(R, R + "|bank-overlap|decision", f.loc(), "mechanism not found: the overlap decision of check_bank_overlap")
        return
    # switches `<place> is Some` on Option<usize> places that hold a bank size
    size_switches = []
    for b in sorted(f.reachable()):
        tt = f.blocks[b]["term"]
        if tt["k"] != "switch" or op_local(tt["discr"]) is None:
            continue
        dl = op_local(tt["discr"])
        ds = f.full_defs(dl)
        if len(ds) != 1 or ds[0][0] != "stmt" or ds[0][3]["rv"]["k"] != "discr" or "Option<usize>" not in (ds[0][3]["rv"].get("adt") or ""):
            continue
        pl = ds[0][3]["rv"]["place"]
        if ".size" not in _deep(f, {"copy": pl}, 6):
            continue
        vs = ds[0][3]["rv"].get("variants") or {}
        some = [tg for v, tg in tt["targets"] if vs.get(v) == "Some"]
        if not some and any(vs.get(v) == "None" for v, tg in tt["targets"]):
            some = [tt["otherwise"]]
        key = (pl["l"], tuple((pr.get("name") if "f" in pr else pr.get("downcast")) if isinstance(pr, dict) else pr for pr in pl["p"]))
        for tg in some:
            size_switches.append((b, tg, key))
    if not size_switches:
        # the same decision with the per-bank half factored into a helper: `ends_after(outp1, size1, outp2) && ends_after(outp2, size2, outp1)`
        ok_h, why_h, nh = _bank_overlap_via_helper(run, f, dec)
        run.check(ok_h, R, R + "|bank-overlap|sizes-decide", f.loc(), "for every pair of banks, a bank's size takes part in the overlap decision whenever it has one (%d helper call(s), helper inspected)" % nh,
                  "check_bank_overlap: %s: a sized bank that starts before an unbounded one and reaches into it would be accepted" % why_h)
        return
    n = 0
    bad = []
    groups = {}
    for dd in f.full_defs(dec):
        blk = dd[1]
        reads = set()
        if dd[0] == "call":
            for a in dd[2]["args"]:
                _read_places(f, a, out=reads)
                from mir import closure_of_origin
                cid = closure_of_origin(f.origin_op(a))
                if cid:
                    ag = peel(f.origin_op(a))
                    if ag[0] == "agg":
                        for o in ag[1]["ops"]:
                            _read_places(f, o, out=reads)
        elif dd[3]["k"] == "assign":
            from mir import rv_operands
            for o in rv_operands(dd[3]["rv"]):
                _read_places(f, o, out=reads)
        doms = frozenset((sb, edge, key) for sb, edge, key in size_switches if f.edge_dominates(sb, edge, blk))
        for sb, edge, key in doms:
            # control dependence inside the arm (`a && b`: the second assignment happens on an edge decided by `a`)
            for sb2 in f.dominators().get(blk, ()):
                t2 = f.blocks[sb2]["term"]
                if t2["k"] == "switch" and sb2 != blk and f.edge_dominates(sb, edge, sb2) and op_local(t2["discr"]) is not None and f.local_ty(op_local(t2["discr"])) == "bool":
                    _read_places(f, t2["discr"], out=reads)
        if doms:
            g = groups.setdefault(doms, [set(), blk])
            g[0] |= reads
    for doms, (reads, blk) in groups.items():
        for sb, edge, key in doms:
            n += 1
            hit = any(l == key[0] and pr[:len(key[1])] == key[1] and len(pr) > len(key[1]) and pr[len(key[1])] == "Some" for l, pr in reads)
            if not hit:
                bad.append("line %d" % f.blocks[blk]["term"].get("span", {}).get("line", 0))
    run.check(n >= 2 and not bad, R, R + "|bank-overlap|sizes-decide", f.loc(), "for every pair of banks, a bank's size takes part in the overlap decision whenever it has one (%d arm/size combinations inspected)" % n,
              "check_bank_overlap: in a case where a bank has a size, the overlap decision (%s) does not read that size: a sized bank that starts before an unbounded one and reaches into it would be accepted" % (", ".join(bad[:3]) if bad else "no size-dependent arms found"))


def _split_top(s):
    out, depth, cur = [], 0, ""
    for ch in s:
        if ch in "({[":
            depth += 1
        elif ch in ")}]":
            depth -= 1
        if ch == "," and depth == 0:
            out.append(cur.strip())
            cur = ""
        else:
            cur += ch
    if cur.strip():
        out.append(cur.strip())
    return out


def _mentions_payload(val, sd):
    return (sd + "@Some.0") in val


def no_failure_after_write(run, R="WRITE"):
    """driver: once an output file has been written, the only way the run can still fail is a later write failing.  Every Err
    return reachable from the success edge of a write_bytes call is the `?` of a write_bytes call."""
    f = run.anchor(R, "driver::assemble_with_command")
    if f is None:
        return
    wr = [(bi, t) for bi, t in f.calls() if (t.get("callee") or "").endswith("FileServer::write_bytes")]
    edges = [success_edge_of_call(f, bi, t) for bi, t in wr]
    ok = bool(wr) and all(e is not None for e in edges)
    why = "%d write_bytes call(s), not all `?`-propagated" % len(wr)
    bad = []
    if ok:
        seen, work = set(), [e[1] for e in edges]
        while work:
            x = work.pop()
            if x in seen or f.blocks[x]["cleanup"]:
                continue
            seen.add(x)
            work.extend(f.succs(x))
        for x in sorted(seen):
            for st in f.blocks[x]["stmts"]:
                if st["k"] == "assign" and st["place"]["l"] == 0 and not st["place"]["p"] and st["rv"]["k"] == "agg" and st["rv"].get("variant") == "Err":
                    bad.append("%s: an explicit Err" % f.loc(st["span"]))
            tt = f.blocks[x]["term"]
            if tt["k"] == "call" and (tt.get("callee") or "").endswith("FromResidual::from_residual") and tt["dest"]["l"] == 0:
                d = _deep(f, tt["args"][0], 4)
                if "write_bytes(" not in d:
                    bad.append("%s: `?` on `%s`" % (f.loc(tt["span"]), d[:60]))
        ok = not bad
        why = "; ".join(bad)
    run.check(ok, R, R + "|no-failure-after-write", f.loc(), "assemble_with_command: after a successful write the run can only fail through another write (%d write site(s))" % len(wr),
              "assemble_with_command can fail after an output file was already written (%s): a failed run would leave output behind" % why)


def get_blocks_rules(run, R="MPT"):
    """BitVec::get_blocks (Intel HEX records): a span that does not continue the current block always starts a new one -- on the
    `offset != origin + size` edge every path through the loop body to the next span passes an assignment that makes this span's
    offset the origin of the current block"""
    f = run.anchor(R, "util::bitvec::BitVec::get_blocks")
    if f is None:
        return
    ok, why = False, "the discontinuity test `span offset ==/!= origin + size` was not found"
    for bi, si, st in f.stmts():
        if st["k"] != "assign" or st["rv"]["k"] != "binop" or st["rv"]["op"] not in ("Ne", "Eq"):
            continue
        l, r = _deep(f, st["rv"]["l"], 6), _deep(f, st["rv"]["r"], 6)
        if ".offset" in l and " Add " in r:
            off = l
        elif ".offset" in r and " Add " in l:
            off = r
        else:
            continue
        tt = f.blocks[bi]["term"]
        if tt["k"] != "switch":
            continue
        ft = [tg for v, tg in tt["targets"] if v == "0"]
        if not ft:
            continue
        disc_edge = tt["otherwise"] if st["rv"]["op"] == "Ne" else ft[0]
        loop = set()
        header = None
        for h in f.reachable():
            lp = natural_loop(f, h)
            if bi in lp and (not loop or len(lp) < len(loop)):
                loop, header = lp, h
        if header is None:
            continue
        # blocks that make this span's offset the new origin: `Some(<offset>)` or `Some(Block { offset: <offset>, .. })`
        starts = set()
        for b2, s2, st2 in f.stmts():
            if b2 in loop and st2["k"] == "assign" and st2["rv"]["k"] == "agg":
                d2 = _deep(f, {"copy": st2["place"]}, 6) if False else None
                txt = ", ".join(_deep(f, o, 6) for o in st2["rv"]["ops"])
                if off in txt and (st2["rv"].get("variant") == "Some" or str(st2["rv"].get("adt", "")).endswith("BitVecBlock")):
                    starts.add(b2)
        if not starts:
            why = "nothing in the loop makes a span's offset the origin of a block"
            continue
        # path search; the only path knowledge kept: Option locals just assigned `None` (a following `if let None = x` goes one way)
        seen, work = set(), [(disc_edge, frozenset())]
        escaped = False
        while work:
            x, none_known = work.pop()
            if (x, none_known) in seen or x in starts or f.blocks[x]["cleanup"]:
                continue
            if x == header or x not in loop:
                escaped = True
                continue
            seen.add((x, none_known))
            nk = set(none_known)
            discr_of = {}
            for st2 in f.blocks[x]["stmts"]:
                if st2["k"] != "assign" or st2["place"]["p"]:
                    continue
                d_ = st2["place"]["l"]
                rv2 = st2["rv"]
                if rv2["k"] == "agg" and rv2.get("variant") == "None":
                    nk.add(d_)
                elif rv2["k"] == "use" and op_local(rv2["op"]) in nk and not op_place(rv2["op"])["p"]:
                    nk.add(d_)
                elif rv2["k"] == "discr" and not rv2["place"]["p"]:
                    discr_of[d_] = (rv2["place"]["l"], rv2.get("variants") or {})
                    nk.discard(d_)
                else:
                    nk.discard(d_)
            tt2 = f.blocks[x]["term"]
            nxt = f.succs(x)
            if tt2["k"] == "switch" and op_local(tt2["discr"]) in discr_of:
                src, vs = discr_of[op_local(tt2["discr"])]
                if src in nk:
                    none_t = [tg for v, tg in tt2["targets"] if vs.get(v) == "None"]
                    nxt = none_t if none_t else [tt2["otherwise"]]
            if tt2["k"] == "call" and not tt2["dest"]["p"]:
                nk.discard(tt2["dest"]["l"])
                # `x.is_none()` / `x.is_some()` of a local just assigned None: the answer is known at the test that follows
                cal2 = tt2.get("callee") or ""
                if cal2 in ("std::option::Option::<T>::is_none", "std::option::Option::<T>::is_some") and tt2["args"]:
                    o2 = f.origin_op(tt2["args"][0])
                    src2 = None
                    if o2 and o2[0] == "ref" and o2[1][0] == "multi":
                        src2 = o2[1][1]
                    elif op_local(tt2["args"][0]) is not None:
                        ds2 = f.full_defs(op_local(tt2["args"][0]))
                        if len(ds2) == 1 and ds2[0][0] == "stmt" and ds2[0][3]["rv"]["k"] == "ref" and not ds2[0][3]["rv"]["place"]["p"]:
                            src2 = ds2[0][3]["rv"]["place"]["l"]
                    if src2 in nk and tt2.get("target") is not None:
                        # follow the call's continuation and resolve the switch on its result right there
                        y = tt2["target"]
                        ty = f.blocks[y]["term"]
                        if ty["k"] == "switch" and op_local(ty["discr"]) == tt2["dest"]["l"] and not f.blocks[y]["stmts"]:
                            truth = cal2.endswith("is_none")
                            ft_ = [tg for v, tg in ty["targets"] if v == "0"]
                            nxt = [ty["otherwise"]] if truth else (ft_ if ft_ else [ty["otherwise"]])
            for y in nxt:
                work.append((y, frozenset(nk)))
        ok = not escaped
        why = "on the `does not continue the block` edge the loop can go on to the next span without having made this span's offset the origin of a new block: a span after a gap would be put into the previous block's address range"
        break
    run.check(ok, R, R + "|get-blocks|gap-starts-block", f.loc(), "get_blocks: a span that does not continue the current block always starts a new block",
              "BitVec::get_blocks: %s" % why)


def symbol_bank_rule(run, R="MPT"):
    """the bank recorded for a label (used for the Mesen offsets) is the bank the resolver was laying out when it reached the
    label: every value stored into Symbol.bankdef_ref is None or Some(<resolver context>.bank_ref)"""
    n_some, bad = 0, []
    for f in run.prog.real_fns():
        for bi, si, st in f.stmts():
            if st["k"] != "assign":
                continue
            vals = []
            pr = st["place"]["p"]
            if pr and isinstance(pr[-1], dict) and pr[-1].get("name") == "bankdef_ref" and "Option<" in str(pr[-1].get("ty")) and st["rv"]["k"] == "use":
                vals.append(_deep(f, st["rv"]["op"], 5))
            if st["rv"]["k"] == "agg" and str(st["rv"].get("adt", "")).endswith("defs::symbol::Symbol") and "bankdef_ref" in (st["rv"].get("fields") or []):
                vals.append(_deep(f, st["rv"]["ops"][st["rv"]["fields"].index("bankdef_ref")], 5))
            for v in vals:
                if v == "None{}":
                    continue
                if re.fullmatch(r"Some\{(P\d+|upvar:\w+)(\.\w+)*\.bank_ref\}", v) and any("ResolverContext" in str(f.local_ty(i)) for i in range(1, f.arg_count + 1)):
                    n_some += 1
                else:
                    bad.append("%s: `%s`" % (f.loc(st["span"]), v[:80]))
    run.check(n_some >= 1 and not bad, R, R + "|symbol-bank|from-context", "-", "a label's bank is the resolver context's current bank (%d store(s)); nothing else writes it" % n_some,
              "a symbol's bank is taken from %s, not from the resolver context that laid the label out: the bank of a label after `#bankdef` (which selects the new bank implicitly) would be wrong in the Mesen listing" % ("; ".join(bad) or "nowhere"))


def body_file_rule(run, R="INC"):
    """a stored body (the production of a rule, the body of a #fn) is evaluated under a resolver context whose file is the file
    the body was written in -- `ctx.file_handle_ctx = Some(<body>.span().file_handle)` on a private copy of the context -- so that
    relative file names in it (incbin, incbinstr, inchexstr) are relative to that file, not to the file of the instruction or call
    that uses it.  Sibling agreement between the two places that evaluate stored bodies."""
    n, bad = 0, []
    for f in run.prog.real_fns():
        for bi, t in f.calls():
            c = t.get("resolved") or t.get("callee") or ""
            if not c.endswith("asm::resolver::eval::eval"):
                continue
            ex = _deep(f, t["args"][-1], 8)
            if not re.search(r"DefList::get\(P\d+\.(ruledefs|functions)", ex):
                continue
            n += 1
            ctx_ops = [a for a, ty in zip(t["args"], t.get("arg_tys") or []) if "ResolverContext" in ty]
            okc = False
            if len(ctx_ops) == 1 and op_local(ctx_ops[0]) is not None:
                # the local behind the reference
                o = f.origin_op(ctx_ops[0])
                root = None
                while o and o[0] in ("ref", "cast"):
                    o = o[1]
                if o and o[0] == "multi":
                    root = o[1]
                elif o and o[0] == "call" and (o[1].get("callee") or "").endswith("Clone::clone"):
                    root = f.copy_root(o[1]["dest"]["l"])
                else:
                    l0 = op_local(ctx_ops[0])
                    ds = f.full_defs(f.copy_root(l0))
                    if len(ds) == 1 and ds[0][0] == "stmt" and ds[0][3]["rv"]["k"] == "ref":
                        root = ds[0][3]["rv"]["place"]["l"]
                if root is not None and root > f.arg_count:
                    for b2, s2, st2 in f.stmts():
                        if st2["k"] == "assign" and st2["place"]["l"] == root and st2["place"]["p"] and isinstance(st2["place"]["p"][-1], dict) \
                                and st2["place"]["p"][-1].get("name") == "file_handle_ctx" and st2["rv"]["k"] == "use":
                            v = _deep(f, st2["rv"]["op"], 10)
                            if v == "Some{Expr::span(%s).file_handle}" % ex and f.dominates(b2, bi):
                                okc = True
            if not okc:
                bad.append("%s evaluates the stored body `%s` under the context of its user" % (f.id, ex[:70]))
    run.check(n >= 2 and not bad, R, R + "|body-file", "-", "stored rule productions and function bodies are evaluated under a context that names their own file (%d site(s))" % n,
              "%s: a relative file name inside the body (incbin / incbinstr / inchexstr) would be resolved relative to the file that uses the rule or calls the function" % ("; ".join(bad) or "evaluations of stored bodies not found"))


def listing_reads_within_span(run, R="MPT"):
    """the data column of a listing row shows the row's own bits: every bit read for a row's digits is behind a test that the bit
    lies inside the row's span (`< span.size`); the last digit of an item whose size is not a multiple of the digit width is padded,
    not completed with bits of the item that follows"""
    n, bad = 0, []
    # the two listings and the private helpers of the module that read a span's digits for them
    listing = [f for f in run.prog.real_fns() if f.kind == "AssocFn" and re.search(r"::format_(annotated|tcgame)$", f.id)]
    helpers = []
    spec = run.table("formats")
    known_formatters = {v[0] for v in spec["dispatch"].values()} | {v[0] for v in spec["wrappers"].values()} | set(spec["wrappers"].keys())
    for f in listing:
        for bi, t in f.calls():
            h = run.prog.fn(t.get("resolved") or "")
            if h is not None and h.id.startswith("util::bitvec_format") and h.id.rsplit("::", 1)[-1] not in known_formatters and any("BitVecSpan" in str(ty) for ty in (t.get("arg_tys") or [])) and h not in helpers:
                helpers.append(h)
    for f in listing + helpers:
        for bi, t in f.calls():
            if not (t.get("resolved") or t.get("callee") or "").endswith("bitvec::BitVec::read_bit"):
                continue
            n += 1
            guarded = False
            for b in f.dominators().get(bi, ()):
                tt = f.blocks[b]["term"]
                if tt["k"] != "switch" or b == bi or op_local(tt["discr"]) is None:
                    continue
                o = f.origin_local(op_local(tt["discr"]))
                if o and o[0] == "binop" and o[1]["op"] in ("Lt", "Le", "Gt", "Ge"):
                    l, r = _deep(f, o[1]["l"], 6), _deep(f, o[1]["r"], 6)
                    if (l.endswith(".size") or r.endswith(".size")) and any(f.edge_dominates(b, e, bi) for e in f.succs(b)):
                        guarded = True
            if not guarded:
                bad.append(f.loc(t["span"]))
    run.check(n >= 1 and len(listing) == 2 and not bad, R, R + "|listing|reads-within-span", "-", "the listings read a row's bits only inside the row's span (%d read site(s))" % n,
              "a listing reads bits for a row's digits without testing that they lie inside the row's span (%s): with a digit width that does not divide the item size (`base:8` and 8-bit items) the last digit of a row includes bits of the next item" % (", ".join(bad) or "read sites not found"))


def listing_excerpt_one_line(run, R="MPT"):
    """a listing row is one line: the source excerpt put on it has its line breaks replaced (a multi-line string literal or block
    comment would otherwise split the row, and in the tcgame format leave the comment)"""
    n, bad = 0, []
    for f in run.prog.real_fns():
        if f.kind != "AssocFn" or not re.search(r"::format_(annotated|tcgame)$", f.id):
            continue
        ex = [(bi, t) for bi, t in f.calls() if (t.get("resolved") or t.get("callee") or "").endswith("CharCounter::<'a>::get_excerpt")]
        for bi, t in ex:
            n += 1
            cleaned = False
            for b2, t2 in f.calls():
                if (t2.get("callee") or "").endswith("<impl str>::replace") and len(t2["args"]) >= 2 and value_depends_on(f, t2["args"][0], t["dest"]["l"]) \
                        and re.fullmatch(r"[\"']\\+n[\"']", _deep(f, t2["args"][1], 3)):
                    cleaned = True
            if not cleaned:
                bad.append(f.loc(t["span"]))
    run.check(n >= 2 and not bad, R, R + "|listing|excerpt-one-line", "-", "source excerpts are put on listing rows with their line breaks replaced (%d site(s))" % n,
              "a listing puts a source excerpt on a row as it is (%s): an item whose source spans several lines (a string literal with a line break) produces a row without position, outside the comment in the tcgame format" % (", ".join(bad) or "excerpt sites not found"))


def bool_field_value_used(run, R="MPT"):
    """a flag field of a `{...}` block that is given a value takes that value (`fill = false` does not switch filling on): the
    answer of AstFields::extract_as_bool is not a constant on every path - it reads the field's expression when there is one"""
    fs = [f for f in run.prog.real_fns() if f.id.endswith("fields::AstFields::extract_as_bool")]
    if len(fs) != 1:
        run.violation(R, R + "|fields|bool-value-used", "-", "mechanism not found: AstFields::extract_as_bool")
        return
    f = fs[0]
    pays = []
    for bi, si, st in f.stmts():
        if st["k"] == "assign" and st["place"]["l"] == 0 and not st["place"]["p"] and st["rv"]["k"] == "agg" and st["rv"].get("variant") == "Ok":
            pays.append(const_int(st["rv"]["ops"][0]))
    ok = bool(pays) and any(p is None for p in pays)
    run.check(ok, R, R + "|fields|bool-value-used", f.loc(), "a flag field given a value takes that value",
              "AstFields::extract_as_bool answers only constants (%s): the value written for a flag is ignored, so `#bankdef a { ..., fill = false }` switches filling ON" % pays)


def _is_ines_header(f, op):
    """the 16-byte header of an iNES file, in bytes or in bits"""
    if const_int(op) in (16, 128):
        return True
    d = _deep(f, op, 4)
    return bool(re.fullmatch(r"\(?(16_usize Mul\w* 8_usize|8_usize Mul\w* 16_usize)\)?(\.0)?", d))


def _mesen_family(prog):
    """format_mesen_mlb, its closures, and the private functions of the symbol formatter module they call (with their closures)"""
    fam = [f for f in prog.real_fns() if "format_mesen_mlb" in (f.raw.get("root") or f.id)]
    seen = {f.id for f in fam}
    work = list(fam)
    while work:
        g = work.pop()
        for bi, t in g.calls():
            h = prog.fn(t.get("resolved") or "")
            if h is not None and h.id.startswith("util::symbol_format::") and h.id not in seen and "format_recursive" not in h.id and not h.id.endswith("::format"):
                for x in prog.real_fns():
                    if (x.raw.get("root") or x.id) == h.id and x.id not in seen:
                        seen.add(x.id)
                        fam.append(x)
                        work.append(x)
    return fam


def mesen_units_scaled(run, R="MPT"):
    """Mesen offsets are byte offsets into the file: the distance of a label from its bank's start, which is counted in the bank's
    address units, is multiplied by the unit's width before it is added to the bank's byte offset"""
    cl = _mesen_family(run.prog)
    ok = False
    split = []
    for g in cl:
        for bi, t in g.calls():
            c = t.get("callee") or ""
            if re.search(r"<impl usize>::(checked_mul|saturating_mul)$", c) and any("addr_unit" in _deep(g, a, 5) for a in t["args"]):
                ok = True
        for bi, si, st in g.stmts():
            if st["k"] == "assign" and st["rv"]["k"] == "binop" and st["rv"]["op"] == "Mul" and any("addr_unit" in _deep(g, o_, 5) for o_ in (st["rv"]["l"], st["rv"]["r"])):
                ok = True
            # the bank's output offset (in bits) divided down to bytes on its own: the sub-byte parts of offset and distance are lost
            if st["k"] == "assign" and st["rv"]["k"] == "binop" and st["rv"]["op"] in ("Div", "Shr") and re.search(r"output_offset(@Some\.0)?$", _deep(g, st["rv"]["l"], 4)) \
                    or st["k"] == "assign" and st["rv"]["k"] == "binop" and st["rv"]["op"] in ("Div", "Shr") and _param_is_output_offset(run.prog, g, st["rv"]["l"]):
                split.append(g.loc(st["span"]))
    run.check(bool(cl) and ok, R, R + "|mesen|units-scaled", cl[0].loc() if cl else "-", "the label's distance from the bank start is scaled by the bank's address unit",
              "format_mesen_mlb adds the distance of a label from its bank's start (in address units) to a byte offset without scaling: in a bank with `#bits 16` the labels at words 0, 1, 2 are listed as P:0, P:1, P:2 although they lie at bytes 0, 2, 4")
    run.check(bool(cl) and not split, R, R + "|mesen|bits-before-bytes", cl[0].loc() if cl else "-", "the bank's output offset is added in bits, the sum is divided down to bytes",
              "format_mesen_mlb divides the bank's output offset down to bytes on its own (%s) before adding the label's distance: with a bank of 4-bit units placed at bit 0x84 the label at unit 1 (bit 0x88, byte 0x11) is listed at the offset of byte 0x10" % ", ".join(split))


def _param_is_output_offset(prog, g, op):
    """the operand is a parameter of a helper which every caller fills with the bank's output offset"""
    e = _deep(g, op, 3)
    m = re.fullmatch(r"P(\d+)", e)
    if not m or g.kind == "Closure":
        return False
    k = int(m.group(1)) - 1
    sites = [(h, t) for h in prog.real_fns() for bi, t in h.calls() if (t.get("resolved") or "") == g.id]
    return bool(sites) and all(k < len(t["args"]) and re.search(r"output_offset(@Some\.0)?$", _deep(h, t["args"][k], 6)) for h, t in sites)


def exact_unit_division(run, R="ALIGN"):
    """positions and sizes are counted in bits; an address is a position divided by the bank's address unit.  That division loses
    the bits inside a unit, so wherever the assembler divides a quantity by a bank's `addr_unit` it also takes the remainder of
    the same two operands (the `position is not aligned to an address` test).  A division without that sibling rounds a position
    or an end down to whole addresses - a bank overrun by less than one unit, or padding computed from a rounded position, goes
    unnoticed"""
    n, bad = 0, []
    for f in run.prog.real_fns():
        if not f.id.startswith("asm::"):
            continue
        rems = set()
        divs = []
        for bi, si, st in f.stmts():
            if st["k"] == "assign" and st["rv"]["k"] == "binop" and st["rv"]["op"] in ("Div", "Rem"):
                r_ = _deep(f, st["rv"]["r"], 5)
                if not r_.endswith(".addr_unit"):
                    continue
                key = (_deep(f, st["rv"]["l"], 5), r_)
                if st["rv"]["op"] == "Rem":
                    rems.add(key)
                else:
                    divs.append((key, st))
        for bi, t in f.calls():
            if re.search(r"<impl usize>::(checked_div|wrapping_div|div_euclid|checked_div_euclid)$", t.get("callee") or "") and len(t["args"]) == 2 and _deep(f, t["args"][1], 5).endswith(".addr_unit"):
                divs.append(((_deep(f, t["args"][0], 5), _deep(f, t["args"][1], 5)), {"span": t["span"]}))
        for key, st in divs:
            n += 1
            if key not in rems:
                bad.append("%s (%s)" % (f.loc(st["span"]), f.id.rsplit("::", 1)[-1]))
    run.check(n >= 1 and not bad, R, R + "|unit-division|exact", "-", "every division by a bank's address unit has the remainder of the same operands taken next to it (%d site(s))" % n,
              "a bit position or size is divided by the bank's address unit without the remainder being looked at: %s: an item that ends inside an address unit is rounded down (a full bank plus a 4-bit item passes the range test; `#align` after a 4-bit item pads from the rounded position)" % (", ".join(bad) or "division sites not found"))


def symbol_listing_visits_all(run, R="MPT"):
    """a symbol listing names every declared symbol: the walk over the symbol tree (`format_recursive`) descends into the children
    of every symbol - the recursive call is reached on every path through the loop body, so no `continue` (for a value of another
    kind, a suppressed symbol, ...) cuts off a subtree"""
    from mir import natural_loop
    fs = [f for f in run.prog.real_fns() if f.kind != "Closure" and f.id.endswith("::format_recursive") and "symbol_format" in f.id]
    if len(fs) != 1:
        run.violation(R, R + "|symbols|visits-all", "-", "mechanism not found: the recursive walk of the symbol formatter")
        return
    f = fs[0]
    rec = {bi for bi, t in f.calls() if (t.get("resolved") or "") == f.id}
    # the loop over the children: the header is the block of the `next()` call of a loop that contains the recursive call
    ok, why = False, "no loop around the recursive call"
    for h in sorted(f.reachable()):
        loop = natural_loop(f, h)
        if not loop or not (rec & loop):
            continue
        nexts = [bi for bi, t in f.calls() if bi in loop and (t.get("callee") or "").endswith("Iterator::next")]
        if not nexts:
            continue
        # from the `Some` edge of the iteration, every way back to the header passes the recursive call
        seen, work = set(), [x for x in f.succs(h) if x in loop] if h not in nexts else []
        start = nexts[0]
        seen, work = set(), list(f.succs(start))
        escaped = False
        while work:
            x = work.pop()
            if x in seen or x in rec or x not in loop:
                continue
            seen.add(x)
            for y in f.succs(x):
                if y == start or (y == h and h != start):
                    # back at the top of the loop without having met the recursive call - unless this is the `None` exit path
                    escaped = True
                work.append(y)
        # the path through `None` leaves the loop, it never returns to the header; any return to the header counts
        ok = not escaped
        why = "a path through the loop body returns to the top of the loop without the recursive call"
        break
    run.check(ok, R, R + "|symbols|visits-all", f.loc(), "the symbol walk descends into the children of every symbol",
              "format_recursive: %s: the symbols nested under a skipped symbol (a constant holding a string, a suppressed label) are missing from the listing" % why)


def blocks_in_output_order(run, R="MPT"):
    """the blocks of the output are found by walking the emitted items in the order of their output offset: the comparator of the
    sort in get_blocks reads the `offset` of both items and nothing else"""
    import json
    from mir import closure_of_origin
    f = run.anchor(R, "util::bitvec::BitVec::get_blocks")
    if f is None:
        return
    fields = None
    for bi, t in f.calls():
        if re.search(r"::(sort_by|sort_by_key|sort_unstable_by|sort_unstable_by_key|sort_by_cached_key)(::<.*)?$", t.get("callee") or "") and len(t["args"]) == 2:
            cid = closure_of_origin(f.origin_op(t["args"][1]))
            g = run.prog.fn(cid) if cid else None
            if g is not None:
                fields = set(re.findall(r'"name": "(\w+)"', json.dumps(g.raw.get("blocks"))))
                fields = {x for x in fields if not x.isdigit()}
    run.check(fields == {"offset"}, R, R + "|get-blocks|sorted-by-offset", f.loc(), "get_blocks walks the items sorted by their output offset",
              ("get_blocks sorts the emitted items by %s, not by their output offset: with banks whose addresses are not in the order of their output offsets, neighbouring items are not recognised as one block and blocks come out in the wrong order (Intel HEX records dropped or misplaced)" % sorted(fields)) if fields is not None else "mechanism not found: the sort of the emitted items in get_blocks")


def smallest_by_resolved_size(run, R="REJ"):
    """`the smallest encoding wins` compares the sizes of the encodings that were just resolved: the selection in resolve_encoding
    reads the `size` of each resolved value, never the size the matcher worked out beforehand from the rule text alone
    (`encoding_size`, which is 0 when it cannot be computed statically)"""
    import json
    f = run.anchor(R, "instruction::resolve_encoding")
    if f is None:
        return
    fam = [g for g in run.prog.real_fns() if (g.raw.get("root") or g.id) == f.id]
    reads_size = sum(json.dumps(g.raw.get("blocks")).count('"name": "size"') for g in fam)
    static = [g.loc() for g in fam if '"name": "encoding_size"' in json.dumps(g.raw.get("blocks"))]
    run.check(reads_size >= 1 and not static, R, R + "|smallest|by-resolved-size", f.loc(), "the smallest encoding is chosen by the sizes of the resolved encodings (%d reader(s))" % reads_size,
              "resolve_encoding chooses the smallest candidate by the size the matcher pre-computed from the rule text (%s): that size is 0 whenever it is not statically computable (a production that calls a function), so a longer encoding wins over a shorter one" % (", ".join(static) or "readers of the resolved size not found"))


def include_parses_every_time(run, R="INC"):
    """`including a file splices its content at that point every time`: apart from the empty answer for a `#once` file that was
    seen before, every tree that parse_and_resolve_includes hands back is the parse of the file's text read in this very call -
    the success return lies behind the success edge of `parser::parse`.  A tree remembered from an earlier inclusion already has
    that inclusion's nested includes (and their #once decisions) spliced in"""
    fs = [f for f in run.prog.real_fns() if f.kind != "Closure" and re.search(r"asm::parser::parse_and_resolve_includes(::<.*>)?$", f.id)]
    if not fs:
        run.violation(R, R + "|include|parsed-every-time", "-", "mechanism not found: parse_and_resolve_includes")
        return
    f = fs[0]
    parses = [(bi, t) for bi, t in f.calls() if (t.get("resolved") or "") == "asm::parser::parse"]
    oks = [(bi, st) for bi, si, st in f.stmts() if st["k"] == "assign" and st["place"]["l"] == 0 and not st["place"]["p"] and st["rv"]["k"] == "agg" and st["rv"].get("variant") == "Ok"]
    bad = []
    for bi, st in oks:
        d = _deep(f, st["rv"]["ops"][0], 6)
        if re.search(r"nodes: Vec::new\(\)", d):
            continue        # the empty tree of a #once file seen before
        if not any(t.get("target") is not None and f.dominates(t["target"], bi) and pb != bi for pb, t in parses):
            bad.append(f.loc(st["span"]))
    run.check(len(parses) == 1 and bool(oks) and not bad, R, R + "|include|parsed-every-time", f.loc(), "every non-empty tree handed back by parse_and_resolve_includes was parsed in this call (%d success return(s))" % len(oks),
              "parse_and_resolve_includes hands back a tree that was not parsed in this call (%s): a file included a second time brings along what its first inclusion spliced in - the content of a nested #once file is emitted again, or its symbols become duplicates" % (", ".join(bad) or "parse call not found"))
