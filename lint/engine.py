"""Obligation bookkeeping, known findings, evidence and replay files."""
import json, os, sys, time

VERIF = os.path.dirname(os.path.dirname(os.path.abspath(__file__)))


class Obligation:
    __slots__ = ("rule", "key", "status", "loc", "detail", "path")

    def __init__(self, rule, key, status, loc, detail, path=None):
        self.rule = rule          # rule id, e.g. DET1
        self.key = key            # stable key without line numbers
        self.status = status      # 'ok' | 'violation' | 'exception'
        self.loc = loc            # file:line for humans
        self.detail = detail      # human readable sentence
        self.path = path          # optional witness (list of strings)

    def to_json(self):
        d = {"rule": self.rule, "key": self.key, "status": self.status, "loc": self.loc, "detail": self.detail}
        if self.path:
            d["path"] = self.path
        return d


class Run:
    def __init__(self, prop, tier, prog, repo="/repo"):
        self.prop = prop
        self.tier = tier
        self.prog = prog
        self.repo = repo
        self.obs = []
        self.notes = []
        self.counters = {}
        self.t0 = time.time()
        self.rules_run = []
        self._tables = {}
        self.broken = []

    # -- recording ---------------------------------------------------------
    def ok(self, rule, key, loc, detail):
        self.obs.append(Obligation(rule, key, "ok", loc, detail))

    def violation(self, rule, key, loc, detail, path=None):
        self.obs.append(Obligation(rule, key, "violation", loc, detail, path))

    def exception(self, rule, key, loc, detail):
        self.obs.append(Obligation(rule, key, "exception", loc, detail))

    def check(self, cond, rule, key, loc, detail_ok, detail_bad=None, path=None):
        if cond:
            self.ok(rule, key, loc, detail_ok)
        else:
            self.violation(rule, key, loc, detail_bad or ("NOT: " + detail_ok), path)
        return cond

    def note(self, s):
        self.notes.append(s)

    def count(self, name, n=1):
        self.counters[name] = self.counters.get(name, 0) + n

    def floor(self, rule, name, found, minimum):
        """instance floor: fail closed if fewer instances than counted by hand"""
        self.check(found >= minimum, rule, "%s|floor|%s" % (rule, name), "-",
                   "%s: found %d instance(s), floor %d" % (name, found, minimum),
                   "%s: found only %d instance(s) but %d were confirmed by hand on the pinned tree; the rule would pass vacuously (anchor lost?)" % (name, found, minimum))

    def table(self, name):
        if name not in self._tables:
            p = os.path.join(VERIF, "tables", name + ".json")
            with open(p) as fh:
                self._tables[name] = json.load(fh)
        return self._tables[name]

    def anchor(self, rule, suffix):
        """find exactly one function by path suffix; records a violation when missing"""
        r = self.prog.find(suffix)
        if len(r) != 1:
            self.violation(rule, "%s|anchor|%s" % (rule, suffix), "-",
                           "mechanism not found: expected exactly one function `%s`, found %d" % (suffix, len(r)))
            return None
        return r[0]


def load_known():
    p = os.path.join(VERIF, "known_findings.json")
    if not os.path.exists(p):
        return {"findings": [], "fixed": []}
    with open(p) as fh:
        return json.load(fh)


def finish(run, seed=0, write=True):
    """print report, write evidence + replays, return exit code"""
    known = load_known()
    known_keys = {}
    for k in known.get("findings", []):
        if k["property"] == run.prop:
            known_keys[k["key"]] = k
    viol = [o for o in run.obs if o.status == "violation"]
    new = [o for o in viol if o.key not in known_keys]
    old = [o for o in viol if o.key in known_keys]
    rep_dir = os.path.join(VERIF, "replays")
    if write:
        os.makedirs(rep_dir, exist_ok=True)
        # remove stale replays for this property
        for f in os.listdir(rep_dir):
            if f.startswith(run.prop + "-"):
                os.unlink(os.path.join(rep_dir, f))
    for o in old:
        print("KNOWN-FINDING: property=%s %s -- %s" % (run.prop, o.key, known_keys[o.key].get("what", o.detail)))
    for i, o in enumerate(new):
        rp = os.path.join(rep_dir, "%s-%d.json" % (run.prop, i))
        if write:
            with open(rp, "w") as fh:
                json.dump({"property": run.prop, "obligation": o.to_json(), "tier": run.tier}, fh, indent=1)
        print("%s: [%s] %s\n      key: %s" % (o.loc, o.rule, o.detail, o.key))
        if o.path:
            for p in o.path[:40]:
                print("      " + p)
        print("VIOLATION property=%s replay=%s" % (run.prop, os.path.relpath(rp, VERIF)))
    n_ok = sum(1 for o in run.obs if o.status == "ok")
    n_ex = sum(1 for o in run.obs if o.status == "exception")
    wall = time.time() - run.t0
    samples = [o.to_json() for o in run.obs if o.status == "ok"][:6] + [o.to_json() for o in run.obs if o.status != "ok"][:6]
    byrule = {}
    for o in run.obs:
        r = byrule.setdefault(o.rule, {"obligations": 0, "ok": 0, "exception": 0, "violation": 0})
        r["obligations"] += 1
        r[o.status] += 1
    ev = {
        "property_id": run.prop,
        "tier": run.tier,
        "seed": seed,
        "level": "other",
        "coverage": {
            "explanation": "static rule-based analysis of rustc MIR facts extracted from /repo's current working tree (targets: %s); each obligation is one rule instance (function / call site / table row) decided from the code; nothing is executed" % ", ".join(run.prog.kinds()),
            "obligations": len(run.obs),
            "discharged": n_ok + n_ex,
            "exceptions_used": n_ex,
            "violations_new": len(new),
            "violations_known": len(old),
            "functions_analysed": len(run.prog.real_fns()),
            "by_rule": byrule,
            "counters": run.counters,
            "controls_failed": run.broken,
            "rules": run.rules_run,
            "samples": samples,
            "notes": run.notes[:40],
        },
        "assumptions": [
            "rustc's MIR construction and Instance::try_resolve are trusted",
            "std, getopts and num-bigint are leaves with the summaries stated in the rules",
            "only the named structural clauses are decided; the value-level remainder of the property is not (see DESIGN.md section 4)",
        ],
        "wall_s": round(wall, 2),
        "violations": len(new),
    }
    evd = os.path.join(VERIF, "evidence")
    if write:
        os.makedirs(evd, exist_ok=True)
        with open(os.path.join(evd, run.prop + ".json"), "w") as fh:
            json.dump(ev, fh, indent=1)
    print("%s %s: %d obligations, %d discharged (%d by listed exception), %d known finding(s), %d new violation(s) [%.1fs]" % (
        run.prop, run.tier, len(run.obs), n_ok + n_ex, n_ex, len(old), len(new), wall))
    if run.broken:
        for b in run.broken:
            print("BROKEN-CHECKER: %s" % b)
        return 2
    return 1 if new else 0
