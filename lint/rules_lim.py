"""LIM — resource limits (C19; instances reused by C06, C11, C12, C14, C17).

LIM1  recursion cycles of the call graph must pass a depth guard (and no reset of that guard)
LIM1b loop-carried construction of nested Expr trees needs a counter
LIM2  machine arithmetic on user-sized integers must be checked (magnitude-class taint, interprocedural)
LIM3  user-sized loop bounds
LIM4  big-integer operations are capped"""
import re, sys
from collections import defaultdict
from mir import (stable_origin, peel, op_place, op_local, const_int, describe_origin, natural_loop, rv_operands, rv_places)

GUARDS = {"parse": re.compile(r"ExpressionParser::<.*>::check_recursion_limit$"), "eval": re.compile(r"EvalContext::check_recursion_depth_limit$")}
DEEPEN = {"parse": re.compile(r"^$"), "eval": re.compile(r"EvalContext::new_deepened$")}
RESETS = {"parse": re.compile(r"ExpressionParser::<.*>::new$"), "eval": re.compile(r"^expr::eval::EvalContext::new$")}


def sccs_of(nodes, g):
    sys.setrecursionlimit(20000)
    idx = {}
    low = {}
    st = []
    on = set()
    out = []
    c = [0]

    def sc(v):
        idx[v] = low[v] = c[0]
        c[0] += 1
        st.append(v)
        on.add(v)
        for w in sorted(g.get(v, ())):
            if w not in nodes:
                continue
            if w not in idx:
                sc(w)
                low[v] = min(low[v], low[w])
            elif w in on:
                low[v] = min(low[v], idx[w])
        if low[v] == idx[v]:
            comp = []
            while True:
                w = st.pop()
                on.discard(w)
                comp.append(w)
                if w == v:
                    break
            out.append(comp)
    for v in sorted(nodes):
        if v not in idx:
            sc(v)
    return [c_ for c_ in out if len(c_) > 1 or c_[0] in g.get(c_[0], ())]


def cycle_key(comp):
    names = sorted(x.split("::{closure")[0] for x in comp)
    names = sorted(set(names))
    short = [n.rsplit("::", 2)[-2] + "::" + n.rsplit("::", 1)[-1] if "::" in n else n for n in names]
    if len(short) > 4:
        return "%s..%s(%d)" % (short[0], short[-1], len(short))
    return "+".join(short)


def lim1(run):
    R = "LIM1"
    prog = run.prog
    g = prog.callgraph()
    spec = run.table("lim")
    structural = {tuple(sorted(e["fns"])): e for e in spec["structural_recursion"]}
    guards = defaultdict(set)
    resets = defaultdict(set)
    for f in prog.real_fns():
        for bi, t in f.calls():
            r = t.get("resolved") or ""
            for k, rx in GUARDS.items():
                if rx.search(r):
                    guards[k].add(f.id)
            for k, rx in RESETS.items():
                if rx.search(r):
                    resets[k].add(f.id)
    run.floor(R, "depth-guard call sites", sum(len(v) for v in guards.values()), 4)
    # a guard only guards if the check precedes the recursive calls of that function
    for k, fs in guards.items():
        for fid in sorted(fs):
            f = prog.fn(fid)
            gb = [bi for bi, t in f.calls() if GUARDS[k].search(t.get("resolved") or "")]
            full = sccs_of(set(prog.fns), g)
            mine = [c for c in full if fid in c]
            ok = True
            if mine:
                comp = set(mine[0])
                for bi, t in f.calls():
                    tg, _ = prog.call_targets(f, t)
                    if any(x in comp for x in tg) and not any(f.dominates(b0, bi) and b0 != bi for b0 in gb):
                        ok = False
                # closures of this function that recurse are entered after the check as long as the check dominates their creation; accept
            run.check(ok, R, "LIM1|guard-first|" + fid, f.loc(), "%s checks the %s depth before recursing" % (fid, k),
                      "%s calls back into its recursion cycle on a path that has not passed the %s depth check" % (fid, k))
    all_guards = set().union(*guards.values()) if guards else set()
    full = sccs_of(set(prog.fns), g)
    n = 0
    for comp in sorted(full, key=lambda c: sorted(c)[0]):
        cs = set(comp)
        kinds = [k for k in guards if cs & guards[k]]
        # resets of a guard kind inside the cycle defeat that guard
        for k in kinds:
            rs = sorted(cs & resets[k])
            for r_ in rs:
                n += 1
                run.violation(R, "LIM1|reset-on-cycle|" + r_, prog.fn(r_).loc(),
                              "the %s depth counter that guards the cycle %s is re-created inside the cycle by %s: nesting through it is not bounded by the depth limit (stack overflow instead of a diagnostic)" % (k, cycle_key(comp), r_))
        # a reset reached through a helper that is not itself on the cycle (one call away) defeats the guard as well, unless
        # the helper is the deepening constructor (which resets and then sets depth + 1)
        for k in kinds:
            for m in sorted(cs):
                for h in sorted(g.get(m, ())):
                    if h in cs or h not in resets[k] or DEEPEN[k].search(h):
                        continue
                    n += 1
                    run.violation(R, "LIM1|reset-on-cycle|" + h, prog.fn(h).loc() if prog.fn(h) else "-",
                                  "the %s depth counter that guards the cycle %s is re-created by %s, which %s calls on the cycle: nesting through it is not bounded by the depth limit (stack overflow instead of a diagnostic)" % (k, cycle_key(comp), h, m))
        resid = sccs_of(cs - all_guards, g)
        if not resid:
            n += 1
            run.ok(R, "LIM1|guarded|" + cycle_key(comp), "-", "recursion cycle %s passes a depth guard (%s) on every closed walk" % (cycle_key(comp), ", ".join(kinds)))
        for r_ in sorted(resid, key=lambda c: sorted(c)[0]):
            n += 1
            key = "LIM1|cycle|" + cycle_key(r_)
            tk = tuple(sorted(set(x.split("::{closure")[0] for x in r_)))
            f0 = prog.fn(sorted(r_)[0])
            if tk in structural:
                e = structural[tk]
                run.exception(R, key, f0.loc(), "recursion %s walks %s; its depth is bounded by %s" % (cycle_key(r_), e["walks"], e["bounded_by"]))
            else:
                run.violation(R, key, f0.loc(),
                              "recursion cycle without a depth guard: %s. Nesting of the corresponding construct is only limited by the stack (overflow, SIGABRT) instead of being answered with a diagnostic" % ", ".join(sorted(tk)))
    run.count("lim1_cycles", n)
    run.floor(R, "recursion cycles found", n, 15)


def lim1b(run):
    """inside a loop, an Expr that wraps its own previous value (left-associative chains) grows a tree whose depth
    equals the number of iterations; every recursive walker of that tree then recurses that deep"""
    R = "LIM1b"
    prog = run.prog
    n = 0
    for f in prog.real_fns():
        if not f.id.startswith("expr::parser::"):
            continue
        # candidate accumulators: Expr-typed locals with a definition inside a loop
        for l, d in enumerate(f.locals):
            if d["ty"] != "expr::expression::Expr" or not d.get("name"):
                continue
            defs = f.full_defs(l)
            if len(defs) < 2:
                continue
            for dd in defs:
                b = dd[1]
                # innermost loop containing b
                loops = [natural_loop(f, h) for h in f.reachable()]
                loops = [lp for lp in loops if lp and b in lp]
                if not loops:
                    continue
                lp = min(loops, key=len)
                # does the new value depend on the old value of l (through Box::new etc.)?
                st = dd[3] if dd[0] == "stmt" else None
                if st is None:
                    continue
                from rules_tab import value_depends_on
                rv = st["rv"]
                if rv["k"] == "use":
                    o = peel(f.origin_op(rv["op"]))
                    if not (o[0] == "agg" and o[1].get("adt", "").endswith("expression::Expr")):
                        continue
                    ops = o[1]["ops"]
                elif rv["k"] == "agg" and rv.get("adt", "").endswith("expression::Expr"):
                    ops = rv["ops"]
                else:
                    continue
                dep = any(value_depends_on(f, o2, l) for o2 in ops)
                if not dep:
                    continue
                n += 1
                guarded = any((t.get("resolved") or "").endswith("check_recursion_limit") for bb in lp for t in [f.blocks[bb]["term"]] if t["k"] == "call")
                run.check(guarded, R, "LIM1b|%s|loop-carried-expr" % f.id, f.loc(st["span"]),
                          "%s: the loop that nests `%s` deeper on every iteration checks the recursion limit" % (f.id, d["name"]),
                          "%s: every iteration of the loop wraps `%s` into a new Expr node (a chain `a op b op c ...` of n operators becomes a tree of depth n) without counting against the nesting limit; the recursive walkers of the tree (evaluation, static inspection, drop) then recurse n deep and overflow the stack" % (f.id, d["name"]))
    run.floor(R, "loop-carried Expr accumulators", n, 1)


# ---------------------------------------------------------------------------------------------- LIM2

NONE, DATA, U32, WORD = 0, 1, 2, 3
CLS = {0: "-", 1: "DATA", 2: "U32", 3: "WORD"}
INT_TY = re.compile(r"^(usize|u64|u32|u16|isize|i64|i32)$")

# results of these calls are user-sized machine integers
WORD_SOURCES = re.compile(
    r"(util::bigint::BigInt::checked_into(_nonzero_usize)?$|util::bigint::BigInt::maybe_into$|expr::expression::Value::(expect_usize|expect_nonzero_usize|as_usize)$"
    r"|Expr>::try_eval_usize$|syntax::excerpt::excerpt_as_usize$|core::num::<impl usize>::from_str_radix$|core::str::<impl str>::parse$)")
DATA_SOURCES = re.compile(r"(::len$|::count$|::capacity$|count_ones$|::bits$|::min_size$|::size_or_min_size$)")
KEEP_ARG0 = re.compile(r"(Option::<T>::unwrap|Option::<T>::unwrap_or|Option::<T>::expect|Result::<T, E>::unwrap|Result::<T, E>::expect|std::convert::TryInto::try_into|std::convert::TryFrom::try_from|std::convert::Into::into|std::convert::From::from|std::clone::Clone::clone|std::ops::Try::branch|Option::<T>::ok_or|Option::<T>::copied|Option::<T>::cloned|Option::<T>::as_ref|Option::<T>::filter|Result::<T, E>::ok|std::ops::Deref::deref)$")


class Taint:
    def __init__(self, prog, contracts=None, capped_sources=None):
        self.prog = prog
        self.cap_fld = {}
        self.cap_ret = {}
        self.audit_fld = set()
        self.cap_src = {}
        for c in (contracts or []):
            cls = {"DATA": DATA, "U32": U32, "NONE": NONE}[c["class"]]
            if "field" in c:
                self.cap_fld[(c["struct"], c["field"])] = cls
                if c.get("audit_stores"):
                    self.audit_fld.add((c["struct"], c["field"]))
            else:
                self.cap_ret[c["fn"]] = cls
        for c in (capped_sources or []):
            self.cap_src[c["fn"]] = {"DATA": DATA, "U32": U32, "NONE": NONE}[c["class"]]
        self._tl = {}
        self.loc = defaultdict(int)     # (fid, local) -> class
        self.fld = defaultdict(int)     # (adt, field) -> class
        self.changed = True

    def up(self, table, key, v):
        if table is self.fld and key in self.cap_fld:
            v = min(v, self.cap_fld[key])
        if table is self.loc and key[1] == 0 and key[0] in self.cap_ret:
            v = min(v, self.cap_ret[key[0]])
        if v > table[key]:
            table[key] = v
            self.changed = True

    def tuple_local(self, f, l):
        """is local l only ever defined by tuple aggregates of this function?"""
        k = (f.id, l)
        if k not in self._tl:
            ds = f.full_defs(l)
            self._tl[k] = bool(ds) and all(d[0] == "stmt" and d[3]["k"] == "assign" and d[3]["rv"]["k"] == "agg" and d[3]["rv"].get("agg") == "tuple" for d in ds) and not f.partial_defs(l) and not (1 <= l <= f.arg_count)
        return self._tl[k]

    def place_class(self, f, pl):
        c = self.loc[(f.id, pl["l"])]
        if pl["p"] and isinstance(pl["p"][0], dict) and "f" in pl["p"][0] and pl["p"][0]["name"].isdigit() and self.tuple_local(f, pl["l"]):
            c = self.loc[(f.id, (pl["l"], int(pl["p"][0]["name"])))]
        # field projections: struct field summary
        ty = f.local_ty(pl["l"])
        for pr in pl["p"]:
            if isinstance(pr, dict) and "f" in pr and not pr["name"].isdigit():
                bt = re.sub(r"^&(mut )?", "", ty)
                bt = re.sub(r"<.*$", "", bt)
                c = max(0, self.fld[(bt, pr["name"])])
                ty = pr["ty"]
            elif isinstance(pr, dict) and "f" in pr:
                ty = pr["ty"]
            elif pr == "deref":
                ty = re.sub(r"^&(mut )?", "", ty)
        return c

    def op_class(self, f, op):
        pl = op_place(op)
        if pl is None:
            return NONE
        return self.place_class(f, pl)

    def store(self, f, pl, c):
        if c == NONE:
            return
        if not pl["p"] or all(pr == "deref" or (isinstance(pr, dict) and ("downcast" in pr or ("f" in pr and pr["name"].isdigit()))) for pr in pl["p"]):
            self.up(self.loc, (f.id, pl["l"]), c)
            return
        ty = f.local_ty(pl["l"])
        last = None
        for pr in pl["p"]:
            if isinstance(pr, dict) and "f" in pr and not pr["name"].isdigit():
                bt = re.sub(r"^&(mut )?", "", ty)
                bt = re.sub(r"<.*$", "", bt)
                last = (bt, pr["name"])
                ty = pr["ty"]
            elif isinstance(pr, dict) and "f" in pr:
                ty = pr["ty"]
            elif pr == "deref":
                ty = re.sub(r"^&(mut )?", "", ty)
        if last:
            self.up(self.fld, last, c)

    def solve(self, max_iter=40):
        prog = self.prog
        fns = prog.real_fns()
        it = 0
        while self.changed and it < max_iter:
            self.changed = False
            it += 1
            for f in fns:
                for bi, si, st in f.stmts():
                    if st["k"] != "assign":
                        continue
                    rv = st["rv"]
                    k = rv["k"]
                    c = NONE
                    if k == "use":
                        c = self.op_class(f, rv["op"])
                    elif k == "ref":
                        c = self.place_class(f, rv["place"])
                    elif k == "cast":
                        c = self.op_class(f, rv["op"])
                        if rv["kind"] == "int2int" and re.match(r"^(u8|u16|i8|i16|bool|char)$", rv["ty"]):
                            c = NONE
                    elif k == "binop":
                        a, b = self.op_class(f, rv["l"]), self.op_class(f, rv["r"])
                        op = rv["op"].replace("WithOverflow", "")
                        if op in ("Add", "BitOr", "BitXor", "Shl"):
                            c = max(a, b)
                        elif op == "Sub":
                            c = a       # a - b <= a (a wrapping subtraction is flagged by LIM2 itself)
                        elif op == "Mul":
                            c = WORD if (a >= U32 and b >= DATA) or (b >= U32 and a >= DATA) else max(a, b)
                        elif op in ("Div", "Shr", "BitAnd"):
                            c = a
                        elif op == "Rem":
                            c = b if const_int(rv["r"]) is None else NONE
                        else:
                            c = NONE
                    elif k == "agg":
                        if rv["agg"] == "adt" and rv.get("fields") and not (rv["adt"].endswith("::Option") or rv["adt"].endswith("::Result")):
                            short = re.sub(r"<.*$", "", rv["adt"])
                            for name, o in zip(rv["fields"], rv["ops"]):
                                cc = self.op_class(f, o)
                                if cc and not name.isdigit():
                                    self.up(self.fld, (short, name), cc)
                                elif cc:
                                    c = max(c, cc)
                        else:
                            for i_, o in enumerate(rv["ops"]):
                                cc = self.op_class(f, o)
                                c = max(c, cc)
                                if rv.get("agg") == "tuple" and cc and not st["place"]["p"]:
                                    self.up(self.loc, (f.id, (st["place"]["l"], i_)), cc)
                    elif k == "unop":
                        c = self.op_class(f, rv["x"])
                    if c:
                        self.store(f, st["place"], c)
                for bi, t in f.calls():
                    r = t.get("resolved") or t.get("callee") or ""
                    cal = t.get("callee") or ""
                    dest = t["dest"]
                    c = NONE
                    if WORD_SOURCES.search(r) or WORD_SOURCES.search(cal):
                        c = WORD
                        ga = " ".join(t.get("gargs", []))
                        if re.search(r"\bu32\b", ga) and "checked_into" in r:
                            c = U32
                        if re.search(r"\b(u8|u16)\b", ga):
                            c = NONE
                        if f.id in self.cap_src:
                            c = min(c, self.cap_src[f.id])
                    elif re.search(r"::(try_into|try_from)$", cal) and "num_bigint::Big" in (t.get("gargs") or [""])[0] + (t.get("callee_full") or ""):
                        ga = " ".join((t.get("gargs") or [])[1:])
                        c = U32 if re.search(r"\bu32\b", ga) else (NONE if re.search(r"\b(u8|u16|i8|i16)\b", ga) else WORD)
                    elif DATA_SOURCES.search(cal) or DATA_SOURCES.search(r):
                        c = DATA
                    elif KEEP_ARG0.search(cal) and t["args"]:
                        c = self.op_class(f, t["args"][0])
                    elif cal in ("std::cmp::min", "std::cmp::Ord::min") and len(t["args"]) == 2:
                        c = min(self.op_class(f, t["args"][0]), self.op_class(f, t["args"][1]))
                    elif cal in ("std::cmp::max", "std::cmp::Ord::max") and len(t["args"]) == 2:
                        c = max(self.op_class(f, t["args"][0]), self.op_class(f, t["args"][1]))
                    elif re.search(r"::(checked_|saturating_|wrapping_)\w+$", cal):
                        c = max([self.op_class(f, a) for a in t["args"]] or [0])
                    if re.search(r"(Option::<T>|Result::<T, E>)::(map|and_then|map_or|map_or_else|filter|is_some_and|is_ok_and|inspect)$", cal) and len(t["args"]) >= 2:
                        # `opt.map(|v| ...)`: the payload is the closure's parameter, the closure's answer is the payload of the result
                        from mir import closure_of_origin
                        cid = closure_of_origin(f.origin_op(t["args"][-1]))
                        g_ = prog.fn(cid) if cid else None
                        if g_ is not None:
                            ac = self.op_class(f, t["args"][0])
                            if ac and g_.arg_count >= 2:
                                self.up(self.loc, (g_.id, 2), ac)
                            if not cal.endswith("::filter") and not cal.endswith("::inspect"):
                                c = max(c, self.loc[(g_.id, 0)])
                            else:
                                c = max(c, ac)
                    tg, _ = prog.call_targets(f, t)
                    for gid in tg:
                        g = prog.fn(gid)
                        if g is None:
                            continue
                        for i, a in enumerate(t["args"]):
                            if i + 1 <= g.arg_count:
                                ac = self.op_class(f, a)
                                if ac:
                                    self.up(self.loc, (g.id, i + 1), ac)
                        rc = self.loc[(g.id, 0)]
                        if g.kind == "Closure" and t["args"]:
                            # closure call: argument tuple spread over the closure's parameters
                            pass
                        c = max(c, rc)
                    if c:
                        self.store(f, dest, c)
        self.iterations = it
        return self


def guarded_ge(f, block, l_op, r_op):
    """is `block` dominated by the true edge of a comparison establishing l >= r (or l > r, r <= l, r < l, l != 0 with r == const small...)"""
    ll = op_local(l_op)
    rl = op_local(r_op)
    rc = const_int(r_op)
    lroot = f.copy_root(ll) if ll is not None else None
    rroot = f.copy_root(rl) if rl is not None else None
    ldesc = describe_origin(f, f.origin_op(l_op)) if ll is not None else None
    rdesc = describe_origin(f, f.origin_op(r_op)) if rl is not None else None
    for b in f.dominators().get(block, ()):
        t = f.blocks[b]["term"]
        if t["k"] != "switch" or b == block:
            continue
        dl = op_local(t["discr"])
        if dl is None:
            continue
        o = f.origin_local(dl)
        neg = False
        if o[0] == "unop" and o[1]["op"] == "Not" and op_local(o[1]["x"]) is not None:
            o = f.origin_local(op_local(o[1]["x"]))
            neg = True
        if o[0] != "binop":
            continue
        op = o[1]["op"]
        if op not in ("Lt", "Le", "Gt", "Ge", "Eq", "Ne"):
            continue
        a, bb = o[1]["l"], o[1]["r"]

        def same(x, root, desc, cst):
            xl = op_local(x)
            if xl is not None and root is not None and f.copy_root(xl) == root:
                return True
            if xl is not None and desc is not None and describe_origin(f, f.origin_op(x)) == desc and not desc.startswith("var:") and not desc.startswith("binop"):
                return True
            if cst is not None and const_int(x) == cst:
                return True
            return False
        ft = [tg for v, tg in t["targets"] if v == "0"]
        if not ft:
            continue
        true_t, false_t = t["otherwise"], ft[0]
        if neg:
            true_t, false_t = false_t, true_t
        # which edge implies l >= r ?
        implied = None
        if same(a, lroot, ldesc, None) and same(bb, rroot, rdesc, rc):
            implied = {"Ge": true_t, "Gt": true_t, "Lt": false_t, "Le": None, "Eq": true_t, "Ne": None}[op]
            if op == "Le":
                implied = None
            if op == "Ne" and rc == 0:
                implied = None
        elif same(a, rroot, rdesc, rc) and same(bb, lroot, ldesc, None):
            implied = {"Le": true_t, "Lt": true_t, "Gt": false_t, "Ge": None, "Eq": true_t, "Ne": None}[op]
        # `l != 0` / `l > 0` / `l >= 1` with r == 1
        if implied is None and rc == 1 and same(a, lroot, ldesc, None):
            cb = const_int(bb)
            if cb == 0 and op in ("Ne", "Gt"):
                implied = true_t
            if cb == 0 and op == "Eq":
                implied = false_t
            if cb == 1 and op == "Ge":
                implied = true_t
            if cb == 1 and op == "Lt":
                implied = false_t
        if implied is not None and f.edge_dominates(b, implied, block):
            return True
    # behind the Some edge of `l.checked_sub(r)` (possibly continued with and_then / map / filter): l >= r
    from rules_sym import deep, option_tests
    want = "num::checked_sub(%s, %s)" % (deep(f, l_op, 6), deep(f, r_op, 6))
    for sb_, some_, none_ in option_tests(f, lambda d: re.sub(r"^(Option::(and_then|map|filter)\()+", "", d).startswith(want)):
        if f.edge_dominates(sb_, some_, block):
            return True
    return False


def structurally_ge(f, l_op, r_op):
    """l = r + something / l = x + c with c >= r const; l - (l % k) and k - (y % k)"""
    rc = const_int(r_op)
    ll = op_local(l_op)
    # r is a remainder: `l % k` (at most l) or `y % l` (less than l)
    rl0 = op_local(r_op)
    if rl0 is not None and ll is not None:
        ro = f.origin_local(f.copy_root(rl0))
        if ro[0] == "place" and ro[1][0] == "binop":
            ro = ro[1]
        if ro[0] == "binop" and ro[1]["op"] == "Rem":
            from rules_sym import deep as _dp
            L = _dp(f, l_op, 6)
            if L == _dp(f, ro[1]["l"], 6) or L == _dp(f, ro[1]["r"], 6):
                return True
    if ll is None:
        return False
    o = f.origin_local(f.copy_root(ll))
    if o[0] == "place" and o[1][0] == "binop":
        o = o[1]
    if o[0] == "binop" and o[1]["op"].startswith("Add"):
        ca, cb = const_int(o[1]["l"]), const_int(o[1]["r"])
        if rc is not None and ((ca is not None and ca >= rc) or (cb is not None and cb >= rc)):
            return True
        rl = op_local(r_op)
        if rl is not None:
            rr = f.copy_root(rl)
            for x in (o[1]["l"], o[1]["r"]):
                xl = op_local(x)
                if xl is not None and f.copy_root(xl) == rr:
                    return True
    return False


def lim2(run, only_files=None, rule="LIM2"):
    """returns list of (key, f, span, text, discharged_reason_or_None)"""
    prog = run.prog
    T = getattr(run, "_taint", None)
    if T is None:
        T = Taint(prog, run.table("lim").get("contracts"), run.table("lim").get("capped_sources")).solve()
        run._taint = T
    spec = run.table("arith")
    audited = {e["key"]: e["reason"] for e in spec["discharged"]}
    # an audited reason that rests on a test (`guarded by size > 0`) names it: the site has to lie behind an edge of a branch on
    # a comparison whose text matches, otherwise the listed exception no longer applies
    behind = {e["key"]: e["behind"] for e in spec["discharged"] if e.get("behind")}
    out = []
    n = 0
    for f in prog.real_fns():
        if only_files is not None and not any(f.file.startswith(x) for x in only_files):
            continue
        sites = [(bi, st) for bi, si, st in f.stmts()]
        # `&a * b`, `a + &b` on primitive integers are calls of the operator traits (same overflow panic as the MIR binop)
        for bi, t in f.calls():
            m_ = re.match(r"^std::ops::(Add|Sub|Mul|Shl)::\w+$", t.get("callee") or "")
            tys_ = t.get("arg_tys") or []
            if m_ and len(tys_) == 2 and all(re.fullmatch(r"&?(usize|u8|u16|u32|u64|u128|isize|i8|i16|i32|i64|i128)", x) for x in tys_):
                sites.append((bi, {"k": "assign", "span": t["span"], "place": t["dest"],
                                   "rv": {"k": "binop", "op": m_.group(1), "l": t["args"][0], "r": t["args"][1], "lty": tys_[0].lstrip("&")}}))
        for bi, st in sites:
            if st["k"] != "assign" or st["rv"]["k"] != "binop" or st["span"].get("mac"):
                continue
            rv = st["rv"]
            op = rv["op"].replace("WithOverflow", "")
            if op not in ("Add", "Sub", "Mul", "Shl") or not INT_TY.match(rv.get("lty") or ""):
                continue
            a, b = T.op_class(f, rv["l"]), T.op_class(f, rv["r"])
            ca, cb = const_int(rv["l"]), const_int(rv["r"])
            root = f.raw.get("root") or f.id
            fname = root
            old_ld = _stable(describe_origin(f, f.origin_op(rv["l"]))) if ca is None else str(ca)
            old_rd = _stable(describe_origin(f, f.origin_op(rv["r"]))) if cb is None else str(cb)
            ld = _stable(stable_origin(f, f.origin_op(rv["l"]))) if ca is None else str(ca)
            rd = _stable(stable_origin(f, f.origin_op(rv["r"]))) if cb is None else str(cb)
            key = "%s|%s|%s|%s|%s" % (rule, fname, op, ld, rd)
            KEYMAP["%s|%s|%s|%s|%s" % (rule, fname, op, old_ld, old_rd)] = key
            why = None
            if op == "Add":
                if max(a, b) == WORD and not (ca == 0 or cb == 0):
                    why = "adds a user-sized value (%s class %s, %s class %s) without a checked/saturating operation" % (ld, CLS[a], rd, CLS[b])
            elif op == "Mul":
                if (a == WORD and cb not in (0, 1)) or (b == WORD and ca not in (0, 1)) or (a >= U32 and b >= U32):
                    why = "multiplies user-sized values (%s class %s, %s class %s) without a checked operation" % (ld, CLS[a], rd, CLS[b])
            elif op == "Shl":
                if b >= DATA and cb is None:
                    why = "shifts by a user-sized amount (%s class %s)" % (rd, CLS[b])
            elif op == "Sub":
                if cb == 0:
                    continue
                if guarded_ge(f, bi, rv["l"], rv["r"]) or structurally_ge(f, rv["l"], rv["r"]):
                    continue
                # operands that are provably ordered by their types/constants
                if ca is not None and cb is not None and ca >= cb:
                    continue
                why = "subtracts %s from %s with nothing establishing %s >= %s on this path (classes %s, %s)" % (rd, ld, ld, rd, CLS[a], CLS[b])
            if why is None:
                continue
            n += 1
            dis = audited.get(key)
            if dis is not None and key in behind and not _behind_test(f, bi, behind[key]):
                dis = None
                why += "; the listed reason for accepting it (`%s`) rests on a test that no longer dominates this site" % audited[key][:80]
            out.append((key, f, st["span"], "%s %s" % (root, why), dis))
    run.count("lim2_sites_flagged", n)
    return out


KEYMAP = {}


def _behind_test(f, block, pattern):
    """is `block` dominated by an edge of a branch on a comparison whose text `<left> <Op> <right>` matches the pattern?"""
    from rules_sym import deep
    for b in f.dominators().get(block, ()):
        t = f.blocks[b]["term"]
        if t["k"] != "switch" or op_local(t["discr"]) is None:
            continue
        o = f.origin_local(op_local(t["discr"]))
        if not (o and o[0] == "binop"):
            continue
        txt = "%s %s %s" % (deep(f, o[1]["l"], 6), o[1]["op"], deep(f, o[1]["r"], 6))
        if re.search(pattern, txt) and any(f.edge_dominates(b, e, block) for e in f.succs(b)):
            return True
    return False


def _stable(d):
    d = re.sub(r"\.(\d+)$", "", d)
    return d


def _range_iterated(f, bi, si, st):
    """is the Range built by this statement iterated (into_iter / rev / step_by / next / map ...) rather than used as an index?"""
    l = st["place"]["l"]
    seen = {l}
    work = [l]
    while work:
        x = work.pop()
        for b2, s2, st2 in f.stmts():
            if st2["k"] == "assign" and st2["rv"]["k"] in ("use", "ref") :
                src = op_local(st2["rv"]["op"]) if st2["rv"]["k"] == "use" else st2["rv"]["place"]["l"]
                if src == x and not st2["place"]["p"] and st2["place"]["l"] not in seen:
                    seen.add(st2["place"]["l"])
                    work.append(st2["place"]["l"])
        for b2, t in f.calls():
            if any(op_local(a_) == x for a_ in t["args"]):
                c = t.get("callee") or ""
                if c.endswith("IntoIterator::into_iter") or re.search(r"Iterator::(rev|step_by|map|next|filter|for_each|fold|zip|enumerate|skip|take)$", c):
                    return True
    return False


def _cap_guard(f, block, arg_op):
    """is `block` behind the `not greater` edge of a comparison of something computed from the argument with BIGINT_MAX_BITS?"""
    from rules_tab import value_depends_on
    al = op_local(arg_op)
    if al is None:
        return False
    root = f.copy_root(al)
    for bi, si, st in f.stmts():
        if st["k"] != "assign" or st["rv"]["k"] != "binop" or st["rv"]["op"] not in ("Gt", "Ge", "Lt", "Le"):
            continue
        l, r = st["rv"]["l"], st["rv"]["r"]
        def is_cap(o):
            if "BIGINT_MAX_BITS" in (o.get("const") or ""):
                return True
            return False
        if is_cap(r) and st["rv"]["op"] in ("Gt", "Ge"):
            x, small_edge = l, "false"
        elif is_cap(l) and st["rv"]["op"] in ("Lt", "Le"):
            x, small_edge = r, "false"
        elif is_cap(r) and st["rv"]["op"] in ("Lt", "Le"):
            x, small_edge = l, "true"
        elif is_cap(l) and st["rv"]["op"] in ("Gt", "Ge"):
            x, small_edge = r, "true"
        else:
            continue
        if not (value_depends_on(f, x, root) or value_depends_on(f, x, al)):
            continue
        t = f.blocks[bi]["term"]
        if t["k"] != "switch" or op_local(t["discr"]) != st["place"]["l"]:
            continue
        ft = [tg for v, tg in t["targets"] if v == "0"]
        if not ft:
            continue
        edge = ft[0] if small_edge == "false" else t["otherwise"]
        if f.edge_dominates(bi, edge, block):
            return True
    return False


def _caller_obligations(prog, T, f, op, audited, out, what):
    """when `op` in f is computed from f's integer parameters, move the obligation to the call sites; returns False when it is not"""
    from rules_tab import value_depends_on
    root = f.raw.get("root") or f.id
    params = [i for i in range(1, f.arg_count + 1) if (INT_TY.match(f.local_ty(i) or "") or re.match(r"^(std::option::Option<usize>|\(usize, usize\))$", f.local_ty(i) or "")) and value_depends_on(f, op, i)]
    if not params or f.kind == "Closure":
        return False
    callers = []
    for g in prog.real_fns():
        for b2, t in g.calls():
            tg, _ = prog.call_targets(g, t)
            if f.id in tg:
                callers.append((g, b2, t))
    if not callers:
        return False
    for g, b2, t in callers:
        for i in params:
            if i - 1 >= len(t["args"]):
                continue
            a_ = t["args"][i - 1]
            ac = T.op_class(g, a_)
            if ac < WORD:
                continue
            groot = g.raw.get("root") or g.id
            ad = _stable(stable_origin(g, g.origin_op(a_))) if op_place(a_) is not None else str(const_int(a_))
            old_ad = _stable(describe_origin(g, g.origin_op(a_))) if op_place(a_) is not None else str(const_int(a_))
            key = "LIM3|%s|P%d<-%s|%s" % (root, i, groot, ad)
            KEYMAP["LIM3|%s|%s<-%s|%s" % (root, f.local_name(i), groot, old_ad)] = key
            if _cap_guard(g, b2, a_):
                out.append((key, g, t["span"], "capped", "%s calls %s behind a test of the argument against BIGINT_MAX_BITS" % (groot, root)))
            elif key in audited:
                out.append((key, g, t["span"], "audited", audited[key]))
            else:
                out.append((key, g, t["span"], "violation", "%s passes a user-sized value (%s, class %s) as `%s` to %s, %s: time and memory grow with a number the user writes, without the `value is out of supported range` cap" % (groot, ad, CLS[ac], f.local_name(i), root, what)))
    return True


def lim3(run):
    """user-sized loop bounds: an iterated Range{..end} whose end is a user-sized value. When the end is computed from the
    function's own parameters the obligation moves to each call site that passes a user-sized argument: it must be behind a
    cap test against BIGINT_MAX_BITS (or be an audited call site)."""
    from rules_tab import value_depends_on
    prog = run.prog
    T = getattr(run, "_taint", None)
    if T is None:
        T = Taint(prog, run.table("lim").get("contracts"), run.table("lim").get("capped_sources")).solve()
        run._taint = T
    audited = {e["key"]: e["reason"] for e in run.table("lim").get("lim3_audited", [])}
    out = []
    n_iter = 0
    for f in prog.real_fns():
        for bi, si, st in f.stmts():
            if not (st["k"] == "assign" and st["rv"]["k"] == "agg" and st["rv"].get("agg") == "adt" and st["rv"]["adt"].endswith("ops::Range") and len(st["rv"]["ops"]) == 2):
                continue
            mac = st["span"].get("mac")
            if mac and "desugaring" not in str(mac):
                continue
            if not _range_iterated(f, bi, si, st):
                continue
            n_iter += 1
            endop = st["rv"]["ops"][1]
            c = T.op_class(f, endop)
            if c < U32:
                continue
            root = f.raw.get("root") or f.id
            d = _stable(stable_origin(f, f.origin_op(endop)))
            KEYMAP["LIM3|%s|range-end|%s" % (f.raw.get("root") or f.id, _stable(describe_origin(f, f.origin_op(endop))))] = "LIM3|%s|range-end|%s" % (f.raw.get("root") or f.id, d)
            if _caller_obligations(prog, T, f, endop, audited, out, "which loops that many times bit by bit"):
                pass
            else:
                key = "LIM3|%s|range-end|%s" % (root, d)
                if key in audited:
                    out.append((key, f, st["span"], "audited", audited[key]))
                else:
                    out.append((key, f, st["span"], "violation", "%s iterates a range whose end (%s) is a user-sized value of class %s: time (and for bit loops, memory) grows with a number the user writes, without a cap" % (root, d, CLS[c])))
    run.count("lim3_iterated_ranges", n_iter)
    # stores of user-sized values into fields whose contract caps them
    n_st = 0
    for f in prog.real_fns():
        root = f.raw.get("root") or f.id
        for bi, si, st in f.stmts():
            if st["k"] != "assign":
                continue
            sites = []
            rv = st["rv"]
            if rv["k"] == "agg" and rv.get("agg") == "adt" and rv.get("fields"):
                short = re.sub(r"<.*$", "", rv["adt"])
                for name, o in zip(rv["fields"], rv["ops"]):
                    if (short, name) in T.audit_fld:
                        sites.append(((short, name), o))
            pl = st["place"]
            if pl["p"]:
                ty = f.local_ty(pl["l"])
                last = None
                for pr in pl["p"]:
                    if isinstance(pr, dict) and "f" in pr and not pr["name"].isdigit():
                        bt = re.sub(r"<.*$", "", re.sub(r"^&(mut )?", "", ty))
                        last = (bt, pr["name"])
                        ty = pr["ty"]
                    elif isinstance(pr, dict) and "f" in pr:
                        ty = pr["ty"]
                    elif pr == "deref":
                        ty = re.sub(r"^&(mut )?", "", ty)
                if last in T.audit_fld:
                    ops_ = rv_operands(rv)
                    for o in ops_:
                        sites.append((last, o))
            for (fld, o) in sites:
                n_st += 1
                c = T.op_class(f, o)
                if c < WORD:
                    continue
                d = _stable(stable_origin(f, f.origin_op(o))) if op_place(o) is not None else str(const_int(o))
                key = "LIM3|store|%s.%s|%s|%s" % (fld[0].rsplit("::", 1)[-1], fld[1], root, d)
                if _caller_obligations(prog, T, f, o, audited, out, "which makes it the width of a value"):
                    continue
                if _cap_guard(f, bi, o):
                    out.append((key, f, st["span"], "capped", "%s stores a width behind a test against BIGINT_MAX_BITS" % root))
                elif key in audited:
                    out.append((key, f, st["span"], "audited", audited[key]))
                else:
                    out.append((key, f, st["span"], "violation", "%s stores a user-sized number (%s, class %s) as the width of a value without the BIGINT_MAX_BITS cap: everything that later walks the value bit by bit (output, slices, concatenation) takes that long" % (root, d, CLS[c])))
    run.count("lim3_capped_field_stores", n_st)
    return out


def cap_sources(run):
    """the functions whose user-number sources the taint treats as capped really cap them: the parsed number flows only
    through `.ok().filter(|n| n <= BIGINT_MAX_BITS)` (or is used behind such a comparison)"""
    prog = run.prog
    R = "LIM3"
    for c in run.table("lim").get("capped_sources", []):
        f = run.anchor(R, c["fn"])
        if f is None:
            continue
        srcs = [(bi, t) for bi, t in f.calls() if WORD_SOURCES.search(t.get("resolved") or "") or WORD_SOURCES.search(t.get("callee") or "")]
        ok = bool(srcs)
        why = "no user-number source found" if not srcs else ""
        for bi, t in srcs:
            # follow the result through Result::ok to Option::filter
            cur = t["dest"]["l"]
            filt = None
            for _ in range(4):
                nxt = None
                uses = []
                for b2, t2 in f.calls():
                    if any(op_local(a_) == cur for a_ in t2["args"]):
                        uses.append(t2)
                for b2, s2, st2 in f.stmts():
                    if st2["k"] == "assign" and any(op_local(o) == cur for o in rv_operands(st2["rv"])):
                        uses.append(st2)
                    if st2["k"] == "assign" and st2["rv"]["k"] in ("ref", "discr") and st2["rv"].get("place", {}).get("l") == cur:
                        uses.append(st2)
                if len(uses) != 1 or uses[0].get("k") != "call":
                    break
                u = uses[0]
                cal = u.get("callee") or ""
                if cal.endswith("Option::<T>::filter"):
                    filt = u
                    break
                if cal.endswith("Result::<T, E>::ok") or KEEP_ARG0.search(cal):
                    cur = u["dest"]["l"]
                    continue
                break
            good = False
            if filt is not None:
                from mir import closure_of_origin
                cid = closure_of_origin(f.origin_op(filt["args"][1]))
                g = prog.fn(cid) if cid else None
                if g is not None:
                    for b3, s3, st3 in g.stmts():
                        if st3["k"] == "assign" and st3["place"]["l"] == 0 and st3["rv"]["k"] == "binop" and st3["rv"]["op"] in ("Le", "Lt") and "BIGINT_MAX_BITS" in (st3["rv"]["r"].get("const") or ""):
                            o = g.origin_op(st3["rv"]["l"])
                            if "param" in describe_origin(g, o):
                                good = True
            if not good:
                ok = False
                why = "the number parsed at line %d is not filtered by `<= BIGINT_MAX_BITS` before use" % t["span"]["line"]
        run.check(ok, R, "LIM3|cap-source|" + c["fn"], f.loc(), "%s keeps a parsed width only when it is <= BIGINT_MAX_BITS" % c["fn"],
                  "%s: %s; widths would again be limited only by the machine word (bit-by-bit loops of that length, unchecked size sums)" % (c["fn"], why))


def _cap_helper_guard(run, f, pb):
    from rules_mpt import success_edge_of_call
    from rules_tab import value_depends_on, err_return_in_region
    from rules_sym import report_error_in_region
    import tables as TT
    prog = run.prog
    for bi, t in f.calls():
        g = prog.fn(t.get("resolved") or t.get("callee") or "")
        if g is None or "util::bigint" not in g.id or g.id == f.id:
            continue
        e = success_edge_of_call(f, bi, t)
        if e is None or not f.edge_dominates(e[0], e[1], pb):
            continue
        # which argument carries the cap
        cap_idx = None
        for i, a in enumerate(t["args"]):
            txt = a.get("const") or ""
            oo = f.origin_op(a) if op_place(a) is not None else None
            if oo and oo[0] == "place" and oo[1][0] == "binop":
                oo = oo[1]
            if "BIGINT_MAX_BITS" in txt or (oo and oo[0] == "binop" and any("BIGINT_MAX_BITS" in (x.get("const") or "") for x in (oo[1]["l"], oo[1]["r"]))):
                cap_idx = i + 1
        if cap_idx is None:
            continue
        for b2, s2, st in g.stmts():
            if st["k"] == "assign" and st["rv"]["k"] == "binop" and st["rv"]["op"] in ("Ge", "Gt", "Lt", "Le"):
                sides = [op_local(o) for o in (st["rv"]["l"], st["rv"]["r"])]
                if not any(l is not None and g.copy_root(l) == cap_idx for l in sides):
                    continue
                other = st["rv"]["r"] if (sides[0] is not None and g.copy_root(sides[0]) == cap_idx) else st["rv"]["l"]
                from rules_sym import deep
                if "bits(" not in deep(g, other, 6):
                    continue
                tt = g.blocks[b2]["term"]
                if tt["k"] != "switch":
                    continue
                oks = [x for x, _, s_ in g.stmts() if s_["k"] == "assign" and s_["place"]["l"] == 0 and not s_["place"]["p"] and s_["rv"]["k"] == "agg" and s_["rv"].get("variant") == "Ok"]
                for edge in g.succs(b2):
                    reg = TT.dominated_region(g, edge, b2)
                    others = [x for x in g.succs(b2) if x != edge]
                    if report_error_in_region(g, reg) and err_return_in_region(g, reg) and oks and others and all(g.edge_dominates(b2, others[0], x) for x in oks):
                        return True
    return False


def lim4(run):
    """big-integer operations are capped: inside BigInt::checked_{add,sub,mul,shl} the size test against BIGINT_MAX_BITS
    dominates the num-bigint operation; checked_div/mod test for zero first; shifts convert the amount with try_into"""
    R = "LIM4"
    prog = run.prog
    spec = {"checked_add": ("cap", "checked_add"), "checked_sub": ("cap", "checked_sub"), "checked_mul": ("cap", "checked_mul"),
            "checked_shl": ("cap", "Shl"), "checked_div": ("zero", "checked_div"), "checked_mod": ("zero", "Rem"), "checked_shr": ("conv", "Shr")}
    for name, (kind, prim) in sorted(spec.items()):
        f = run.anchor(R, "util::bigint::BigInt::" + name)
        if f is None:
            continue
        prim_blocks = [bi for bi, t in f.calls() if re.search(r"num_bigint|num_traits|std::ops::(Shl|Shr|Rem|Div|Mul|Add|Sub)", t.get("callee") or "") and re.search(prim + r"|::%s$" % prim.lower(), (t.get("callee") or "") + (t.get("resolved") or ""), re.I)]
        # closures of this function may hold the primitive (e.g. `.map(|rhs| &self.bigint << rhs)`)
        inner = [g for g in prog.real_fns() if g.kind == "Closure" and g.raw.get("parent") == f.id]
        prim_in_closure = any(re.search(prim, (t.get("callee") or "") + (t.get("resolved") or ""), re.I) for g in inner for _, t in g.calls())
        pushes = [bi for bi, t in f.calls() if (t.get("resolved") or "").endswith("Report::error_span")]
        # ... or through a helper of the module that reports `out of range` and answers Err
        for bi, t in f.calls():
            h_ = prog.fn(t.get("resolved") or "")
            if h_ is not None and h_.id != f.id and h_.id.startswith("util::bigint::") and any((t2.get("resolved") or "").endswith("Report::error_span") for _, t2 in h_.calls()) \
                    and not any(re.search(r"num_bigint|num_traits", t2.get("callee") or "") for _, t2 in h_.calls()):
                pushes.append(bi)
        key = "LIM4|" + name
        if kind == "cap":
            # (1) a comparison against BIGINT_MAX_BITS (possibly minus a small constant) exists
            cmp_dest = None
            for bi, si, st in f.stmts():
                if st["k"] == "assign" and st["rv"]["k"] == "binop" and st["rv"]["op"] in ("Ge", "Gt", "Lt", "Le"):
                    hit = False
                    for o in (st["rv"]["l"], st["rv"]["r"]):
                        if "BIGINT_MAX_BITS" in (o.get("const") or ""):
                            hit = True
                        oo = f.origin_op(o) if op_place(o) is not None else ("const",)
                        if oo[0] == "place" and oo[1][0] == "binop":
                            oo = oo[1]
                        if oo[0] == "binop" and any("BIGINT_MAX_BITS" in (x.get("const") or "") for x in (oo[1]["l"], oo[1]["r"])):
                            hit = True
                    if hit and not st["place"]["p"]:
                        cmp_dest = st["place"]["l"]
            # (2) the primitive (or the closure holding it) is behind a switch that depends on that comparison,
            #     on the edge that does not report
            prim_sites = list(prim_blocks)
            if not prim_sites and prim_in_closure:
                prim_sites = [bi for bi, si, st in f.stmts() if st["k"] == "assign" and st["rv"]["k"] == "agg" and st["rv"].get("agg") == "closure"]
            ok = cmp_dest is not None and bool(pushes) and bool(prim_sites)
            if ok:
                from rules_tab import value_depends_on
                from rules_fix import reach_from
                for pb in prim_sites:
                    guarded = False
                    for b in f.dominators().get(pb, ()):
                        t = f.blocks[b]["term"]
                        if t["k"] != "switch" or b == pb:
                            continue
                        dl = op_local(t["discr"])
                        if dl is None:
                            continue
                        root = f.copy_root(dl)
                        dep = root == cmp_dest or value_depends_on(f, t["discr"], cmp_dest) or any(
                            d[0] == "stmt" and d[3]["rv"]["k"] == "use" and value_depends_on(f, d[3]["rv"]["op"], cmp_dest) for d in f.full_defs(root))
                        if not dep:
                            continue
                        # one edge reaches a push and never the primitive; the primitive lies behind the other edge
                        for s_ in f.succs(b):
                            r_ = reach_from(f, s_)
                            if any(p_ in r_ for p_ in pushes) and pb not in r_:
                                guarded = True
                    if not guarded:
                        ok = False
            if not ok:
                # the same test factored into a helper of util::bigint: the primitive is behind the success edge of a call that is
                # given the cap (an expression of BIGINT_MAX_BITS), and the helper answers Ok only on the `below the cap` edge of a
                # comparison of operand bits with that parameter and reports on the other
                ok = bool(prim_sites) and all(_cap_helper_guard(run, f, pb) for pb in prim_sites)
            # (3) there is no other way to a result: every `Ok` the function itself builds lies behind the same test
            if ok and cmp_dest is not None:
                from rules_tab import value_depends_on as _vdo
                from rules_fix import reach_from as _rf
                okb = [bi for bi, si, st in f.stmts() if st["k"] == "assign" and st["place"]["l"] == 0 and not st["place"]["p"] and st["rv"]["k"] == "agg" and st["rv"].get("variant") == "Ok"]
                for pb in okb:
                    g_ = False
                    for b in f.dominators().get(pb, ()):
                        t = f.blocks[b]["term"]
                        if t["k"] != "switch" or b == pb or op_local(t["discr"]) is None:
                            continue
                        root = f.copy_root(op_local(t["discr"]))
                        dep = root == cmp_dest or _vdo(f, t["discr"], cmp_dest) or any(
                            d[0] == "stmt" and d[3]["rv"]["k"] == "use" and _vdo(f, d[3]["rv"]["op"], cmp_dest) for d in f.full_defs(root))
                        if dep and any(any(p_ in _rf(f, s_) for p_ in pushes) and pb not in _rf(f, s_) for s_ in f.succs(b)):
                            g_ = True
                    if not g_ and not _cap_helper_guard(run, f, pb):
                        run.violation(R, key + "|early-result", f.loc(), "BigInt::%s builds a result on a path that has not passed the test against BIGINT_MAX_BITS (a fast path in front of the magnitude check): `1 << 0x1000000000000` allocates until memory is exhausted instead of reporting `value is out of supported range`" % name)
            run.check(ok, R, key, f.loc(), "BigInt::%s tests the operand sizes against BIGINT_MAX_BITS (and reports) before the num-bigint operation" % name,
                      "BigInt::%s performs the num-bigint operation without a dominating test against BIGINT_MAX_BITS: results could grow without bound (memory exhaustion instead of `value is out of supported range`)" % name)
        elif kind == "zero":
            zero_cmp = None
            for bi, t in f.calls():
                if (t.get("callee") or "") in ("std::cmp::PartialEq::eq", "std::cmp::PartialEq::ne"):
                    zero_cmp = bi
            ok = zero_cmp is not None and bool(pushes) and all(f.dominates(zero_cmp, b) for b in prim_blocks) and bool(prim_blocks)
            run.check(ok, R, key, f.loc(), "BigInt::%s tests the divisor for zero (and reports) before dividing" % name,
                      "BigInt::%s divides without a dominating zero test" % name)
        else:
            conv = any("try_into" in (t.get("callee") or "") for _, t in f.calls())
            run.check(conv and bool(pushes), R, key, f.loc(), "BigInt::%s converts the shift amount with try_into and reports when it does not fit" % name,
                      "BigInt::%s does not convert the shift amount with a checked conversion" % name)


def lim_fmt_width(run, R="LIM5"):
    """a number chosen by the user is not used as the width/precision of a format directive (`{:1$}`): std panics with `Formatting
    argument out of range` when it exceeds 65535"""
    prog = run.prog
    T = getattr(run, "_taint", None)
    if T is None:
        T = Taint(prog, run.table("lim").get("contracts"), run.table("lim").get("capped_sources")).solve()
        run._taint = T
    n = 0
    for f in prog.real_fns():
        k = 0
        for bi, t in f.calls():
            if not (t.get("callee") or "").endswith("fmt::rt::Argument::<'_>::from_usize") or not t["args"]:
                continue
            n += 1
            if T.op_class(f, t["args"][0]) == WORD:
                k += 1
                root = f.raw.get("root") or f.id
                run.violation(R, "%s|fmt-width|%s|%d" % (R, root, k), f.loc(t["span"]),
                              "%s uses a user-chosen number (`%s`) as a format width: above 65535 `format!` panics with `Formatting argument out of range`" % (root, describe_origin(f, f.origin_op(t["args"][0]))[:60]))
    run.check(n >= 10, R, R + "|fmt-width|scope", "-", "%d runtime format widths inspected" % n, "format width arguments not found")
