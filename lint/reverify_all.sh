#!/bin/bash
# usage: reverify_all.sh <worker-index> <worker-count>  -- re-confirm the kept seeded changes against /repo HEAD: for each
# seeded/<id> (taken round-robin): clean tree -> demo exits 0; with patch.diff -> builds, 605 tests pass, demo exits non-zero.
# ONLY="id1 id2" restricts the run to those seeds. One scratch copy with a persistent target directory per worker (incremental builds). Prints one RESULT line per seed.
I=$1; N=$2
W=/tmp/casm-rv-$I
rm -rf $W; mkdir -p $W
git -C /repo archive HEAD | tar -x -C $W
cd $W && git init -q . && git add -A >/dev/null && git -c user.email=a@b -c user.name=x commit -qm base >/dev/null
export CARGO_TARGET_DIR=$W/target CARGO_NET_OFFLINE=true
k=0
for d in /verif/seeded/*/; do
  id=$(basename $d)
  case "$id" in _*) continue ;; esac
  if [ -n "$ONLY" ]; then case " $ONLY " in *" $id "*) ;; *) continue ;; esac; fi
  k=$((k+1))
  [ $((k % N)) -ne $I ] && continue
  cd $W && git checkout -q -- . && git clean -fdq -e target >/dev/null
  # demo files next to the tree (the scripts cd to their own directory and build there)
  for x in $d/demo*; do case "$(basename $x)" in *.orig.sh) ;; *) cp -r $x $W/ ;; esac; done
  demo=$(ls $d | grep -E "^demo[0-9]*\.sh$" | head -1)
  bash ./$demo > /tmp/rv_$I.log 2>&1; WITHOUT=$?
  if ! patch -p1 -s < $d/patch.diff > /dev/null 2>&1; then echo "RESULT $id APPLY-FAIL"; continue; fi
  T=$(cargo test --offline --no-fail-fast 2>&1 | grep -E "^test result" | head -1)
  bash ./$demo > /tmp/rv_$I.log 2>&1; WITH=$?
  echo "RESULT $id tests=[$T] demo_with_change_exit=$WITH demo_without_exit=$WITHOUT"
done
rm -rf $W /tmp/rv_$I.log
