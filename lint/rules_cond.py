"""COND — conditional assembly and command-line defines (C16)."""
import re
from mir import (op_place, op_local, const_int, natural_loop, closure_of_origin)
import tables as T
from rules_tab import err_return_in_region
from rules_sym import deep, short_callee, report_error_in_region, _calls, _switch_on_call_result

R = "COND"


def _bool_switch(f, local, start_block=None):
    """the switch on a bool local (or a copy of it): (true_target, false_target, block)"""
    root = f.copy_root(local)
    for b in sorted(f.reachable()):
        tt = f.blocks[b]["term"]
        if tt["k"] == "switch" and op_local(tt["discr"]) is not None and f.copy_root(op_local(tt["discr"])) == root:
            ft = [tg for v, tg in tt["targets"] if v == "0"]
            if ft:
                return tt["otherwise"], ft[0], b
    return None


def resolve_ifs_rules(run):
    f = run.anchor(R, "asm::resolver::directive_if::resolve_ifs")
    if f is None:
        return
    ev = _calls(f, "eval::eval_simple")
    rm = _calls(f, "Vec::remove")
    sp = _calls(f, "Vec::splice")
    ok = len(ev) == 1 and len(rm) == 1 and len(sp) == 2
    if not ok:
        run.violation(R, R + "|resolve|shape", f.loc(), "mechanism not found in resolve_ifs: one condition evaluation, one removal of the #if node and two splices (found %d/%d/%d)" % (len(ev), len(rm), len(sp)))
        return
    eb, et = ev[0]
    rb, rt = rm[0]
    node = deep(f, et["args"][-1], 8)      # the expression is the last argument (a symbol context precedes it)
    m = re.match(r"^Index::index\((P\d+\.nodes), (.*)\)@DirectiveIf\.0\.condition_expr$", node)
    run.check(bool(m), R, R + "|resolve|condition-of-node", f.loc(et["span"]), "the condition evaluated is the #if node's own condition, with constants only (eval_simple)",
              "resolve_ifs evaluates `%s`, expected the condition of the DirectiveIf node being visited" % node[:160])
    if not m:
        return
    nodes, idx = m.group(1), m.group(2)
    # the removed node is the visited one
    run.check(deep(f, rt["args"][0], 8) == nodes and deep(f, rt["args"][1], 8) == idx, R, R + "|resolve|removes-visited", f.loc(rt["span"]), "the node removed is the node whose condition was decided",
              "resolve_ifs removes `%s[%s]`, but decided the condition of `%s[%s]`" % (deep(f, rt["args"][0], 8), deep(f, rt["args"][1], 8)[:80], nodes, idx[:80]))
    # only a Bool result decides: the removal is behind the `is Bool` edge of the result
    okb = False
    cond_local = None
    for b, arms, oth, pl, vs in T.enum_switch_arms(f, "Value"):
        if "Bool" in arms and "eval_simple" in deep(f, {"copy": pl}, 4) and f.edge_dominates(b, arms["Bool"], rb):
            okb = True
    if not okb:
        # `let Value::Bool(x) = v else { continue }` compiles to a switch with Bool as the only listed variant
        for b in sorted(f.reachable()):
            tt = f.blocks[b]["term"]
            if tt["k"] == "switch" and op_local(tt["discr"]) is not None:
                o = f.origin_local(op_local(tt["discr"]))
                if o[0] == "discr" and "eval_simple" in deep(f, o[1], 4):
                    vs = o[2].get("variants") or {}
                    for v, tg in tt["targets"]:
                        if vs.get(v) == "Bool" and f.edge_dominates(b, tg, rb):
                            okb = True
    run.check(okb, R, R + "|resolve|only-decided", f.loc(rt["span"]), "an #if is only expanded once its condition evaluated to a boolean (unknown: left for a later round)",
              "resolve_ifs can expand an #if whose condition is not (yet) a boolean")
    # the two splices: same position, true arm on the true edge, false arm on the false edge
    want_rng = "Range{start: %s, end: %s}" % (idx, idx)
    tsp = fsp = None
    for bi, t in sp:
        src = deep(f, t["args"][2], 8)
        rng = deep(f, t["args"][1], 8)
        if re.search(r"@DirectiveIf\.0\.true_arm\.nodes$", src):
            tsp = (bi, t, rng, src)
        elif re.search(r"@DirectiveIf\.0\.false_arm@Some\.0\.nodes$", src):
            fsp = (bi, t, rng, src)
    ok = tsp is not None and fsp is not None
    why = "the splices do not take the removed node's true_arm / false_arm"
    if ok:
        ok = tsp[2] == want_rng and fsp[2] == want_rng and "Vec::remove(" in tsp[3] and "Vec::remove(" in fsp[3]
        why = "an arm is spliced at `%s` / `%s`, expected the position of the removed node `%s`" % (tsp[2][:60], fsp[2][:60], want_rng[:60])
    if ok:
        # the edge: the bool payload of the condition
        sw = None
        for b in sorted(f.reachable()):
            tt = f.blocks[b]["term"]
            if tt["k"] == "switch" and op_place(tt["discr"]) is not None:
                d = deep(f, tt["discr"], 6)
                if re.search(r"eval_simple\(.*\).*@Bool\.0$", d) and (f.dominates(b, tsp[0]) or f.dominates(b, fsp[0])) and f.dominates(rb, b):
                    ft = [tg for v, tg in tt["targets"] if v == "0"]
                    if ft:
                        sw = (tt["otherwise"], ft[0], b)
        ok = sw is not None and f.edge_dominates(sw[2], sw[0], tsp[0]) and f.edge_dominates(sw[2], sw[1], fsp[0])
        why = "the true arm is not spliced exactly on the `condition is true` edge and the false arm on the other"
    run.check(ok, R, R + "|resolve|arms", f.loc(), "a decided #if is replaced, in place, by its true arm when the condition is true and by its false arm (if any) otherwise",
              "resolve_ifs: %s" % why)
    # the count is incremented once per expanded #if (drives the fixed point of the pre-pass)
    from rules_sym import returned_counter, counter_increments
    counter = returned_counter(f)
    incs = counter_increments(f, counter)
    counted = len(incs) == 1 and f.dominates(rb, incs[0])
    if counted:
        # no way from the removal to the next node that avoids the increment
        seen = set()
        work = [rb]
        while work:
            x = work.pop()
            if x in seen or x == incs[0]:
                continue
            seen.add(x)
            for s_ in f.succs(x):
                if f.blocks[s_]["cleanup"] or f.blocks[s_]["term"]["k"] == "unreachable":
                    continue
                if f.dominates(s_, rb) and s_ != rb:
                    counted = False
                else:
                    work.append(s_)
    run.check(counted, R, R + "|resolve|counted", f.loc(), "every expansion is counted (the pre-pass repeats while anything was expanded)",
              "resolve_ifs does not count every expansion: nested #if blocks uncovered by an expansion would not get another round")
    # the count is what is returned
    okr = counter is not None and len(incs) >= 1 and any(const_int(d[3]["rv"]["op"]) == 0 for d in f.full_defs(counter) if d[0] == "stmt" and d[3]["k"] == "assign" and d[3]["rv"]["k"] == "use")
    run.check(okr, R, R + "|resolve|returns-count", f.loc(), "the number of expansions is returned", "resolve_ifs does not return its expansion count")


def leftover_rules(run):
    f = run.anchor(R, "asm::resolver::directive_if::check_leftover_ifs")
    if f is None:
        return
    arm = None
    for b in sorted(f.reachable()):
        tt = f.blocks[b]["term"]
        if tt["k"] == "switch" and op_local(tt["discr"]) is not None:
            o = f.origin_local(op_local(tt["discr"]))
            if o[0] == "discr" and "AstAny" in (o[2].get("adt") or ""):
                vs = o[2].get("variants") or {}
                for v, tg in tt["targets"]:
                    if vs.get(v) == "DirectiveIf":
                        arm = (b, tg)
    if arm is None:
        run.violation(R, R + "|leftover|arm", f.loc(), "mechanism not found: check_leftover_ifs does not look for DirectiveIf nodes")
        return
    sb, entry = arm
    reg = T.dominated_region(f, entry, sb)
    # every path through the arm ends in Err; no way back to the loop
    loop = set()
    for h in sorted(f.reachable()):
        l_ = natural_loop(f, h)
        if sb in l_:
            loop |= l_
    back = any(s_ in loop and s_ not in reg for x in reg for s_ in f.succs(x) if not f.blocks[s_]["cleanup"])
    ok_ret = any(st["k"] == "assign" and st["place"]["l"] == 0 and st["rv"]["k"] == "agg" and st["rv"].get("variant") == "Ok" for x in reg for st in f.blocks[x]["stmts"])
    run.check(not back and not ok_ret and err_return_in_region(f, reg), R, R + "|leftover|always-err", f.loc(), "an #if that is still present after the pre-pass always fails the assembly",
              "check_leftover_ifs can pass over an undecided #if (a path through the DirectiveIf arm continues or returns Ok): its arms would silently contribute nothing")
    # a message on both outcomes of the certain evaluation
    ec = [(bi, t) for bi, t in f.calls() if short_callee(t).endswith("eval::eval_certain") and bi in reg]
    okm = len(ec) == 1
    if okm:
        cb, ct = ec[0]
        okm = "DirectiveIf.0.condition_expr" in deep(f, ct["args"][-1], 8)
        # Ok outcome -> explicit error (match / if let / is_ok)
        from rules_sym import result_tests
        found = False
        for sb2, ok_e, err_e in result_tests(f, lambda d: "eval_certain" in d):
            if sb2 in reg:
                r2 = T.dominated_region(f, ok_e, sb2)
                if report_error_in_region(f, r2):
                    found = True
        okm = okm and found
    run.check(okm, R, R + "|leftover|message", f.loc(), "the undecided condition is re-evaluated strictly (its own error is shown) and, when that succeeds, `unresolved condition` is reported",
              "check_leftover_ifs can fail without a message for a condition whose strict evaluation succeeds")


def define_rules(run):
    prog = run.prog
    f = run.anchor(R, "asm::resolver::constant::resolve_constant_simple")
    if f is not None:
        fd = _calls(f, "Iterator::find")
        ev = _calls(f, "eval::eval_simple")
        ok = len(fd) == 1 and len(ev) == 1
        why = "%d lookup(s) of the command-line definitions, %d evaluation(s)" % (len(fd), len(ev))
        if ok:
            fb, ft = fd[0]
            eb, et = ev[0]
            src = deep(f, ft["args"][0], 6)
            ok = bool(re.match(r"^slice::iter\(P\d+\.driver_symbol_defs\)$", src))
            why = "the lookup runs over `%s`" % src
            if ok:
                cid = closure_of_origin(f.origin_op(ft["args"][1]))
                g = prog.fn(cid) if cid else None
                cmp_ok = False
                if g is not None:
                    for bi, t in g.calls():
                        if (t.get("callee") or "") in ("std::cmp::PartialEq::eq", "std::cmp::PartialEq::ne"):
                            a = sorted(deep(g, x, 6) for x in t["args"])
                            if any(x.endswith(".name") and x.startswith("P2") for x in a) and any("upvar:" in x and x.endswith(".name") for x in a):
                                cmp_ok = True
                ok = cmp_ok and "SymbolManager::get(" in deep(f, ft["args"][1], 5)
                why = "the definitions are not matched by comparing their name with the declared (full) name of the constant"
            if ok:
                sw = _switch_on_call_result(f, fb, ft)
                ok = sw is not None and f.edge_dominates(sw[2], sw[1], eb)
                why = "the constant's own expression can be evaluated although a command-line definition exists"
                if ok:
                    some, none, sb = sw
                    reg = T.dominated_region(f, some, sb)
                    stores = {}
                    for x in reg:
                        for st in f.blocks[x]["stmts"]:
                            if st["k"] == "assign" and st["place"]["p"]:
                                fld = [pr["name"] for pr in st["place"]["p"] if isinstance(pr, dict) and "f" in pr]
                                if fld and st["rv"]["k"] == "use":
                                    stores[fld[-1]] = deep(f, st["rv"]["op"], 6)
                        tt = f.blocks[x]["term"]
                        if tt["k"] == "call" and tt["dest"]["p"]:
                            fld = [pr["name"] for pr in tt["dest"]["p"] if isinstance(pr, dict) and "f" in pr]
                            if fld:
                                stores[fld[-1]] = deep(f, ("call", tt, x), 6)
                    ok = "Iterator::find(" in stores.get("value", "") and stores.get("value", "").endswith("@Some.0.value") and stores.get("resolved") == "true"
                    why = "on the `defined on the command line` edge the symbol gets `%s` and resolved=`%s`, expected the definition's value and a frozen symbol" % (stores.get("value", "?")[:80], stores.get("resolved"))
                    if ok:
                        ok = any(st["k"] == "assign" and st["place"]["l"] == 0 and st["rv"]["k"] == "agg" and st["rv"].get("variant") == "Ok" and deep(f, st["rv"]["ops"][0]) == "Resolved{}" for x in reg for st in f.blocks[x]["stmts"])
                        why = "the overridden constant is not answered as Resolved"
        run.check(ok, R, R + "|define|override-first", f.loc(), "a command-line definition of the constant's name replaces its value before its own expression is looked at, and freezes it",
                  "resolve_constant_simple: %s" % why)
    # a frozen symbol is never re-evaluated by the resolver proper
    g = run.anchor(R, "asm::resolver::constant::resolve_constant")
    if g is not None:
        ev = _calls(g, "resolver::eval") or [(bi, t) for bi, t in g.calls() if (t.get("resolved") or "").endswith("asm::resolver::eval::eval")]
        okf = False
        for bi, si, st in g.stmts():
            if st["k"] == "assign" and st["rv"]["k"] == "use" and deep(g, st["rv"]["op"]).endswith(".resolved"):
                tt = g.blocks[bi]["term"]
                if tt["k"] == "switch" and op_local(tt["discr"]) == st["place"]["l"]:
                    ftg = [tg for v, tg in tt["targets"] if v == "0"]
                    if ftg and ev and all(g.edge_dominates(bi, ftg[0], b) for b, _ in ev):
                        okf = True
        run.check(okf, R, R + "|define|frozen-kept", g.loc(), "a frozen constant (overridden or statically known) is not evaluated again by the resolver",
                  "resolve_constant can re-evaluate a constant that was frozen: a command-line definition would be overwritten by the source value in the main passes")
    # unused defines: a definition is used only when its name resolves to a declared *constant*
    u = run.anchor(R, "asm::check_unused_defines")
    if u is not None:
        oku = False
        why = "no decision of the form `report and fail unless the name is a declared constant` found"

        def kind_is_constant_edges(g):
            """(switch block, edge target) pairs: the `Constant` arm of a match on the kind of a looked-up symbol"""
            out = []
            for b2 in sorted(g.reachable()):
                t2 = g.blocks[b2]["term"]
                if t2["k"] == "switch" and op_local(t2["discr"]) is not None:
                    o = g.origin_local(op_local(t2["discr"]))
                    if o[0] == "discr" and "SymbolKind" in (o[2].get("adt") or "") and deep(g, o[1], 5).endswith(".kind"):
                        vs = o[2].get("variants") or {}
                        for v, tgt in t2["targets"]:
                            if vs.get(v) == "Constant":
                                out.append((b2, tgt))
            return out

        def is_constant_flag(l):
            """is bool local l true exactly when the name resolved to a declared constant?"""
            root = u.copy_root(l)
            ds = u.full_defs(root)
            if len(ds) == 1 and ds[0][0] == "call":
                t = ds[0][2]
                if re.search(r"Option::<T>::(map_or|is_some_and)$", t.get("callee") or "") and "try_get_by_name" in deep(u, t["args"][0], 3):
                    cid = closure_of_origin(u.origin_op(t["args"][-1]))
                    g = run.prog.fn(cid) if cid else None
                    dflt = deep(u, t["args"][1], 2) if len(t["args"]) == 3 else "false"
                    return dflt == "false" and g is not None and bool(kind_is_constant_edges(g))
                return False
            # assigned constants on the arms of explicit matches
            edges = kind_is_constant_edges(u)
            if not ds or not edges:
                return False
            for d_ in ds:
                if d_[0] != "stmt" or d_[3]["k"] != "assign" or d_[3]["rv"]["k"] != "use":
                    return False
                c = const_int(d_[3]["rv"]["op"])
                if c is None:
                    return False
                if c == 1 and not any(u.edge_dominates(sb, e, d_[1]) for sb, e in edges):
                    return False
            return any(const_int(d_[3]["rv"]["op"]) == 1 for d_ in ds)

        for b in sorted(u.reachable()):
            tt2 = u.blocks[b]["term"]
            if tt2["k"] != "switch" or op_local(tt2["discr"]) is None or u.local_ty(op_local(tt2["discr"])) != "bool":
                continue
            l_ = op_local(tt2["discr"])
            o = u.origin_local(l_)
            neg = False
            if o[0] == "unop" and o[1]["op"] == "Not" and op_local(o[1]["x"]) is not None:
                neg = True
                l_ = op_local(o[1]["x"])
            if not is_constant_flag(l_):
                continue
            ft = [tg for v, tg in tt2["targets"] if v == "0"]
            if not ft:
                continue
            # edge taken when the name is NOT a declared constant
            bad_edge = tt2["otherwise"] if neg else ft[0]
            good_edge = ft[0] if neg else tt2["otherwise"]
            # every way on from here that does not go through the good edge reports and marks the failure
            reg = T.dominated_region(u, bad_edge, b)
            rep = report_error_in_region(u, reg)
            flag_set = any(st["k"] == "assign" and st["rv"]["k"] == "use" and str(st["rv"]["op"].get("const")) == "true" for x in reg for st in u.blocks[x]["stmts"])
            if not (rep and flag_set):
                # `if constant { continue }` followed by the report: the report is what follows the bad edge outside a region
                seen = set()
                work = [bad_edge]
                while work:
                    x = work.pop()
                    if x in seen or x == b:
                        continue
                    seen.add(x)
                    work.extend(z for z in u.succs(x) if not u.blocks[z]["cleanup"] and z != good_edge)
                rep = report_error_in_region(u, seen)
                flag_set = any(st["k"] == "assign" and st["rv"]["k"] == "use" and str(st["rv"]["op"].get("const")) == "true" for x in seen for st in u.blocks[x]["stmts"])
                # and the good edge must not lead into the report
                gseen = set()
                work = [good_edge]
                hits_report = False
                while work:
                    x = work.pop()
                    if x in gseen:
                        continue
                    gseen.add(x)
                    tx = u.blocks[x]["term"]
                    if tx["k"] == "call" and re.search(r"Report::error", re.sub(r"::<[^<>]*>", "", tx.get("resolved") or tx.get("callee") or "")):
                        hits_report = True
                    # stop at the loop header (next definition)
                    if x != good_edge and u.dominates(x, b):
                        continue
                    work.extend(z for z in u.succs(x) if not u.blocks[z]["cleanup"])
                rep = rep and not hits_report
            oku = rep and flag_set
            why = "the `not a declared constant` edge does not report and mark the failure"
            if oku:
                break
        if not oku and "no decision" in why:
            tg_ = _calls(u, "SymbolManager::try_get_by_name")
            if tg_ and _switch_on_call_result(u, tg_[0][0], tg_[0][1]):
                why = "a definition is accepted as soon as its name resolves to any symbol (label, function), not only to a constant"
        run.check(oku, R, R + "|define|unused-is-error", u.loc(), "a command-line definition whose name is not a declared constant is reported and fails the assembly",
                  "check_unused_defines: %s" % why)


ARM_READERS = {
    "asm::resolver::directive_if::resolve_ifs": "splices the selected arm",
}


def arm_reader_rules(run):
    """nothing but the expansion reads the arms of an #if: an unselected arm cannot have any effect or visibility"""
    prog = run.prog
    n = 0
    for f in prog.real_fns():
        root = f.raw.get("root") or f.id
        if f.span_is_derive() if hasattr(f, "span_is_derive") else False:
            continue
        hit = False
        for bi, si, st in f.stmts():
            if st["k"] != "assign":
                continue
            pls = []
            rv = st["rv"]
            if rv["k"] in ("ref", "discr", "len") and "place" in rv:
                pls.append(rv["place"])
            for o in _ops(rv):
                p_ = op_place(o)
                if p_:
                    pls.append(p_)
            for p_ in pls:
                for pr in p_["p"]:
                    if isinstance(pr, dict) and "f" in pr and pr["name"] in ("true_arm", "false_arm"):
                        hit = True
        for bi, t in f.calls():
            for a in t["args"]:
                p_ = op_place(a)
                if p_:
                    for pr in p_["p"]:
                        if isinstance(pr, dict) and "f" in pr and pr["name"] in ("true_arm", "false_arm"):
                            hit = True
        if not hit:
            continue
        if re.search(r"as std::(clone::Clone|fmt::Debug)>::", root):
            continue
        n += 1
        run.check(root in ARM_READERS, R, "%s|arm-reader|%s" % (R, root), f.loc(), "%s reads the arms of an #if (%s)" % (root, ARM_READERS.get(root, "")),
                  "%s reads the arms of an #if but is not the expansion: content of an arm that is not selected could gain an effect or become visible" % root)
    run.floor(R, "functions reading #if arms", n, 1)


def _ops(rv):
    from mir import rv_operands
    return rv_operands(rv)


def prepass_loop_rules(run):
    """the constants/#if pre-pass is an unbounded fixed point: its only exits are `no progress` and errors; the iteration budget
    plays no part in it"""
    prog = run.prog
    fs = [f for f in prog.real_fns() if f.id.startswith("asm::assemble::{closure#0}") or f.id == "asm::assemble::{closure#0}"]
    f = None
    for x in prog.real_fns():
        if re.match(r"^asm::assemble::\{closure#0\}$", x.id):
            f = x
    if f is None:
        run.violation(R, R + "|prepass|anchor", "-", "mechanism not found: the pipeline closure of asm::assemble")
        return
    ri = [(bi, t) for bi, t in f.calls() if (t.get("resolved") or "").endswith("directive_if::resolve_ifs")]
    rc = [(bi, t) for bi, t in f.calls() if (t.get("resolved") or "").endswith("constant::resolve_constants_simple")]
    if len(ri) != 1 or len(rc) != 1:
        run.violation(R, R + "|prepass|calls", f.loc(), "mechanism not found: resolve_constants_simple / resolve_ifs in the pipeline")
        return
    ib = ri[0][0]
    loop = set()
    for h in sorted(f.reachable()):
        l_ = natural_loop(f, h)
        if ib in l_:
            loop |= l_
    ok = bool(loop) and rc[0][0] in loop
    exits = []
    if ok:
        for x in sorted(loop):
            for s_ in f.succs(x):
                if s_ in loop or f.blocks[s_]["cleanup"] or f.blocks[s_]["term"]["k"] == "unreachable":
                    continue
                exits.append((x, s_))
    good = []
    bad = []
    for x, s_ in exits:
        tt = f.blocks[x]["term"]
        # error exits: `?`
        only_err = False
        seen = set()
        work = [s_]
        has_err = has_other = False
        steps = 0
        while work and steps < 12:
            y = work.pop()
            if y in seen:
                continue
            seen.add(y)
            steps += 1
            ty = f.blocks[y]["term"]
            if ty["k"] == "call" and (ty.get("callee") or "").endswith("FromResidual::from_residual"):
                has_err = True
                continue
            if ty["k"] == "return":
                continue
            if ty["k"] == "call":
                has_other = True
                continue
            work.extend(f.succs(y))
        if has_err and not has_other:
            continue
        # the no-progress exit: the switch tests `ifs == 0` or `constants == prev`
        d = ""
        if tt["k"] == "switch" and op_local(tt["discr"]) is not None:
            d = deep(f, tt["discr"], 5)
        if re.search(r"resolve_ifs\(.*\) Eq 0_usize\)$", d) or re.search(r"Eq", d) and "resolve_ifs" in d:
            good.append((x, d))
        else:
            bad.append((x, d))
    okx = ok and len(good) == 1 and not bad
    if okx:
        # and the exit needs both: the constants count equals the previous one
        x, d = good[0]
        dom_eq = False
        for bi, si, st in f.stmts():
            if st["k"] == "assign" and st["rv"]["k"] == "binop" and st["rv"]["op"] == "Eq":
                e = deep(f, st["rv"]["l"], 5) + "|" + deep(f, st["rv"]["r"], 5)
                if "resolve_constants_simple" in e and "prev_resolved_constants_count" in e:
                    tt = f.blocks[bi]["term"]
                    if tt["k"] == "switch" and f.edge_dominates(bi, tt["otherwise"], x):
                        dom_eq = True
        okx = dom_eq
    run.check(okx, R, R + "|prepass|fixed-point", f.loc(), "the pre-pass repeats until a round resolves no further constant and expands no #if; nothing else ends it",
              "the constants/#if pre-pass can end by another exit than `no progress` (exits: %s): deeper nesting or longer #elif chains than some bound would be left undecided" % [d_ for _, d_ in bad + good][:3])


def nested_include_rule(run):
    """an #include written inside an #if arm is parsed into a DirectiveInclude node like any other, but includes are only
    resolved for top-level nodes at parse time; after an arm is spliced, somebody has to process or reject such nodes"""
    prog = run.prog
    handlers = []
    for f in prog.real_fns():
        root = f.raw.get("root") or f.id
        if re.search(r"as std::(clone::Clone|fmt::Debug)>::", root) or root.endswith("AstAny::span"):
            continue
        for b in sorted(f.reachable()):
            tt = f.blocks[b]["term"]
            if tt["k"] == "switch" and op_local(tt["discr"]) is not None:
                o = f.origin_local(op_local(tt["discr"]))
                if o[0] == "discr" and (o[2].get("adt") or "").endswith("AstAny"):
                    vs = o[2].get("variants") or {}
                    inc_t = [tg for v, tg in tt["targets"] if vs.get(v) == "DirectiveInclude"]
                    # a dedicated arm, not the shared `nothing to do` arm of a match that lists every variant
                    if inc_t and sum(1 for v, tg in tt["targets"] if tg == inc_t[0]) == 1:
                        handlers.append(root)
    handlers = sorted(set(handlers))
    p = run.anchor("INC", "asm::parser::parse_and_resolve_includes")
    descends = False
    if p is not None:
        for b in sorted(p.reachable()):
            tt = p.blocks[b]["term"]
            if tt["k"] == "switch" and op_local(tt["discr"]) is not None:
                o = p.origin_local(op_local(tt["discr"]))
                if o[0] == "discr" and (o[2].get("adt") or "").endswith("AstAny"):
                    vs = o[2].get("variants") or {}
                    if any(vs.get(v) == "DirectiveIf" for v, tg in tt["targets"]):
                        descends = True
    later = [h for h in handlers if not h.endswith("parse_and_resolve_includes") and not h.startswith("asm::parser::")]
    run.check(descends or bool(later), "INC", "INC|nested-include-unprocessed", p.loc() if p else "-",
              "an #include inside an #if arm is resolved (or rejected) after the arm is selected",
              "an `#include` written inside an `#if` arm is parsed into a DirectiveInclude node, but parse_and_resolve_includes only replaces top-level nodes and no later phase handles DirectiveInclude (handlers: %s): the directive is silently ignored, even when the file does not exist" % handlers)


def early_binding_rule(run, R="COND"):
    """the selected arm of an `#if` contributes as if written in place: a name reference that is bound while the blocks are still
    being resolved (the collection passes run inside the pre-pass loop) may not fail for a name that a pending block can still
    declare.  In the collection functions, a reporting look-up (`get_by_name*`, which fails with `unknown ...`) is preceded by a
    non-reporting one, and the function asks whether `#if` blocks are pending"""
    import json
    prog = run.prog
    n = 0
    for f in prog.real_fns():
        if f.kind == "Closure" or not re.fullmatch(r"asm::decls::\w+::collect", f.id):
            continue
        rep = [(bi, t) for bi, t in f.calls() if re.search(r"SymbolManager::<.*>::get_by_name(_global)?$", t.get("callee") or "")]
        if not rep:
            continue
        n += len(rep)
        tries = [bi for bi, t in f.calls() if re.search(r"SymbolManager::<.*>::try_get_by_name", t.get("callee") or "")]
        fam = [g for g in prog.real_fns() if (g.raw.get("root") or g.id) == f.id]
        asks_pending = False
        for g in fam:
            for b in sorted(g.reachable()):
                tt = g.blocks[b]["term"]
                if tt["k"] != "switch":
                    continue
                l_ = T.op_local(tt["discr"])
                o = g.origin_local(l_) if l_ is not None else None
                if o and o[0] == "discr":
                    vs = o[2].get("variants") or {}
                    if any(vs.get(v) == "DirectiveIf" for v, _ in tt["targets"]):
                        asks_pending = True
        for bi, t in rep:
            ok = asks_pending and bool(tries)
            run.check(ok, R, "%s|early-binding|%s" % (R, f.id.split("::")[-2]), f.loc(t["span"]),
                      "%s: the reporting look-up is preceded by a non-reporting one and the function asks for pending #if blocks" % f.id,
                      "%s fails with `unknown ...` for a name it cannot find while `#if` blocks are still unresolved: `#if A { #bankdef b1 {..} }` followed by `#bank b1` is rejected although the selected arm declares the bank" % f.id)
    run.floor(R, "reporting look-ups in the collection passes", n, 1)


def define_value_source(run):
    """a number given with `-d` is the value its text has in the source language - width of a hexadecimal literal included: the
    only producer of a big integer in `parse_define_arg` (and the driver helpers it calls) is the literal parser of the language
    (`excerpt_as_bigint`); the value is never built from a machine word, which carries no width"""
    pd = run.anchor(R, "driver::parse_define_arg")
    if pd is None:
        return
    fam = [pd] + [h for h in (run.prog.fn(t.get("resolved") or "") for _, t in pd.calls() if t.get("resolved_local")) if h is not None and h.id.startswith("driver::")]
    fam += [g for g in run.prog.real_fns() if g.kind == "Closure" and (g.raw.get("root") or "") in {f.id for f in fam}]
    bad, lit = [], 0
    for f in fam:
        for bi, t in f.calls():
            c = t.get("resolved") or t.get("callee") or ""
            cf = t.get("callee_full") or c
            if c.endswith("excerpt::excerpt_as_bigint"):
                lit += 1
            elif re.search(r"util::bigint::BigInt::(new|from_bytes_be|new_from_str)$", c) or re.search(r"<util::bigint::BigInt as (std::|core::)?convert::From<", c) \
                    or (c.endswith("From::from") and "util::bigint::BigInt" in cf) or re.search(r"Into<util::bigint::BigInt>|into.*util::bigint::BigInt", cf):
                bad.append("%s at %s" % (c.rsplit("::", 2)[-2] + "::" + c.rsplit("::", 1)[-1], f.loc(t["span"])))
    run.check(lit >= 1 and not bad, R, R + "|define|value-by-literal-parser", pd.loc(), "the number of a -d definition is produced by the language's literal parser only",
              "parse_define_arg builds the value of a definition by other means than the language's literal parser (%s): the value loses the width its text has (`-dKEY=0x00ff` is 16 bits wide in the source language)" % (", ".join(bad) or "literal parser call not found"))


def condition_context_rule(run, R="SYM"):
    """names in an #if condition are looked up from where the block stands: resolve_ifs hands the evaluation the context that
    symbol_ctx_at answers for the block's position, and symbol_ctx_at selects the nearest preceding symbol by *kind of node* only
    (every branch in it and in its closures is on an enum discriminant: node kind, Option, iterator protocol) - a test on a value
    (a nesting level, a name) would skip some symbols, and `..k` in a condition would stop meaning what it means on the next line"""
    f = run.anchor(R, "asm::resolver::directive_if::resolve_ifs")
    if f is None:
        return
    from rules_mpt import source_chain
    ev = [(bi, t) for bi, t in f.calls() if re.search(r"(eval_certain|eval_simple|eval_with_ctx)", t.get("resolved") or t.get("callee") or "")]
    # the helper is found by its role, not its name: the function of this crate answering a SymbolContext whose result reaches
    # the evaluation of the condition
    g = None
    for bi, t in f.calls():
        h = run.prog.fn(t.get("resolved") or t.get("callee") or "")
        if h is not None and (h.ret or "").endswith("SymbolContext") and h.kind in ("Fn", "AssocFn") and not h.id.endswith("::new_global"):
            nm = h.id.rsplit("::", 1)[-1]
            if any(any(nm in str(x) for x in source_chain(f, a)) for _, t2 in ev for a in t2["args"] if op_place(a) is not None):
                g = h
    if g is None:
        # selection written in place: the context handed on must at least be some symbol's own context
        ok0 = any(".ctx" in str(deep(f, a, 10)) for _, t2 in ev for a in t2["args"])
        run.check(ok0, R, R + "|condition-context|handed-on", f.loc(), "resolve_ifs evaluates the condition under the context of a preceding symbol (selection written in place; its shape is not decided)",
                  "resolve_ifs does not evaluate the condition under a symbol's context: dotted names in a condition would be looked up from somewhere else than names on the next line")
        return
    run.ok(R, R + "|condition-context|handed-on", f.loc(), "resolve_ifs asks %s for the context of the block's position and hands it to the evaluation of the condition" % g.id.rsplit("::", 1)[-1])
    fam = [h for h in run.prog.real_fns() if h.id == g.id or h.id.startswith(g.id + "::{closure")]
    bad, n = [], 0
    for h in fam:
        for bi in sorted(h.reachable()):
            t = h.blocks[bi]["term"]
            if t["k"] != "switch":
                continue
            n += 1
            d = str(deep(h, t["discr"], 4))
            if not d.startswith("discr("):
                bad.append("%s: %s" % (h.loc(t["span"]), d[:80]))
    reads_ctx = any(".ctx" in str(st) or "'ctx'" in str(st) for h in fam for _, _, st in h.stmts())
    run.check(n >= 1 and not bad and reads_ctx, R, R + "|condition-context|nearest-symbol", g.loc(),
              "symbol_ctx_at picks the nearest preceding symbol by node kind alone (%d branch(es), all on enum discriminants) and answers its context" % n,
              "symbol_ctx_at branches on a value (%s): some preceding symbols are skipped when the context of an #if block is determined, so a name with leading dots in a condition resolves differently from the same name written on the next line" % ("; ".join(bad) or "selection not found"))
