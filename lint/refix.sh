#!/bin/bash
# usage: refix.sh [jobs]  -- for every `fixed:` entry of known_findings.json: undo that repair on a scratch copy of /repo HEAD
# (reverse patch of the fix commit) and run the owning property's check on it: a repaired defect that returns must be reported.
# Prints one line per entry: detected / MISSED / skipped (the reverse patch no longer applies to HEAD or does not compile).
cd /verif
python3 - <<'PY' > /tmp/refix_list.txt
import json,re
k=json.load(open('/verif/known_findings.json'))
for e in k["fixed"]:
    m=re.match(r"fixed: property=(C\d+) ([0-9a-f]{7,}) ", e)
    if m: print(m.group(1), m.group(2))
PY
J=${1:-6}
cat /tmp/refix_list.txt | xargs -P $J -L 1 bash -c '
  prop=$0; c=$1
  T=$(mktemp -d /tmp/casm-refix-XXXX)
  git -C /repo archive HEAD | tar -x -C $T
  if ! git -C /repo diff $c $c~1 -- src | (cd $T && patch -p1 -s >/dev/null 2>&1); then echo "skipped   $prop $c (reverse patch does not apply to HEAD)"; rm -rf $T; exit 0; fi
  out=$(python3 /verif/lint/check.py $prop --repo $T --no-evidence 2>&1)
  if echo "$out" | grep -q "cannot analyse"; then echo "skipped   $prop $c (does not compile after undoing)";
  elif echo "$out" | grep -q "^VIOLATION"; then echo "detected  $prop $c $(echo "$out" | grep "key:" | head -1 | sed "s/ *key: //" | cut -c1-90)";
  else echo "MISSED    $prop $c $(git -C /repo log --format=%s -1 $c | cut -c1-80)"; fi
  rm -rf $T'
