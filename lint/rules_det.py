"""DET — determinism rules (C10, and DET1 for C18)."""
import re
from mir import (natural_loop, op_place, op_local, fn_uses, describe_origin, scc_containing, closure_of_origin)

HASH_ITER_TY = re.compile(r"std::collections::hash_(map|set)::(Iter|IterMut|IntoIter|Keys|Values|ValuesMut|IntoKeys|IntoValues|Drain|ExtractIf|Difference|Intersection|SymmetricDifference|Union)\b")
HASH_CONT_TY = re.compile(r"std::collections::Hash(Map|Set)<")

# consumers of an iterator whose result does not depend on the order of the items
ORDER_FREE_CONSUMERS = (
    "std::iter::Iterator::count", "std::iter::Iterator::sum", "std::iter::Iterator::any",
    "std::iter::Iterator::all", "std::iter::Iterator::max", "std::iter::Iterator::min",
    "std::iter::ExactSizeIterator::len",
)
# adaptors returning another iterator over the same order
ADAPTORS_PREFIX = ("std::iter::Iterator::", "std::iter::IntoIterator::into_iter")

# calls allowed inside a loop over a hash container (commutative-body rule)
PURE_CALLEES = re.compile(
    r"^(std::clone::Clone::clone|std::ops::Deref::deref|std::ops::DerefMut::deref_mut|std::string::String::as_str"
    r"|core::str::<impl str>::starts_with|core::str::<impl str>::ends_with|core::str::<impl str>::len"
    r"|std::borrow::Borrow::borrow|std::convert::AsRef::as_ref|std::convert::Into::into|std::convert::From::from"
    r"|std::string::ToString::to_string|std::borrow::ToOwned::to_owned|alloc::fmt::format|std::fmt::format|core::fmt::rt::.*|std::fmt::Arguments::.*"
    r"|std::cmp::PartialEq::eq|std::cmp::PartialEq::ne|std::mem::drop|core::fmt::Arguments::.*|alloc::fmt::format::.*|std::fmt::rt::.*"
    r"|<std::string::String as std::ops::Deref>::deref|std::intrinsics::.*|core::hint::must_use.*|std::hint::must_use)$")
COMMUTATIVE_SINKS = re.compile(r"^std::collections::(HashMap|HashSet)::<.*>::insert$|^std::collections::(HashMap|HashSet)::<[^:]*::insert$")


def hash_iter_sources(f):
    """calls in f whose result is an iterator over a hash container (not derived from another such iterator)"""
    out = []
    for bi, t in f.calls():
        dty = f.local_ty(t["dest"]["l"]) if not t["dest"]["p"] else ""
        if not HASH_ITER_TY.search(dty):
            continue
        # source if no argument is itself a hash iterator
        derived = False
        for at in t.get("arg_tys", ()):
            if HASH_ITER_TY.search(at):
                derived = True
        if derived:
            continue
        out.append((bi, t))
    return out


def callee_name(t):
    return t.get("callee") or "(indirect)"


def is_sort_call(t):
    n = t.get("resolved") or t.get("callee") or ""
    return bool(re.search(r"slice::<impl \[T\]>::sort", n))


def _local_pure(run, fid, seen):
    """a local function is 'commutative-safe' if all its calls are pure or commutative sinks (transitively)"""
    if fid in seen:
        return True
    seen.add(fid)
    g = run.prog.fn(fid)
    if g is None:
        return False
    for bi, t in g.calls():
        if not _call_ok_in_loop(run, g, t, seen):
            return False
    return True


def _call_ok_in_loop(run, f, t, seen):
    n = t.get("resolved") or t.get("callee") or ""
    c = t.get("callee") or ""
    if PURE_CALLEES.match(c) or PURE_CALLEES.match(n):
        return True
    if re.match(r"^std::collections::(HashMap|HashSet)::<.*::insert$", n) or re.match(r"^std::collections::(HashMap|HashSet)::<.*::insert$", c):
        return True
    tg, known = run.prog.call_targets(f, t)
    if tg and known:
        return all(_local_pure(run, x, seen) for x in tg)
    return False


def alias_closure(f, local):
    """locals that are the value `local` moved, or (re)borrows of it; returns (aliases, terminal uses)"""
    aliases = {local}
    work = [local]
    term_uses = []
    while work:
        l = work.pop()
        for bi, kind, obj in fn_uses(f, l):
            if kind == "stmt" and obj["k"] == "assign" and not obj["place"]["p"] and obj["rv"]["k"] in ("ref", "use"):
                src = obj["rv"]["place"] if obj["rv"]["k"] == "ref" else op_place(obj["rv"]["op"])
                if src is not None and src["l"] == l and all(pr == "deref" for pr in src["p"]):
                    nl = obj["place"]["l"]
                    if nl not in aliases:
                        aliases.add(nl)
                        work.append(nl)
                    continue
            term_uses.append((bi, kind, obj))
    return aliases, term_uses


def check_loop_commutative(run, f, it_local, key, loc):
    """the iterator local is consumed by `next` in a loop; body must be commutative, no early exit"""
    aliases, uses = alias_closure(f, it_local)
    next_calls = []
    other = []
    for bi, kind, obj in uses:
        if kind == "term" and obj["k"] == "call" and callee_name(obj) == "std::iter::Iterator::next":
            next_calls.append((bi, obj))
        else:
            other.append((bi, obj))
    if other or len(next_calls) != 1:
        return False, "iterator over a hash container is used in an unrecognised way (%d next() call(s), %d other use(s))" % (len(next_calls), len(other))
    nb, nt = next_calls[0]
    loop = natural_loop(f, nb)
    if not loop:
        return False, "`next()` on a hash-ordered iterator outside a loop picks an arbitrary element"
    # normal exit: the None edge of the switch on the discriminant of next()'s result
    exits = []
    for b in loop:
        for s in f.succs(b):
            if s not in loop:
                exits.append((b, s))
    none_exit = None
    tb = nt["target"]
    blk = f.blocks[tb]
    if blk["term"]["k"] == "switch":
        for v, tgt in blk["term"]["targets"]:
            if v == "0":
                none_exit = (tb, tgt)
    bad_exits = [e for e in exits if e != none_exit]
    # exits through blocks that are unreachable!() are fine
    bad_exits = [e for e in bad_exits if f.blocks[e[1]]["term"]["k"] != "unreachable"]
    if bad_exits:
        lines = sorted(set(f.blocks[b]["term"]["span"]["line"] for b, _ in bad_exits))
        return False, "loop over a hash container can exit early (source line(s) %s): which element is seen first depends on hash order" % lines
    for b in loop:
        t = f.blocks[b]["term"]
        if t["k"] != "call" or b == nb:
            continue
        if not _call_ok_in_loop(run, f, t, set()):
            return False, "loop over a hash container calls `%s` (line %d): not a pure function or an insertion into another hash container, so the iteration order can be observed" % (
                t.get("resolved") or t.get("callee") or "indirect", t["span"]["line"])
    # insertions into a map commute only when no two iterations can produce the same key: the key is ONE expression of the
    # element (the element's own key, or one renaming of it) - a key chosen among several expressions (`if .. {k} else {f(k)}`)
    # can make two entries collide, and then the survivor is whichever the hash order visits last
    from rules_sym import deep as _deep
    for b in loop:
        t = f.blocks[b]["term"]
        if t["k"] == "call" and b != nb and len(t["args"]) == 3 and re.match(r"^std::collections::HashMap::<.*::insert$", t.get("callee") or ""):
            try:
                kd = str(_deep(f, t["args"][1], 4))
            except Exception:
                kd = "var:?"
            if kd.startswith("var:"):
                return False, "loop over a hash container inserts into a map under a key chosen among several expressions (`%s`, line %d): two elements can end up under one key, and which of them survives depends on hash order" % (kd, t["span"]["line"])
    return True, "loop body is commutative: only pure calls and insertions into hash containers (each under one expression of the element's key), no early exit"


def follow_hash_iter(run, f, local, key, loc, depth=0):
    """decide how the hash-ordered iterator held in `local` is consumed"""
    if depth > 6:
        return False, "iterator adaptor chain too deep to analyse"
    uses = fn_uses(f, local)
    if len(uses) == 1 and uses[0][1] == "stmt" and uses[0][2]["k"] == "assign" and uses[0][2]["rv"]["k"] == "use" \
            and not uses[0][2]["place"]["p"] and op_local(uses[0][2]["rv"]["op"]) == local:
        return follow_hash_iter(run, f, uses[0][2]["place"]["l"], key, loc, depth + 1)
    call_uses = [(bi, o) for bi, k, o in uses if k == "term" and o["k"] == "call"]
    # direct consumption by one call taking the iterator by value
    by_value = []
    for bi, t in call_uses:
        for a in t["args"]:
            if "move" in a and op_local(a) == local:
                by_value.append((bi, t))
    if len(by_value) == 1 and len(uses) == 1:
        bi, t = by_value[0]
        c = callee_name(t)
        dty = f.local_ty(t["dest"]["l"])
        if c == "std::iter::IntoIterator::into_iter" or (c.startswith("std::iter::Iterator::") and HASH_ITER_TY.search(dty) and c != "std::iter::Iterator::collect"):
            return follow_hash_iter(run, f, t["dest"]["l"], key, loc, depth + 1)
        if c in ORDER_FREE_CONSUMERS or c == "std::iter::Iterator::for_each":
            # closures passed along must be commutative as well
            for a in t["args"][1:]:
                cid = closure_of_origin(f.origin_op(a))
                if cid is None or not _local_pure(run, cid, set()):
                    return False, "`%s` over a hash container with a closure that is not a pure function / hash insertion" % c
            return True, "consumed by order-insensitive `%s`" % c
        if c == "std::iter::Iterator::collect":
            if re.match(r"^std::collections::(HashMap|HashSet|BTreeMap|BTreeSet)<", dty):
                return True, "collected into an order-free/sorted container"
            if dty.startswith("std::vec::Vec<"):
                return check_sorted_before_use(run, f, t["dest"]["l"], bi)
            return False, "hash-ordered iterator collected into `%s`" % dty
        return False, "hash-ordered iterator passed to `%s`" % c
    return check_loop_commutative(run, f, local, key, loc)


def check_sorted_before_use(run, f, vec_local, def_block):
    """the Vec collected from a hash iterator must be sorted before any other use"""
    # all uses of the vec, through one level of refs
    sort_blocks = []
    sort_names = []
    other_blocks = []
    sort_terms = []
    work = [(vec_local, 0)]
    seen = set()
    while work:
        l, d = work.pop()
        if l in seen or d > 4:
            continue
        seen.add(l)
        for bi, k, o in fn_uses(f, l):
            if k == "stmt" and o["k"] == "assign" and o["rv"]["k"] in ("ref",) and not o["place"]["p"]:
                work.append((o["place"]["l"], d + 1))
                continue
            if k == "term" and o["k"] == "call":
                c = callee_name(o)
                if c in ("std::ops::DerefMut::deref_mut", "std::ops::Deref::deref", "std::vec::Vec::<T, A>::as_mut_slice") and not o["dest"]["p"]:
                    work.append((o["dest"]["l"], d + 1))
                    continue
                if is_sort_call(o):
                    sort_blocks.append(bi)
                    sort_names.append(o.get("resolved") or o.get("callee") or "")
                    sort_terms.append(o)
                    continue
            if k == "stmt" and o["k"] == "assign" and o["rv"]["k"] == "use" and not o["place"]["p"]:
                # move into another local
                work.append((o["place"]["l"], d + 1))
                continue
            other_blocks.append(bi)
    if not sort_blocks:
        return False, "Vec collected from a hash container is used without being sorted"
    for ob in other_blocks:
        if not any(f.dominates(sb, ob) and sb != ob for sb in sort_blocks):
            return False, "Vec collected from a hash container is used (line %d) on a path that does not pass the sort" % f.blocks[ob]["term"]["span"]["line"]
    keyed = [n for n in sort_names if re.search(r"sort(_unstable)?_by", n)]
    if keyed:
        table = {e["fn"]: e for e in run.table("hash_iter")["injective_sort_keys"]} if hasattr(run, "table") else {}
        if f.id not in table:
            return False, "Vec collected from a hash container is sorted with a key/comparator (`%s`) that is not audited as tie-free: elements that compare equal keep their hash order" % keyed[0].rsplit("::", 1)[-1]
        # the audited key expression is the one in the code
        from rules_sym import deep
        got = []
        for o in sort_terms:
            if len(o["args"]) > 1:
                cid = closure_of_origin(f.origin_op(o["args"][1]))
                g = run.prog.fn(cid) if cid else None
                if g is not None:
                    got.append(deep(g, g.origin_local(0), 6))
        want = table[f.id].get("key")
        if want is not None and got != [want]:
            return False, "Vec collected from a hash container is sorted by `%s`; the key audited as tie-free is `%s`: elements with equal keys keep their hash order" % (got, want)
        return True, "collected into a Vec that is sorted (tie-free key: %s) before any other use" % table[f.id]["reason"]
    return True, "collected into a Vec that is fully sorted before any other use"


def det1(run, fns=None, rule="DET1"):
    n = 0
    for f in (fns if fns is not None else run.prog.real_fns()):
        for bi, t in f.calls():
            r = t.get("resolved") or ""
            if re.match(r"^std::collections::(HashMap|HashSet)::<.*>::retain$", r):
                n += 1
                cid = closure_of_origin(f.origin_op(t["args"][1])) if len(t["args"]) > 1 else None
                ok = cid is not None and _local_pure(run, cid, set())
                run.check(ok, rule, "%s|%s|retain" % (rule, f.id), f.loc(t["span"]),
                          "retain on a hash container in %s with a pure predicate" % f.id,
                          "retain on a hash container in %s visits entries in hash order and its predicate is not a pure function" % f.id)
        for bi, t in hash_iter_sources(f):
            n += 1
            from mir import stable_origin
            cont = stable_origin(f, f.origin_op(t["args"][0])) if t["args"] else "?"
            key = "%s|%s|%s|%s" % (rule, f.id, callee_name(t), cont)
            loc = f.loc(t["span"])
            ok, why = follow_hash_iter(run, f, t["dest"]["l"], key, loc)
            run.check(ok, rule, key, loc,
                      "hash iteration over `%s` in %s: %s" % (cont, f.id, why),
                      "hash iteration over `%s` in %s: %s" % (cont, f.id, why))
    return n


def det2(run, roots):
    """Debug-formatting a hash container (prints in hash order) reachable from the entry points"""
    reach = run.prog.reachable_from(roots)
    n = 0
    for fid in sorted(reach):
        f = run.prog.fn(fid)
        if f is None:
            continue
        for bi, t in f.calls():
            c = t.get("callee") or ""
            if "new_debug" in c or c.endswith("fmt::Debug::fmt"):
                n += 1
                tys = " ".join(t.get("gargs", []))
                bad = HASH_CONT_TY.search(tys)
                run.check(not bad, "DET2", "DET2|%s|%s" % (f.id, tys), f.loc(t["span"]),
                          "Debug formatting of `%s` in %s does not involve a hash container" % (tys, f.id),
                          "Debug formatting of a hash container `%s` in %s prints in hash order" % (tys, f.id))
        for bi, si, st in f.stmts():
            if st["k"] == "assign" and st["rv"]["k"] == "cast" and st["rv"]["kind"].startswith("coerce:Unsize") and "dyn std::fmt::Debug" in st["rv"]["ty"]:
                n += 1
                bad = HASH_CONT_TY.search(st["rv"]["from"])
                run.check(not bad, "DET2", "DET2|%s|coerce|%s" % (f.id, st["rv"]["from"]), f.loc(st["span"]),
                          "value of type `%s` coerced to dyn Debug in %s is not a hash container" % (st["rv"]["from"], f.id),
                          "hash container `%s` coerced to dyn Debug in %s (derived Debug prints it in hash order)" % (st["rv"]["from"], f.id))
    run.count("det2_debug_sites", n)
    return n


NONDET_CALLEES = re.compile(
    r"^(std::time::|std::thread::|std::env::var|std::env::vars|std::env::temp_dir|std::env::current_exe|rand::|std::process::id"
    r"|std::hash::RandomState::new|std::collections::hash_map::RandomState::new|std::hash::random::RandomState::new|std::fs::read_dir|std::ptr::.*::addr$|core::ptr::.*::addr$"
    r"|core::fmt::rt::Argument::<'_>::new_pointer|std::sync::atomic::|std::cell::|std::sync::Mutex|std::sync::RwLock|std::sync::Once|std::sync::LazyLock|std::sync::OnceLock|std::alloc::)")


def det3(run, fns=None, rule="DET3"):
    """zero-expected sources of run-to-run variation: clock, threads, environment, addresses, explicit random state"""
    hits = 0
    sites = 0
    for f in (fns if fns is not None else run.prog.real_fns()):
        for bi, t in f.calls():
            sites += 1
            for n in (t.get("callee") or "", t.get("resolved") or ""):
                if NONDET_CALLEES.match(n):
                    hits += 1
                    run.violation(rule, "%s|%s|%s" % (rule, f.id, n), f.loc(t["span"]),
                                  "%s calls `%s`: a source of run-to-run variation (clock / thread / environment / address / shared mutable state)" % (f.id, n))
                    break
        for bi, si, st in f.stmts():
            if st["k"] == "assign" and st["rv"]["k"] == "cast" and st["rv"]["kind"] in ("expose", "fnptr2ptr") and not st["span"]["mac"]:
                hits += 1
                run.violation(rule, "%s|%s|ptr-to-int" % (rule, f.id), f.loc(st["span"]),
                              "%s converts a pointer to an integer (`%s` -> `%s`): addresses differ between runs" % (f.id, st["rv"]["from"], st["rv"]["ty"]))
            if st["k"] == "assign" and st["rv"]["k"] == "tls":
                hits += 1
                run.violation(rule, "%s|%s|tls" % (rule, f.id), f.loc(st["span"]), "%s reads thread-local `%s`" % (f.id, st["rv"]["def"]))
    run.count("det3_call_sites_scanned", sites)
    if fns is None:
        run.check(hits == 0, rule, rule + "|none", "-", "no call to clock/thread/env/rand/address/atomic/cell APIs among %d call sites" % sites,
                  "%d nondeterminism source(s) found" % hits)
    return hits


def det4(run):
    """every static is immutable and Freeze (no interior mutability)"""
    n = 0
    for f in run.prog.fns.values():
        if f.kind != "Static":
            continue
        n += 1
        r = f.raw
        ok = (not r.get("static_mut")) and r.get("freeze")
        run.check(ok, "DET4", "DET4|" + f.id, f.loc(),
                  "static %s: immutable, Freeze (`%s`)" % (f.id, r.get("static_ty")),
                  "static %s is %s: process-global mutable state can make a later assembly depend on an earlier one" % (
                      f.id, "`static mut`" if r.get("static_mut") else "not Freeze (interior mutability, type `%s`)" % r.get("static_ty")))
    return n



LOSSY = re.compile(r"(::chunks_exact|::chunks_exact_mut|::array_chunks|::as_chunks|::rchunks_exact)$")


def lossy_apis(run, R="TAB-fmt"):
    """the output formatters walk all of the data: iteration helpers that silently drop a short remainder are not used there"""
    n = 0
    for f in run.prog.real_fns():
        root = f.raw.get("root") or f.id
        if not root.startswith("util::bitvec_format::"):
            continue
        n += 1
        for bi, t in f.calls():
            c = t.get("callee") or ""
            if LOSSY.search(c):
                run.violation(R, "%s|lossy-iteration|%s" % (R, root), f.loc(t["span"]), "%s iterates with `%s`, which drops a final chunk shorter than the chunk size: the last bytes of an output whose length is not a multiple of the granule would be lost" % (root, c.rsplit("::", 1)[-1]))
    # digit -> character: the listings print digits of bases up to 128 (tables/cli.json); a conversion that is only defined up to
    # base 36, or a constant character standing in for "no such digit", prints the same character for different bit patterns
    for f in run.prog.real_fns():
        root = f.raw.get("root") or f.id
        if not root.startswith("util::bitvec_format"):
            continue
        for bi, t in f.calls():
            c = t.get("callee") or ""
            partial = re.search(r"(char::from_digit|<impl char>::from_digit|char::from_u32|<impl char>::from_u32)$", c)
            fallback = re.search(r"Option::<T>::(unwrap_or|unwrap_or_default)$", c) and (t.get("arg_tys") or [""])[0] == "std::option::Option<char>"
            if partial or fallback:
                run.violation(R, "%s|lossy-digit|%s" % (R, root), f.loc(t["span"]),
                              "%s turns a digit value into a character with `%s`, which has no answer (or one fallback character) for digit values of 36 and more: with base:64 / base:128 different bit patterns would be listed alike" % (root, c.rsplit("::", 1)[-1]))
    run.check(n >= 8, R, R + "|lossy-iteration|scope", "-", "no remainder-dropping iteration in the %d formatter functions" % n, "formatter functions not found")


def ceil_divisions(run, R="TAB-fmt"):
    """granule counts: `(x + k) / d` rounds up to whole granules only when k = d - 1; any other k loses a partial granule
    (or adds an empty one)"""
    from rules_sym import deep
    from mir import op_local, const_int
    n = 0
    for f in run.prog.real_fns():
        root = f.raw.get("root") or f.id
        if not (root.startswith("util::bitvec_format::") or root.startswith("util::bitvec::")):
            continue
        for bi, si, st in f.stmts():
            if st["k"] != "assign" or st["rv"]["k"] != "binop" or st["rv"]["op"] != "Div" or st["span"].get("mac"):
                continue
            lo = f.origin_op(st["rv"]["l"])
            if lo and lo[0] == "place" and lo[1][0] == "binop":
                lo = lo[1]
            if not (lo and lo[0] == "binop" and lo[1]["op"].startswith("Add")):
                continue
            # left-nested sums: (x + a) - 1 or x + (d - 1)
            D = deep(f, st["rv"]["r"], 6)
            dconst = const_int(st["rv"]["r"])
            whole = deep(f, st["rv"]["l"], 8)
            # only sums whose added amount is built from the divisor (or, for constants, both constant) are rounding attempts
            kexpr = deep(f, lo[1]["r"], 6)
            ktoks = set(re.findall(r"P\d+(?:\.\w+)*|upvar:\w+", kexpr))
            dtoks = set(re.findall(r"P\d+(?:\.\w+)*|upvar:\w+", D))
            if not ((dconst is not None and const_int(lo[1]["r"]) is not None) or (ktoks & dtoks)):
                m0 = re.fullmatch(r"\(\((.*) Add (.*)\) Sub 1_usize\)", whole)
                if not (m0 and set(re.findall(r"P\d+(?:\.\w+)*|upvar:\w+", m0.group(2))) & dtoks):
                    continue
            n += 1
            ok = False
            kc = const_int(lo[1]["r"])
            if dconst is not None and kc is not None:
                ok = kc == dconst - 1
            else:
                # x + (D - 1)   or   (x + D) - 1, with D spelled like the divisor
                k = deep(f, lo[1]["r"], 6)
                ok = k == "(%s Sub 1_usize)" % D
            if not ok:
                lo2 = f.origin_op(st["rv"]["l"])
                if lo2 and lo2[0] == "place" and lo2[1][0] == "binop":
                    lo2 = lo2[1]
                # ((x + D) - 1) / D
                m = re.fullmatch(r"\(\((.*) Add (.*)\) Sub 1_usize\)", whole)
                ok = bool(m) and m.group(2) == D
            key = "%s|ceil|%s|%s" % (R, root, D[:60])
            run.check(ok, R, key, f.loc(st["span"]), "%s rounds up to whole granules of %s" % (root.rsplit("::", 1)[-1], D[:60]),
                      "%s computes `%s / %s`: this rounds up only when the added amount is the divisor minus one; a final partial granule would be dropped (or an empty one added)" % (root, whole[:120], D[:60]))
    run.count("ceil_divisions", n)


def intelhex_address_width(run, R="TAB-fmt"):
    """Intel HEX data records carry 16 address bits; a formatter that can be handed larger addresses must emit extended
    address records (the upper 16 bits: a shift by 16) or reject them (a comparison with 0xffff / 0x10000)"""
    from mir import const_int
    fns = [f for f in run.prog.real_fns() if (f.raw.get("root") or f.id).endswith("BitVec>::format_intelhex")]
    if not fns:
        run.violation(R, R + "|intelhex|anchor", "-", "mechanism not found: format_intelhex")
        return
    handled = False
    for f in fns:
        for bi, si, st in f.stmts():
            if st["k"] == "assign" and st["rv"]["k"] == "binop":
                c = const_int(st["rv"]["r"])
                if st["rv"]["op"] in ("Shr", "ShrUnchecked") and c == 16:
                    handled = True
                if st["rv"]["op"] in ("Gt", "Ge", "Lt", "Le") and c in (0xffff, 0x10000):
                    handled = True
    run.check(handled, R, R + "|intelhex|address-width", fns[0].loc(), "addresses beyond 16 bits are handled (extended address record or rejection)",
              "format_intelhex prints only the low 16 bits of a record address and neither emits extended address records nor rejects larger addresses: data beyond 64K address units wraps around onto the first 64K")


def intelhex_unit_aligned(run, R="TAB-fmt"):
    """Intel HEX records address whole units: the bit position a record starts at is a block's offset rounded down to a multiple
    of the address unit (offset - offset % unit), and its end is rounded up -- a block that starts inside a unit is not written as
    if it started on one"""
    from rules_sym import deep
    fs = [f for f in run.prog.real_fns() if f.kind == "AssocFn" and f.id.endswith("::format_intelhex")]
    if len(fs) != 1:
        run.violation(R, R + "|intelhex|unit-aligned", "-", "mechanism not found: format_intelhex")
        return
    f = fs[0]
    unit = [i for i in range(1, f.arg_count + 1) if f.local_ty(i) == "usize"]
    down = up = False
    if len(unit) == 1:
        U = "P%d" % unit[0]
        for bi, si, st in f.stmts():
            if st["k"] == "assign" and st["rv"]["k"] == "binop" and st["rv"]["op"] == "Rem" and deep(f, st["rv"]["r"], 3) == U:
                l = deep(f, st["rv"]["l"], 6)
                if l.endswith(".offset"):
                    down = True
                elif ".offset" in l and ".size" in l:
                    up = True
    run.check(down and up, R, R + "|intelhex|unit-aligned", f.loc(), "record ranges are block ranges widened to address-unit boundaries",
              "format_intelhex starts its records at the raw bit offset of a block (%s): a block that does not start on a byte / address-unit boundary (`#d8 0x11 / #d4 2 / #res 1 / #d8 0x33`; or `#res 2` between bytes with `addr_unit:16`) gets a record whose address is rounded down while its data is not shifted, so the bytes land at the wrong addresses" % ("no rounding of the start" if not down else "no rounding of the end"))
