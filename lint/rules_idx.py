"""TAB-idx (rule-prefix index vs matcher), gate audit of the two optimisation switches, conservativeness of the
static-value analysis (C08, C07)."""
import re
import mir
from mir import (peel, op_place, op_local, const_int, describe_origin, fn_uses, natural_loop, rv_places, rv_operands)
from pathsearch import Search
import tables as T


def field_touchers(prog, field):
    rd = {}
    for f in prog.real_fns():
        for bi, si, st in f.stmts():
            if st["k"] != "assign":
                continue
            for pl in list(rv_places(st["rv"])) + [st["place"]]:
                if any(isinstance(pr, dict) and pr.get("name") == field for pr in pl["p"]):
                    rd.setdefault(f.id, st["span"])
            if st["rv"]["k"] == "agg" and field in st["rv"].get("fields", []):
                rd.setdefault(f.id, st["span"])
        for bi, t in f.calls():
            for a in t["args"]:
                pl = op_place(a)
                if pl and any(isinstance(pr, dict) and pr.get("name") == field for pr in pl["p"]):
                    rd.setdefault(f.id, t["span"])
    return rd


def gates(run):
    R = "GATE"
    spec = run.table("idx")
    for field, allowed in spec["gate_readers"].items():
        got = field_touchers(run.prog, field)
        run.floor(R, "sites touching " + field, len(got), len(allowed))
        for fid, span in sorted(got.items()):
            f = run.prog.fn(fid)
            run.check(fid in allowed, R, "%s|%s|%s" % (R, field, fid), f.loc(span),
                      "%s touches opts.%s (audited site: %s)" % (fid, field, allowed.get(fid, "")),
                      "%s reads opts.%s but is not an audited site: every place where the switch can influence behaviour must be shown not to change results" % (fid, field))
        for fid in allowed:
            run.check(fid in got, R, "%s|%s|%s|present" % (R, field, fid), "-",
                      "audited site %s still touches opts.%s" % (fid, field),
                      "audited site %s no longer touches opts.%s (anchor moved: re-audit)" % (fid, field))


ANCHOR_FNS = re.compile(r"matcher::(match_with_ruledef_map|match_with_ruledef|match_with_rule|begin_match_with_rule|match_with_expr|match_with_nested_ruledef|match_instr|match_all|error_on_no_matches)$|RuledefMap::|InstructionMatch::|InstructionArgument::")


def private_helpers(f):
    """local helper functions that only f calls (a step of f's body factored out): their calls count as f's own, at the
    block of the call"""
    prog = f.prog
    out = []
    for bi, t in f.calls():
        r = t.get("resolved") or ""
        if not t.get("resolved_local") or ANCHOR_FNS.search(r):
            continue
        h = prog.fn(r)
        if h is None or h.kind != "Fn" and h.kind != "AssocFn" or len(h.blocks) > 120 or h.id == f.id:
            continue
        # same module
        if h.id.rsplit("::", 1)[0] != f.id.rsplit("::", 1)[0]:
            continue
        callers = set()
        for g in prog.real_fns():
            for b2, t2 in g.calls():
                if (t2.get("resolved") or "") == h.id:
                    callers.add(g.raw.get("root") or g.id)
        if callers <= {f.id}:
            out.append((bi, h))
    return out


def callee_names(f):
    out = [(bi, (t.get("resolved") or t.get("callee") or "")) for bi, t in f.calls()]
    # the function's own closures (and closures inside them), at the block where the outermost closure is created
    made = {}
    for bi, si, st in f.stmts():
        if st["k"] == "assign" and st["rv"]["k"] == "agg" and st["rv"].get("agg") == "closure" and st["rv"].get("closure"):
            made[st["rv"]["closure"]] = bi
    for g in f.prog.real_fns():
        if g.kind == "Closure" and g.id.startswith(f.id + "::{closure"):
            top = f.id + "::" + g.id[len(f.id) + 2:].split("::")[0]
            at = made.get(top)
            if at is None:
                continue
            for b2, t2 in g.calls():
                out.append((at, (t2.get("resolved") or t2.get("callee") or "")))
    for bi, h in private_helpers(f):
        for b2, t2 in h.calls():
            out.append((bi, (t2.get("resolved") or t2.get("callee") or "")))
        for g in f.prog.real_fns():
            if g.kind == "Closure" and g.raw.get("root") == h.id:
                for b2, t2 in g.calls():
                    out.append((bi, (t2.get("resolved") or t2.get("callee") or "")))
    return out


def _prefix_index_locals(f):
    """the locals used to index a `[char; N]` prefix array, and loop counters over prefix lengths (a range local whose
    bound is compared): recognised by use, not by name"""
    out = set()
    for bi, si, st in f.stmts():
        if st["k"] != "assign":
            continue
        from mir import rv_places
        for pl in [st["place"]] + list(rv_places(st["rv"])):
            ty = f.local_ty(pl["l"])
            for i, pr in enumerate(pl["p"]):
                if isinstance(pr, dict) and "idx" in pr and isinstance(pr["idx"], int):
                    out.add(f.copy_root(pr["idx"]))
    return out


def cap_constants(f, cap_names=("prefix_index",)):
    """integer constants the prefix index is compared with"""
    out = set()
    idx_locals = _prefix_index_locals(f)
    for bi, si, st in f.stmts():
        if st["k"] == "assign" and st["rv"]["k"] == "binop" and st["rv"]["op"] in ("Lt", "Ge", "Le", "Gt", "Eq", "Ne"):
            for a, b in ((st["rv"]["l"], st["rv"]["r"]), (st["rv"]["r"], st["rv"]["l"])):
                l = op_local(a)
                if l is not None and (f.copy_root(l) in idx_locals or f.local_name(f.copy_root(l)) in ("i", "j")):
                    c = const_eval(f, b)
                    out.add(c if c is not None else "non-constant")
    return out


def const_eval(f, op, depth=0):
    """value of an operand that is a constant or a +,-,* of constants (debug builds keep `N + 1` as checked arithmetic)"""
    c = const_int(op)
    if c is not None or depth > 6:
        return c
    o = f.origin_op(op)
    if o[0] == "place" and o[1][0] == "binop":
        o = o[1]
    if o[0] == "binop":
        a = const_eval(f, o[1]["l"], depth + 1)
        b = const_eval(f, o[1]["r"], depth + 1)
        if a is None or b is None:
            return None
        op_ = o[1]["op"].replace("WithOverflow", "")
        return {"Add": a + b, "Sub": a - b, "Mul": a * b}.get(op_)
    if o[0] == "const":
        return const_int(o[1])
    return None


def tab_idx(run):
    R = "TAB-idx"
    prog = run.prog
    ins = run.anchor(R, "RuledefMap::insert")
    rd = run.anchor(R, "RuledefMap::parse_prefix")
    qp = run.anchor(R, "RuledefMap::query_prefixed")
    build = run.anchor(R, "RuledefMap::build")
    mi = run.anchor(R, "asm::matcher::match_instr")
    pr = run.anchor(R, "directive_ruledef::parse_rule")
    if not all((ins, rd, qp, build, mi, pr)):
        return
    LOWER = "std::char::methods::<impl char>::to_ascii_lowercase"
    # (1) same case normalisation on writer, reader, stored patterns; matcher compares ignoring case
    for g, role in ((ins, "index writer"), (rd, "index reader"), (pr, "rule pattern parser")):
        # every char stored into the prefix array / pattern goes through to_ascii_lowercase
        has = any(n == LOWER for _, n in callee_names(g))
        run.check(has, R, "%s|lowercase|%s" % (R, g.id), g.loc(), "%s (%s) lower-cases characters with to_ascii_lowercase" % (g.id, role),
                  "%s (%s) does not lower-case characters: the index / stored pattern would be case-sensitive while the matcher is not" % (g.id, role))
    # stores into the prefix array: the stored value originates from to_ascii_lowercase
    for g in (ins, rd):
        bad = 0
        n = 0
        for bi, si, st in g.stmts():
            if st["k"] == "assign" and st["place"]["p"] and any(isinstance(p_, dict) and "idx" in p_ for p_ in st["place"]["p"]) and g.local_ty(st["place"]["l"]).startswith("[char;"):
                n += 1
                o = peel(g.origin_op(st["rv"]["op"])) if st["rv"]["k"] == "use" else None
                if not (o and o[0] == "call" and (o[1].get("callee") or "") == LOWER):
                    bad += 1
        run.check(n > 0 and bad == 0, R, "%s|lowercase-store|%s" % (R, g.id), g.loc(),
                  "%s: every character stored into the prefix comes from to_ascii_lowercase (%d store(s))" % (g.id, n),
                  "%s stores a character into the prefix that did not pass through to_ascii_lowercase" % g.id)
    for name in ("Walker::<'src>::maybe_expect_char", "Walker::<'src>::find_lookahead_char_index"):
        g = run.anchor(R, name)
        if g:
            ok = any(n.endswith("eq_ignore_ascii_case") for _, n in callee_names(g))
            # no primitive == on chars
            prim = [st for bi, si, st in g.stmts() if st["k"] == "assign" and st["rv"]["k"] == "binop" and st["rv"]["op"] in ("Eq", "Ne") and st["rv"].get("lty") == "char"
                    and const_int(st["rv"]["r"]) is None and const_int(st["rv"]["l"]) is None]
            run.check(ok and not prim, R, "%s|ignore-case|%s" % (R, g.id), g.loc(), "%s compares pattern characters with eq_ignore_ascii_case" % g.id,
                      "%s compares pattern characters case-sensitively" % g.id)
    # (2) same cap
    caps = {}
    for g in (ins, rd, qp):
        cs = cap_constants(g, ("prefix_index", "i", "j"))
        arr = set()
        for l in g.locals:
            m = re.match(r"^\[char; (\d+)\]$", l["ty"])
            if m:
                arr.add(int(m.group(1)))
        caps[g.id] = (cs, arr)
    arrs = set()
    for cs, arr in caps.values():
        arrs |= arr
    run.check(len(arrs) == 1, R, R + "|cap|array", ins.loc(), "writer, reader and query use one prefix length %s" % sorted(arrs), "prefix array lengths differ: %s" % caps)
    if len(arrs) == 1:
        cap = list(arrs)[0]
        for g in (ins, rd):
            cs, _ = caps[g.id]
            run.check(cs == {cap}, R, "%s|cap|%s" % (R, g.id), g.loc(), "%s stops at exactly %d characters" % (g.id, cap),
                      "%s compares its prefix length with %s, the prefix holds %d characters: writer and reader would disagree on truncation" % (g.id, sorted(cs), cap))
        # (5) query probes lengths 0..=cap
        rng = None
        for bi, si, st in qp.stmts():
            if st["k"] == "assign" and st["rv"]["k"] == "agg" and st["rv"].get("agg") == "adt" and st["rv"]["adt"].endswith("ops::Range"):
                a = const_int(st["rv"]["ops"][0])
                b = const_eval(qp, st["rv"]["ops"][1])
                if a == 0 and b is not None:
                    rng = (a, b) if rng is None or b > rng[1] else rng
        run.check(rng == (0, cap + 1), R, R + "|probe-all-lengths", qp.loc(), "query_prefixed probes every prefix length 0..=%d" % cap,
                  "query_prefixed iterates %s, expected 0..%d: rules indexed under some prefix length would never be found" % (rng, cap + 1))
    # (5b) every bucket that was found is kept: the only writes into the result array are the hits of the map lookup
    bad_w = []
    nw = 0
    for bi, si, st in qp.stmts():
        if st["k"] == "assign" and st["place"]["p"] and any(isinstance(p_, dict) and ("idx" in p_ or "cidx" in p_) for p_ in st["place"]["p"]) \
                and "RuledefMapEntry" in qp.local_ty(st["place"]["l"]):
            nw += 1
            o = qp.origin_op(st["rv"]["op"]) if st["rv"]["k"] in ("use", "cast") else ("other",)
            d = describe_origin(qp, o)
            if not ("HashMap" in d and "get" in d):
                bad_w.append((st["span"]["line"], d))
    # ... and the array as a whole is only initialised before the probing loop, never again inside it
    in_loop = set()
    for h in qp.reachable():
        in_loop |= natural_loop(qp, h)
    for bi, si, st in qp.stmts():
        if st["k"] == "assign" and not st["place"]["p"] and "RuledefMapEntry" in qp.local_ty(st["place"]["l"]) and qp.local_ty(st["place"]["l"]).startswith("[") \
                and bi in in_loop:
            bad_w.append((st["span"]["line"], "whole result array re-assigned inside the loop"))
    run.check(nw >= 1 and not bad_w, R, R + "|buckets-kept", qp.loc(), "query_prefixed only ever stores map hits into its result (%d store site(s)): no bucket is dropped" % nw,
              "query_prefixed overwrites result buckets with something other than a map hit (line %s): candidates of some prefix length would be dropped, so the index is no longer a superset of the full scan" % [x[0] for x in bad_w])
    # (4) reader and pattern parser admit tokens by the same predicate
    for g, role in ((rd, "index reader"), (pr, "rule pattern parser")):
        ok = any(n.endswith("TokenKind::is_allowed_pattern_token") for _, n in callee_names(g))
        run.check(ok, R, "%s|allowed-token|%s" % (R, g.id), g.loc(), "%s (%s) admits tokens with is_allowed_pattern_token" % (g.id, role),
                  "%s (%s) does not use is_allowed_pattern_token: reader and pattern parser would classify tokens differently" % (g.id, role))
    # (3) reader steps over the tokens the matcher steps over
    names = [n for _, n in callee_names(rd)]
    skips = any(n.endswith("next_nth_useful_token") or n.endswith("TokenKind::is_ignorable") for n in names)
    run.check(skips, R, "%s|reader-skips-ignorable|%s" % (R, rd.id), rd.loc(),
              "the index reader skips whitespace/comment tokens like the matcher does",
              "the index reader (parse_prefix) fetches raw tokens and stops at the first blank or comment, while the matcher (match_with_rule) skips them between literal pattern parts: with the index a line like `ld . w 5` finds no rule, without it (--debug-no-optimize-matcher) it matches `ld.w {x}`")
    # sibling agreement: index builder and full scan visit the same rule blocks (skip sub-rule blocks)
    for g, role in ((build, "index builder"), (mi, "full scan")):
        sw = False
        for b in g.reachable():
            t = g.blocks[b]["term"]
            if t["k"] == "switch" and op_local(t["discr"]) is not None:
                d = describe_origin(g, g.origin_local(g.copy_root(op_local(t["discr"]))))
                if d.endswith(".is_subruledef"):
                    sw = True
        run.check(sw, R, "%s|skip-subruledefs|%s" % (R, g.id), g.loc(), "%s (%s) skips sub-rule blocks" % (g.id, role),
                  "%s (%s) no longer tests is_subruledef: index and full scan would consider different rule blocks" % (g.id, role))
    # the index is consulted only on the switch's true edge and the full scan on its false edge
    sw = None
    for b in mi.reachable():
        t = mi.blocks[b]["term"]
        if t["k"] == "switch" and op_local(t["discr"]) is not None:
            d = describe_origin(mi, mi.origin_local(mi.copy_root(op_local(t["discr"]))))
            if d.endswith(".optimize_instruction_matching"):
                sw = (b, t)
    if sw is None:
        run.violation(R, R + "|gate-switch", mi.loc(), "mechanism not found: branch on optimize_instruction_matching in match_instr")
    else:
        b, t = sw
        ft = [tg for v, tg in t["targets"] if v == "0"][0]
        treg = T.dominated_region(mi, t["otherwise"], b)
        freg = T.dominated_region(mi, ft, b)
        idx_calls = [bi for bi, n in callee_names(mi) if n.endswith("match_with_ruledef_map")]
        scan_calls = [bi for bi, n in callee_names(mi) if n.endswith("matcher::match_with_ruledef")]
        ok = idx_calls and scan_calls and all(x in treg for x in idx_calls) and all(x in freg for x in scan_calls)
        run.check(bool(ok), R, R + "|gate-arms", mi.loc(), "match_instr: index lookup on the switch's true edge, full scan on its false edge, nothing else depends on the switch",
                  "match_instr: the index lookup / full scan are not confined to the two edges of optimize_instruction_matching")
        # everything after the join (dedup, exact-count filter) is shared
        post = [bi for bi, n in callee_names(mi) if n.endswith("get_recursive_exact_part_count") or n.endswith("InstructionMatch::is_same")]
        run.check(bool(post) and all(x not in treg and x not in freg for x in post), R, R + "|gate-shared-tail", mi.loc(),
                  "duplicate removal and the literal-part filter run on both paths", "duplicate removal / literal-part filter are applied on one path of the switch only")


# ---------------------------------------------------------------------------
# conservativeness of is_value_statically_known

def expr_children(prog):
    adt = prog.adts.get("expr::expression::Expr")
    out = {}
    if not adt:
        return out
    for v in adt["variants"]:
        ch = []
        for i, fld in enumerate(v["fields"]):
            if re.search(r"(Box|Vec)<expr::expression::Expr>", fld["ty"]):
                ch.append(str(i))
        out[v["name"]] = ch
    return out


def desc_through_iter(f, op):
    extra = {"std::iter::Iterator::next", "std::iter::IntoIterator::into_iter", "core::slice::<impl [T]>::iter", "std::vec::Vec::<T, A>::iter",
             "std::boxed::Box::<T, A>::as_ref", "std::convert::AsRef::as_ref"}
    old = set(mir.TRANSPARENT_CALLEES)
    mir.TRANSPARENT_CALLEES |= extra
    try:
        return describe_origin(f, f.origin_op(op))
    finally:
        mir.TRANSPARENT_CALLEES.clear()
        mir.TRANSPARENT_CALLEES |= old


def static_known(run):
    R = "SK"
    prog = run.prog
    f = run.anchor(R, "Expr>::is_value_statically_known")
    if f is None:
        return
    spec = run.table("idx")["statically_known"]
    children = expr_children(prog)
    sw = T.enum_switch_arms(f, "expression::Expr")
    if not sw:
        run.violation(R, R + "|anchor|switch", f.loc(), "mechanism not found: match on the Expr variant in is_value_statically_known")
        return
    bi0, arms, otherwise, place, variants = sw[0]
    run.floor(R, "Expr variants", len(variants), 10)
    # no catch-all arm: every variant has its own target
    missing = [v for v in variants.values() if v not in arms]
    run.check(not missing and f.blocks[otherwise]["term"]["k"] == "unreachable", R, R + "|exhaustive", f.loc(),
              "every Expr variant has its own arm (a new variant cannot default to `known`)", "variants %s fall into a default arm" % missing)
    # recursive call results -> child index
    rec = {}   # dest local -> (variant, child)
    for bi, t in f.calls():
        if (t.get("resolved") or "") == f.id and not t["dest"]["p"] and t["args"]:
            d = desc_through_iter(f, t["args"][0])
            m = re.search(r"@(\w+)\.(\d+)", d)
            if m:
                rec[t["dest"]["l"]] = (m.group(1), m.group(2), bi)
    def all_children_call(t):
        """`children.iter().all(|e| e.is_value_statically_known(provider))`: the answer for the whole child vector"""
        if not (t.get("callee") or "").endswith("iter::Iterator::all") or len(t["args"]) < 2:
            return None
        from mir import closure_of_origin
        from rules_sym import deep as _dp
        g = prog.fn(closure_of_origin(f.origin_op(t["args"][1])) or "")
        if g is None:
            return None
        inner = [t2 for _, t2 in g.calls() if (t2.get("resolved") or "") == f.id]
        if len(inner) != 1 or inner[0]["dest"]["l"] != 0 or inner[0]["dest"]["p"] or _dp(g, inner[0]["args"][0], 3) not in ("P2", "*P2"):
            return None
        m_ = re.search(r"@(\w+)\.(\d+)", desc_through_iter(f, t["args"][0]))
        return (m_.group(1), m_.group(2)) if m_ else None
    for bi, t in f.calls():
        ac = all_children_call(t)
        if ac and not t["dest"]["p"]:
            rec[t["dest"]["l"]] = (ac[0], ac[1], bi)
    prov = set()   # dest locals of provider / builtin queries
    for bi, t in f.calls():
        if not t["dest"]["p"] and f.local_ty(t["dest"]["l"]) == "bool" and t["dest"]["l"] not in rec:
            prov.add(t["dest"]["l"])
    for v in sorted(variants.values()):
        entry = arms.get(v)
        if entry is None:
            continue
        kids = children.get(v, [])
        kind = spec.get(v, "children")
        if isinstance(kind, dict):
            kids = kind.get("children", kids)
            kind = kind["kind"]

        def step(b, st, v=v, kids=kids):
            conf, val = st
            blk = f.blocks[b]
            for s in blk["stmts"]:
                if s["k"] == "assign" and s["place"]["l"] == 0 and not s["place"]["p"]:
                    rv = s["rv"]
                    if rv["k"] == "use":
                        c = const_int(rv["op"])
                        if c is not None:
                            val = ("const", c)
                        else:
                            l = op_local(rv["op"])
                            r0 = f.copy_root(l) if l is not None else None
                            if r0 in rec:
                                val = ("child", rec[r0][1])
                            elif r0 in prov:
                                val = ("provider",)
                            else:
                                dd = describe_origin(f, f.origin_op(rv["op"]))
                                val = ("provider",) if dd.endswith(".value_known") else ("other", dd)
                    else:
                        val = ("other", rv["k"])
            t = blk["term"]
            k = t["k"]
            if k == "return":
                return [("return", (conf, val))]
            if k in ("goto", "drop", "assert"):
                return [(t["target"], (conf, val))]
            if k == "call":
                if t["target"] is None:
                    return []
                if not t["dest"]["p"] and t["dest"]["l"] == 0:
                    r0 = 0
                    if (t.get("resolved") or "") == f.id:
                        d = desc_through_iter(f, t["args"][0])
                        m = re.search(r"@(\w+)\.(\d+)", d)
                        val = ("child", m.group(2)) if m else ("other", "recursive")
                    elif all_children_call(t):
                        val = ("child", all_children_call(t)[1])
                    else:
                        val = ("provider",)
                return [(t["target"], (conf, val))]
            if k == "switch":
                dl = op_local(t["discr"])
                r0 = f.copy_root(dl) if dl is not None else None
                outs = []
                neg = False
                if dl is not None:
                    o = f.origin_local(dl)
                    if o[0] == "unop" and o[1]["op"] == "Not" and op_local(o[1]["x"]) is not None:
                        r0 = f.copy_root(op_local(o[1]["x"]))
                        neg = True
                for vv, tg in list(t["targets"]) + [("else", t["otherwise"])]:
                    nconf = conf
                    if r0 in rec:
                        truth = (vv != "0")
                        if neg:
                            truth = not truth
                        if truth:
                            nconf = conf | frozenset([rec[r0][1]])
                    else:
                        # iterator exhausted over a Vec child: the None edge confirms that child
                        if dl is not None:
                            o = f.origin_local(dl)
                            if o[0] == "discr":
                                src = peel(o[1])
                                if src[0] == "call" and (src[1].get("callee") or "") == "std::iter::Iterator::next" and vv == "0":
                                    d = desc_through_iter(f, src[1]["args"][0])
                                    m = re.search(r"@(\w+)\.(\d+)", d)
                                    if m:
                                        nconf = conf | frozenset([m.group(2)])
                    outs.append((tg, (nconf, val)))
                return outs
            return []

        S = Search(f, (frozenset(), None), step) if False else None
        # search restricted to the arm: start at the arm's entry block
        class ArmSearch(Search):
            pass
        res_states = []
        seen = set()
        work = [(entry, (frozenset(), None))]
        while work:
            b, st = work.pop()
            if (b, st) in seen:
                continue
            seen.add((b, st))
            for item in step(b, st):
                if item[0] == "return":
                    res_states.append(item[1])
                else:
                    work.append(item)
        bad = []
        for conf, val in res_states:
            if val is None:
                continue
            if val[0] == "const" and val[1] == 0:
                continue
            got = set(conf)
            if val[0] == "child":
                got.add(val[1])
            if kind == "never":
                bad.append("can return %s" % (val,))
            elif kind == "literal":
                continue
            elif kind in ("children", "provider"):
                if val[0] == "other":
                    bad.append("returns a value of unrecognised origin %s" % (val[1],))
                elif val[0] == "provider" and kind != "provider":
                    bad.append("returns a provider/builtin answer")
                elif set(kids) - got and not (kind == "provider" and val[0] == "provider" and v == "Variable"):
                    bad.append("can return `known` with child operand(s) %s unchecked" % sorted(set(kids) - got))
        run.check(not bad, R, "%s|variant|%s" % (R, v), f.loc(),
                  "Expr::%s is reported statically known only %s" % (v, {"never": "never", "literal": "as a literal", "children": "when every child operand is", "provider": "through the provider/builtin answer with every argument known"}[kind]),
                  "Expr::%s: %s: a value that depends on an address or forward reference would be frozen after the first pass when the static optimisation is on, and not when it is off" % (v, "; ".join(sorted(set(bad)))))


def promoted_variant(prog, f, op):
    """variant name when the operand refers to a promoted constant holding a field-less enum value"""
    o = peel(f.origin_op(op))
    if o[0] == "agg" and o[1].get("agg") == "adt":
        return o[1].get("variant")
    if o[0] == "const":
        m = re.search(r"promoted\[(\d+)\]", o[1].get("const", ""))
        if m:
            pf = prog.fn("%s::{promoted#%s}" % (f.raw["owner"], m.group(1)))
            if pf is not None:
                for bi, si, st in pf.stmts():
                    if st["k"] == "assign" and st["rv"]["k"] == "agg" and st["rv"].get("agg") == "adt":
                        return st["rv"].get("variant")
    return None


def match_shape(run):
    """C07: the matcher's own treatment of case, blanks and rule order"""
    R = "MATCH"
    prog = run.prog
    mw = run.anchor(R, "matcher::match_with_rule")
    mi = run.anchor(R, "asm::matcher::match_instr")
    mec = run.anchor(R, "Walker::<'src>::maybe_expect_char")
    if not (mw and mi and mec):
        return
    sw = T.enum_switch_arms(mw, "RulePatternPart")
    if not sw:
        run.violation(R, R + "|anchor|parts", mw.loc(), "mechanism not found: match on the pattern part kind in match_with_rule")
        return
    b0, arms, otherwise, place, variants = sw[0]
    run.floor(R, "pattern part kinds", len(variants), 3)
    # Exact parts: through maybe_expect_char (skips blanks/comments, ignores case)
    reg = T.dominated_region(mw, arms.get("Exact"), b0) if "Exact" in arms else set()
    ok = any((t.get("resolved") or "").endswith("maybe_expect_char") for b, t in T.region_calls(mw, reg))
    run.check(ok, R, R + "|exact-part", mw.loc(), "literal pattern parts are matched with Walker::maybe_expect_char",
              "literal pattern parts are not matched through maybe_expect_char (blank skipping / case folding would be lost)")
    ok = any((t.get("resolved") or "").endswith("next_useful_index") for b, t in mec.calls())
    run.check(ok, R, R + "|exact-skips-blanks", mec.loc(), "maybe_expect_char looks at the next useful character (blanks and comments skipped)",
              "maybe_expect_char does not skip blanks/comments before comparing")
    # Whitespace parts: require a Whitespace token (or end of input)
    reg = T.dominated_region(mw, arms.get("Whitespace"), b0) if "Whitespace" in arms else set()
    calls = [(t.get("resolved") or "") for b, t in T.region_calls(mw, reg)]
    cmpc = [(t.get("callee") or "") for b, t in T.region_calls(mw, reg)]
    has_tok = any(c.endswith("next_token") for c in calls) and any(c in ("std::cmp::PartialEq::ne", "std::cmp::PartialEq::eq") for c in cmpc)
    kinds = set()
    for b, t in T.region_calls(mw, reg):
        for a in t["args"]:
            v = promoted_variant(prog, mw, a)
            if v:
                kinds.add(v)
    for b in reg:
        for st in mw.blocks[b]["stmts"]:
            if st["k"] == "assign" and st["rv"]["k"] == "agg" and st["rv"].get("adt", "").endswith("TokenKind") and st["rv"].get("variant"):
                kinds.add(st["rv"]["variant"])
    uses_ws = "Whitespace" in kinds
    run.check(has_tok and uses_ws, R, R + "|whitespace-part", mw.loc(), "whitespace pattern parts require a Whitespace token",
              "whitespace pattern parts no longer test for a Whitespace token")
    # a block comment written where the pattern has a blank separates tokens as well (F38)
    run.check(has_tok and kinds >= {"Whitespace", "Comment"} and not (kinds - {"Whitespace", "Comment"}), R, R + "|whitespace-part|comment-too", mw.loc(),
              "a whitespace pattern part accepts a Whitespace or a Comment token, nothing else",
              "a whitespace pattern part accepts the token kinds %s, expected exactly Whitespace and Comment: a block comment directly after a word (`add;*c*; 1`) would make the line fail to match (or another token kind would be taken for a separator)" % sorted(kinds))
    # selection independent of rule order: dedup, then keep only the maximum literal-part count
    names = [n for _, n in callee_names(mi)]
    run.check(any(n.endswith("InstructionMatch::is_same") for n in names), R, R + "|dedup", mi.loc(), "duplicate matches are removed with is_same", "duplicate removal (is_same) is gone")
    run.check(any(re.search(r"Iterator::(max_by_key|max|fold|reduce)$", n) or n.endswith("cmp::max") for n in names) and any(re.search(r"::(retain|retain_mut|filter)$", n) for n in names), R, R + "|max-exact", mi.loc(),
              "only matches with the maximum literal-part count are kept (max_by_key + retain)", "the literal-part filter (max_by_key + retain on exact_part_count) is gone: a rule spelling an operand literally would no longer take precedence")
    # the key of max_by_key and of retain is exact_part_count
    keyed = 0
    fam_ids = {mi.id} | {h.id for _, h in private_helpers(mi)}
    for g in prog.real_fns():
        if g.kind == "Closure" and (g.raw.get("parent") in fam_ids or g.raw.get("root") in fam_ids):
            for bi, si, st in g.stmts():
                if st["k"] == "assign":
                    for pl in rv_places(st["rv"]):
                        if any(isinstance(pr, dict) and pr.get("name") == "exact_part_count" for pr in pl["p"]):
                            keyed += 1
    run.check(keyed >= 2, R, R + "|max-exact-key", mi.loc(), "both the maximum and the filter are keyed on exact_part_count", "the selection closures no longer read exact_part_count")


def loop_must_call(f, call_block):
    """for the innermost loop around call_block: can an iteration (from the `Some` edge of its iterator) get back to the loop
    header, or leave the loop normally, without passing call_block?  returns None when fine, else a description"""
    from mir import natural_loop
    best = None
    for h in sorted(f.reachable()):
        l_ = natural_loop(f, h)
        if call_block in l_ and (best is None or len(l_) < len(best[1])):
            best = (h, l_)
    if best is None:
        return "the call is not inside a loop"
    h, loop = best
    seen = set()
    work = [h]
    # walk from the header; stop at the call
    while work:
        x = work.pop()
        if x in seen or x == call_block:
            continue
        seen.add(x)
        for s_ in f.succs(x):
            if f.blocks[s_]["cleanup"] or f.blocks[s_]["term"]["k"] == "unreachable":
                continue
            if s_ == h and x != h:
                # back at the header without the call; fine only if nothing was taken from the iterator on this walk,
                # i.e. the walk went header -> ... -> header purely through the iterator protocol (never happens)
                return "an iteration can skip the call (back edge from the block at line %s)" % f.blocks[x]["term"].get("span", {}).get("line")
            if s_ in loop:
                work.append(s_)
    return None


def loop_leaves_early(f, call_block):
    """for the innermost loop around call_block: once the call was made in an iteration, can control leave the loop (other
    than by unwinding) without going back to the header, i.e. end the loop before the iterator is exhausted?  None when not"""
    from mir import natural_loop
    best = None
    for h in sorted(f.reachable()):
        l_ = natural_loop(f, h)
        if call_block in l_ and (best is None or len(l_) < len(best[1])):
            best = (h, l_)
    if best is None:
        return "the call is not inside a loop"
    h, loop = best
    seen, work = set(), [call_block]
    while work:
        x = work.pop()
        if x in seen:
            continue
        seen.add(x)
        for s_ in f.succs(x):
            if f.blocks[s_]["cleanup"] or f.blocks[s_]["term"]["k"] == "unreachable" or s_ == h:
                continue
            if s_ not in loop:
                return "the loop can end before every candidate was tried (exit after the block at line %s)" % f.blocks[x]["term"].get("span", {}).get("line")
            work.append(s_)
    return None


def exact_count_recursive(run, R="MATCH"):
    """the priority of a match counts the literally spelled parts at *every* nesting depth: the function that computes it (or a
    closure it owns) calls itself on the match held by a Nested argument, and reads the rule's own exact_part_count"""
    name = "asm::matcher::get_recursive_exact_part_count"
    f = run.anchor(R, name)
    if f is None:
        return
    from rules_sym import deep
    fam = [g for g in run.prog.real_fns() if g.id == f.id or g.id.startswith(f.id + "::{closure")]
    selfc, own = [], 0
    for g in fam:
        for bi, t in g.calls():
            if (t.get("resolved") or t.get("callee") or "") == f.id:
                try:
                    selfc.append(any("@Nested" in str(deep(g, a, d=5)) for a in t["args"]))
                except Exception:
                    selfc.append(False)
        for bi, si, st in g.stmts():
            if "exact_part_count" in str(st):
                own += 1
    ok = bool(selfc) and all(selfc) and own >= 1
    if not selfc and own >= 1:
        # an explicit work list instead of recursion: nested matches are pushed onto a stack inside the loop that drains it
        from mir import natural_loop
        for g in fam:
            loops = [natural_loop(g, h) for h in sorted(g.reachable())]
            for bi, t in g.calls():
                if re.search(r"Vec::<.*>::(push|extend|extend_from_slice)$|VecDeque::<.*>::push_back$", t.get("callee") or "") and any(bi in l_ for l_ in loops):
                    try:
                        if any("@Nested" in str(deep(g, a, d=6)) for a in t["args"][1:]):
                            ok = True
                    except Exception:
                        pass
    run.check(ok, R, R + "|exact-count-recursive", f.loc(), "the exact-part count of a match descends into every nested match (self-call on the Nested payload) and adds the rule's own count",
              "get_recursive_exact_part_count: %d self-call(s) on a Nested argument's match, %d read(s) of exact_part_count: literal parts two or more sub-rule levels deep would no longer count, so a literally spelled operand there stops out-ranking an expression reading of the same text" % (sum(1 for x in selfc if x), own))


def exact_count_definition(run, R="MATCH"):
    """the priority key `exact_part_count` of a rule is the number of its Exact pattern parts: a counter that starts at 0 and
    is incremented by 1 only in the Exact arm of the pattern-part match (blanks and parameters do not count)"""
    f = run.anchor(R, "asm::defs::ruledef::resolve_rule")
    if f is None:
        return
    ok, why = False, "no Rule aggregate with an exact_part_count field"
    for bi, si, st in f.stmts():
        if st["k"] == "assign" and st["rv"]["k"] == "agg" and str(st["rv"].get("adt", "")).endswith("ruledef::Rule") and "exact_part_count" in (st["rv"].get("fields") or []):
            op = st["rv"]["ops"][st["rv"]["fields"].index("exact_part_count")]
            l = op_local(op)
            root = f.copy_root(l) if l is not None else None
            ds = f.full_defs(root) if root is not None else []
            arms = None
            for b, a, oth, pl, vs in T.enum_switch_arms(f, "AstRulePatternPart"):
                if "Exact" in a:
                    arms = (b, a)
            inits = [d for d in ds if d[0] == "stmt" and d[3]["rv"]["k"] == "use" and const_int(d[3]["rv"]["op"]) == 0]
            incs = []
            other = []
            for d in ds:
                if d in inits:
                    continue
                o = f.origin_local(root) if False else None
                if d[0] == "stmt" and d[3]["rv"]["k"] == "use":
                    src = peel(f.origin_op(d[3]["rv"]["op"]))
                    if src and src[0] == "place" and src[1][0] == "binop":
                        src = src[1]
                    if src and src[0] == "binop" and src[1]["op"].startswith("Add") and const_int(src[1]["r"]) == 1 and op_local(src[1]["l"]) is not None and f.copy_root(op_local(src[1]["l"])) == root:
                        incs.append(d)
                        continue
                other.append(d)
            if arms is None:
                why = "the match on the pattern part kind was not found"
            elif len(inits) != 1 or not incs or other:
                why = "the value stored is not a counter that starts at 0 and is only incremented by 1 (%d init, %d increment(s), %d other definition(s))" % (len(inits), len(incs), len(other))
            else:
                reg = T.dominated_region(f, arms[1]["Exact"], arms[0])
                ok = all(d[1] in reg for d in incs)
                why = "the counter is incremented outside the Exact arm of the pattern-part match"
    run.check(ok, R, R + "|exact-count", f.loc(), "exact_part_count counts the Exact pattern parts only",
              "resolve_rule: %s: a rule written with more blanks (or more parameters) would out-rank a rule that spells the operand literally" % why)


def candidates_all_matched(run, R="TAB-idx"):
    """both candidate loops (index path and full scan) hand every candidate to begin_match_with_rule and keep every result:
    the index path may filter by the prefix index only"""
    prog = run.prog
    for name in ("matcher::match_with_ruledef_map", "matcher::match_with_ruledef"):
        f = run.anchor(R, name)
        if f is None:
            continue
        cb = [bi for bi, t in f.calls() if (t.get("resolved") or "").endswith("matcher::begin_match_with_rule")]
        ex = [bi for bi, t in f.calls() if re.search(r"(Extend::extend|Vec::<.*>::(push|append|extend_from_slice))$", t.get("callee") or "")]
        ok = len(cb) == 1 and len(ex) >= 1
        why = "%d call(s) of begin_match_with_rule, %d collection(s) of its result" % (len(cb), len(ex))
        if ok:
            w1 = loop_must_call(f, cb[0])
            w2 = loop_must_call(f, ex[0])
            w3 = loop_leaves_early(f, cb[0])
            ok = w1 is None and w2 is None and w3 is None
            why = w1 or w2 or w3
        run.check(ok, R, "%s|all-candidates|%s" % (R, name.rsplit("::", 1)[-1]), f.loc(), "%s tries every candidate rule and keeps every match" % name.rsplit("::", 1)[-1],
                  "%s: %s: a candidate rule could be skipped on one of the two matcher paths only, so --debug-no-optimize-matcher would change the result" % (name, why))


def lookahead_both(run, R="MATCH"):
    """an expression argument followed by a literal character is parsed both ways: up to the end, and up to the next
    occurrence of that character; dropping either attempt loses valid matches (`ld "a,", 4`; `{x} if {y}`)"""
    from mir import natural_loop
    f = run.anchor(R, "matcher::match_with_rule")
    if f is None:
        return
    me = [(bi, t) for bi, t in f.calls() if (t.get("resolved") or "").endswith("matcher::match_with_expr")] + \
         [(bi, t) for bi, t in f.calls() if (t.get("resolved") or "").endswith("matcher::match_with_nested_ruledef")]
    n = 0
    ok = bool(me)
    why = "no expression / nested-rule attempts found"
    for bi, t in me:
        # the innermost loop around the attempt iterates over an array constant holding both false and true
        best = None
        for h in sorted(f.reachable()):
            l_ = natural_loop(f, h)
            if bi in l_ and (best is None or len(l_) < len(best)):
                best = l_
        arrs = []
        if best:
            for b2, t2 in f.calls():
                if (t2.get("callee") or "").endswith("IntoIterator::into_iter") and (t2.get("arg_tys") or [""])[0] == "[bool; 2]":
                    if any(f.dominates(b2, x) for x in best):
                        o = f.origin_op(t2["args"][0])
                        while o and o[0] in ("ref", "cast"):
                            o = o[1]
                        vals = None
                        if o and o[0] == "agg" and o[1].get("agg") == "array":
                            vals = [const_int(x) for x in o[1]["ops"]]
                        arrs.append(vals)
        n += 1
        if not any(v is not None and sorted(v) == [0, 1] for v in arrs):
            ok = False
            why = "the attempt at line %s is not made for both `lookahead off` and `lookahead on`" % t["span"]["line"]
    run.check(ok, R, R + "|lookahead-both", f.loc(), "every expression / nested-rule argument is attempted both without and with the lookahead limit (%d attempts)" % n,
              "match_with_rule: %s" % why)


def match_identity(run, R="MATCH"):
    """two matches are `the same` only when they come from the same rule block, the same rule and the same arguments: the
    fields compared by InstructionMatch::is_same"""
    from rules_sym import deep
    prog = run.prog
    f = run.anchor(R, "matcher::InstructionMatch::is_same")
    if f is None:
        return
    fns = [f] + [g for g in prog.real_fns() if g.kind == "Closure" and (g.raw.get("root") == f.id)]
    compared = set()
    for g in fns:
        for bi, si, st in g.stmts():
            if st["k"] == "assign" and st["rv"]["k"] == "binop" and st["rv"]["op"] == "Eq":
                l, r = deep(g, st["rv"]["l"], 4), deep(g, st["rv"]["r"], 4)
                m1, m2 = re.match(r"^(?:Vec::len\()?P(\d)\.(\w+)", l), re.match(r"^(?:Vec::len\()?P(\d)\.(\w+)", r)
                if m1 and m2 and m1.group(2) == m2.group(2) and m1.group(1) != m2.group(1):
                    compared.add(m1.group(2) + (".len" if l.startswith("Vec::len") else ""))
        for bi, t in g.calls():
            if (t.get("resolved") or "").endswith("InstructionArgument::is_same"):
                compared.add("args.each")
    want = {"ruledef_ref", "rule_ref", "args.len", "args.each"}
    run.check(want <= compared, R, R + "|identity", f.loc(), "matches are identified by rule block, rule and arguments (%s)" % sorted(compared),
              "InstructionMatch::is_same no longer compares %s: matches of different rules would be merged as duplicates, so an ambiguity between them is not reported (or one of them is dropped)" % sorted(want - compared))


def sk_provider(run):
    """the providers that feed is_value_statically_known answer `known` only from audited sources"""
    R = "SK"
    prog = run.prog
    spec = run.table("idx")["providers"]
    n = 0
    for f in prog.real_fns():
        for bi, si, st in f.stmts():
            if st["k"] != "assign" or not st["place"]["p"]:
                continue
            last = st["place"]["p"][-1]
            if not (isinstance(last, dict) and last.get("name") in ("query_variable", "query_function")):
                continue
            if "StaticallyKnownProvider" not in f.local_ty(st["place"]["l"]):
                continue
            n += 1
            fld = last["name"]
            o = peel(f.origin_op(st["rv"]["op"])) if st["rv"]["k"] in ("use", "cast") else ("other",)
            from mir import closure_of_origin
            cid = closure_of_origin(o)
            if cid is None and o[0] == "const":
                # `&fn_item` promoted to a constant
                m = re.search(r"promoted\[(\d+)\]", o[1].get("const", ""))
                if m:
                    pf = prog.fn("%s::{promoted#%s}" % (f.raw["owner"], m.group(1)))
                    if pf is not None:
                        for b2, s2, st2 in pf.stmts():
                            for op2 in rv_operands(st2["rv"]):
                                if "fn" in op2:
                                    cid = op2["fn"]
            key = "SK|provider|%s|%s" % (f.id, fld)
            if cid is None:
                run.violation(R, key, f.loc(st["span"]), "%s installs a %s callback of unrecognised origin" % (f.id, fld))
                continue
            if fld == "query_function":
                run.check(cid in spec["query_function"], R, key, f.loc(st["span"]),
                          "%s: function queries are answered by %s (audited)" % (f.id, cid),
                          "%s: function queries are answered by `%s`, not by the audited builtin table: calls whose value depends on addresses or symbols would be frozen as statically known" % (f.id, cid))
            else:
                g = prog.fn(cid)
                ok = g is not None and _returns_only(g, (".value_statically_known",))
                run.check(ok, R, key, f.loc(st["span"]),
                          "%s: variable queries return false or the symbol's value_statically_known flag" % f.id,
                          "%s: the variable-query callback can answer `known` from something other than the symbol's value_statically_known flag" % f.id)
    run.floor(R, "provider callbacks installed", n, 2)
    # default provider answers false
    d = run.anchor(R, "StaticallyKnownProvider::<'a>::new")
    if d:
        for g in prog.real_fns():
            if g.kind == "Closure" and g.raw.get("parent") == d.id:
                run.check(_returns_only(g, ()), R, "SK|provider|default|" + g.id.rsplit("::", 1)[-1], g.loc(), "default provider callback answers false", "a default provider callback can answer `known`")
    # the builtin table
    b = run.anchor(R, "eval_fn::get_statically_known_builtin_fn")
    if b:
        got = {}
        for a in T.str_eq_arms(b):
            val = None
            for bb in _straight(b, a["true"]):
                for st in b.blocks[bb]["stmts"]:
                    if st["k"] == "assign" and st["place"]["l"] == 0 and st["rv"]["k"] == "use":
                        val = const_int(st["rv"]["op"])
            got[a["lit"]] = val
        run.check(got == spec["static_builtins"], R, "SK|builtin-table", b.loc(), "statically known builtin functions: %s" % sorted(k for k, v in got.items() if v),
                  "the table of statically known builtin functions is %s, audited %s" % (got, spec["static_builtins"]))
        # every other name (user functions, unknown names) is answered `not known`: `true` is only assigned on a listed name's edge
        named = set()
        for a in T.str_eq_arms(b):
            named |= set(_straight(b, a["true"]))
        loose = [b.loc(st["span"]) for bb, si, st in b.stmts() if st["k"] == "assign" and st["place"]["l"] == 0 and not st["place"]["p"]
                 and not (st["rv"]["k"] == "use" and const_int(st["rv"]["op"]) == 0) and bb not in named]
        run.check(not loose, R, "SK|builtin-table|default-false", b.loc(), "a function name outside the table is never statically known",
                  "get_statically_known_builtin_fn can answer `known` for a name that is not in its table (%s): calls to user functions, whose bodies may read `$` and labels, would be frozen after the first pass" % ", ".join(loose))
    # symbols/data/instructions compute their *_statically_known flags through is_value_statically_known
    for fld, fns in spec["flag_writers"].items():
        writers = set()
        for f in prog.real_fns():
            for bi, si, st in f.stmts():
                if st["k"] == "assign" and st["place"]["p"] and isinstance(st["place"]["p"][-1], dict) and st["place"]["p"][-1].get("name") == fld:
                    writers.add(f.id)
                if st["k"] == "assign" and st["rv"]["k"] == "agg" and fld in st["rv"].get("fields", []):
                    idx = st["rv"]["fields"].index(fld)
                    if const_int(st["rv"]["ops"][idx]) != 0:
                        writers.add(f.id)
        def _callers(w_):
            cs = set()
            for g_ in prog.real_fns():
                for b2, t2 in g_.calls():
                    if (t2.get("resolved") or "") == w_:
                        cs.add(g_.raw.get("root") or g_.id)
            return cs
        for w in sorted(writers):
            if w not in fns:
                # a step of an audited writer factored into a helper of the same module that only audited writers call
                cs = _callers(w)
                if cs and cs <= set(fns) and all(c_.rsplit("::", 1)[0] == w.rsplit("::", 1)[0] for c_ in cs):
                    run.ok(R, "SK|flag-writer|%s|%s" % (fld, w), prog.fn(w).loc(), "%s sets %s on behalf of its only caller(s) %s (audited)" % (w, fld, sorted(cs)))
                    continue
            run.check(w in fns, R, "SK|flag-writer|%s|%s" % (fld, w), prog.fn(w).loc(), "%s sets %s (audited)" % (w, fld),
                      "%s sets `%s` but is not an audited writer: the flag must come from the static analysis of the item's expression" % (w, fld))


def sk_instruction_flag(run, R="SK"):
    """match_all: an instruction is `statically known` only when EVERY candidate match is: the flag stored on the instruction
    is `matches.iter().all(|m| m.encoding_statically_known)` (a candidate that is not the largest can still be the one that
    wins once addresses are known)"""
    from rules_sym import deep
    from mir import closure_of_origin
    f = run.anchor(R, "asm::matcher::match_all")
    if f is None:
        return
    n, bad = 0, []
    for bi, si, st in f.stmts():
        if st["k"] == "assign" and st["place"]["p"] and isinstance(st["place"]["p"][-1], dict) and st["place"]["p"][-1].get("name") == "encoding_statically_known" \
                and "Instruction" in str(f.local_ty(st["place"]["l"])) and "InstructionMatch" not in str(f.local_ty(st["place"]["l"])):
            n += 1
            o = peel(f.origin_op(st["rv"]["op"])) if st["rv"]["k"] == "use" else None
            good = False
            if o and o[0] == "call" and (o[1].get("callee") or "").endswith("Iterator::all"):
                d = deep(f, o[1]["args"][0], 6)
                cid = closure_of_origin(f.origin_op(o[1]["args"][1]))
                g = f.prog.fn(cid) if cid else None
                good = d.endswith(".matches)") and g is not None and deep(g, {"copy": {"l": 0, "p": []}}, 4) == "P2.encoding_statically_known"
            if not good and st["rv"]["k"] == "use" and op_local(st["rv"]["op"]) is not None:
                # the same conjunction gathered in the loop over the matches: a flag that starts `true` and is only ever and-ed
                # with a match's own flag (`all &= mtch.encoding_statically_known`), inside a loop over all the matches
                acc = f.copy_root(op_local(st["rv"]["op"]))
                ds = f.full_defs(acc)
                inits = [d for d in ds if d[0] == "stmt" and d[3]["rv"]["k"] == "use" and const_int(d[3]["rv"]["op"]) == 1]
                ands = []
                other = []
                for d in ds:
                    if d in inits:
                        continue
                    rv = d[3]["rv"] if d[0] == "stmt" else None
                    if rv and rv["k"] == "binop" and rv["op"] == "BitAnd" and any(op_local(x) is not None and f.copy_root(op_local(x)) == acc for x in (rv["l"], rv["r"])) \
                            and any(re.search(r"(\.encoding_statically_known|get_match_statically_known\(.*\))$", deep(f, x, 8)) for x in (rv["l"], rv["r"])):
                        ands.append(d)
                    else:
                        other.append(d)
                from mir import natural_loop
                in_full_loop = False
                for d in ands:
                    for h in sorted(f.reachable()):
                        lp = natural_loop(f, h)
                        if lp and d[1] in lp and not any(f.blocks[b]["term"]["k"] == "goto" and False for b in lp):
                            in_full_loop = True
                good = len(inits) == 1 and bool(ands) and not other and in_full_loop
            if not good:
                bad.append(deep(f, st["rv"]["op"], 4)[:120] if st["rv"]["k"] == "use" else st["rv"]["k"])
    run.check(n >= 1 and not bad, R, "SK|instruction-flag|all-candidates", f.loc(), "an instruction is statically known only when all of its candidate matches are (%d store(s))" % n,
              "match_all stores `%s` as the instruction's statically-known flag, not `all candidates are statically known`: the instruction would be frozen after the first pass although another candidate may win later" % (bad or "nothing"))


def sk_match_locals(run, R="SK"):
    """get_match_statically_known: (a) a rule parameter is declared `value known` to the rule body only when the static analysis
    of its argument says so (is_value_statically_known for an expression, the same function for a nested match): the flag stored is
    that answer itself, or `true` behind its true edge; (b) every parameter is declared whatever the answer, so that a parameter's
    name is never looked up among the global symbols; (c) the names of the current address (`$`, `pc`) are never answered from the
    symbol table"""
    from rules_sym import deep
    from mir import closure_of_origin
    f = run.anchor(R, "asm::matcher::get_match_statically_known")
    if f is None:
        return
    answers = []        # (call term, kind, bool_test or None)
    for bi, t in f.calls():
        c = t.get("resolved") or t.get("callee") or ""
        if c == f.id or c.endswith("Expr::is_value_statically_known") or c.endswith("expr::inspect::<impl expr::expression::Expr>::is_value_statically_known"):
            answers.append((bi, t, "nested" if c == f.id else "expr", T.bool_test(f, t)))
    ins = [(bi, t) for bi, t in f.calls() if re.search(r"HashMap::<.*>::insert$", t.get("callee") or "") and deep(f, t["args"][0], 4).endswith(".locals")]
    bad, always = [], 0
    kinds = set()
    for bi, t in ins:
        ag = peel(f.origin_op(t["args"][2]))
        flag = None
        if ag and ag[0] == "agg" and "value_known" in (ag[1].get("fields") or []):
            flag = ag[1]["ops"][ag[1]["fields"].index("value_known")]
        if flag is None:
            bad.append("%s: the declared local's `value_known` was not found" % f.loc(t["span"]))
            continue
        c = const_int(flag)
        if c == 0:
            always += 1
            continue
        if c == 1:
            g_ = [(ab, at, k, bt) for ab, at, k, bt in answers if bt is not None and f.edge_dominates(bt[2], bt[0], bi)]
            if not g_:
                bad.append("%s: marked known without the analysis of the argument saying so" % f.loc(t["span"]))
            else:
                kinds |= {k for _, _, k, _ in g_}
                bad.append("%s: the parameter is only declared when its argument is known: when it is not, its name is looked up among the global symbols (a constant of the same name would make it `known`)" % f.loc(t["span"]))
            continue
        src = peel(f.origin_op(flag))
        hit = [(ab, at, k, bt) for ab, at, k, bt in answers if src and src[0] == "call" and src[1] is at]
        if not hit:
            bad.append("%s: `value_known` is `%s`, not the answer of the static analysis of the argument" % (f.loc(t["span"]), deep(f, flag, 4)[:80]))
            continue
        kinds |= {hit[0][2]}
        # declared on both outcomes: the insertion is not confined to one edge of a test of that answer
        bt = hit[0][3]
        if bt is not None and (f.edge_dominates(bt[2], bt[0], bi) or f.edge_dominates(bt[2], bt[1], bi)):
            bad.append("%s: the parameter is declared on one outcome of the analysis only" % f.loc(t["span"]))
        else:
            always += 1
    run.check(len(ins) >= 2 and not bad and kinds == {"nested", "expr"}, R, "SK|match|locals-known", f.loc(),
              "get_match_statically_known: every parameter is declared to the rule body with the answer of the static analysis of its own argument, whatever the answer (%d site(s))" % len(ins),
              "get_match_statically_known: %s (answers used: %s): a rule body using an operand whose value depends on labels would be frozen after the first pass" % ("; ".join(bad) or "insertions not found", sorted(kinds)))
    # (d) the arguments are analysed without the rule's parameters in scope (they are written where the instruction stands); the
    #     rule body is analysed with them
    def provider_of(op):
        o = f.origin_op(op)
        n_ = 0
        while o is not None and n_ < 8:
            n_ += 1
            if o[0] in ("ref", "cast", "place"):
                o = o[1]
            elif o[0] == "call" and (o[1].get("resolved") or o[1].get("callee") or "").endswith("StaticallyKnownProvider::<'a>::new"):
                return o[1]["dest"]["l"]
            elif o[0] == "multi":
                return ("multi", o[1])
            else:
                return None
        return None
    with_params = set(provider_of(t["args"][0]) for bi, t in ins)
    badd = []
    n_body = 0
    for ab, at, k, bt in answers:
        if k != "expr":
            continue
        pv = provider_of(at["args"][1]) if len(at["args"]) > 1 else None
        ex = deep(f, at["args"][0], 6)
        is_body = ".expr" in ex and ".args" not in ex
        if is_body:
            n_body += 1
            if pv not in with_params:
                badd.append("%s: the rule body is analysed without its parameters declared" % f.loc(at["span"]))
        elif pv in with_params or pv is None:
            badd.append("%s: an argument is analysed with the rule's parameters in scope: a name in the argument (a label `x` of the program) would be taken for the parameter `x`" % f.loc(at["span"]))
    run.check(n_body == 1 and not badd, R, "SK|match|argument-scope", f.loc(), "arguments are analysed in a scope without the rule's parameters, the rule body in the scope that declares them",
              "get_match_statically_known: %s: an instruction whose argument depends on a label would be frozen after the first pass" % ("; ".join(badd) or "the analysis of the rule body was not found"))
    # (c) `$` / `pc`
    okc, whyc = False, "no variable-query callback found"
    for bi, si, st in f.stmts():
        if st["k"] == "assign" and st["place"]["p"] and isinstance(st["place"]["p"][-1], dict) and st["place"]["p"][-1].get("name") == "query_variable":
            cid = closure_of_origin(peel(f.origin_op(st["rv"]["op"]))) if st["rv"]["k"] in ("use", "cast") else None
            g = f.prog.fn(cid) if cid else None
            if g is None:
                continue
            lits = {}
            lookups = set(b2 for b2, t2 in g.calls() if "get_by_name" in (t2.get("callee") or ""))
            for a in T.str_eq_arms(g):
                # follow the `name matches` edge with the constants assigned on the way (`matches!` goes through a temporary bool)
                vals, hit_lookup = set(), False
                seen, work = set(), [(a["true"], ())]
                while work:
                    x, env = work.pop()
                    if (x, env) in seen:
                        continue
                    seen.add((x, env))
                    e = dict(env)
                    for st2 in g.blocks[x]["stmts"]:
                        if st2["k"] == "assign" and not st2["place"]["p"]:
                            c2 = const_int(st2["rv"]["op"]) if st2["rv"]["k"] == "use" else None
                            if c2 is not None:
                                e[st2["place"]["l"]] = c2
                            else:
                                e.pop(st2["place"]["l"], None)
                    if x in lookups:
                        hit_lookup = True
                        continue
                    t2 = g.blocks[x]["term"]
                    if t2["k"] == "return":
                        vals.add(e.get(0, "?"))
                        continue
                    nxt = g.succs(x)
                    if t2["k"] == "switch" and op_local(t2["discr"]) in e:
                        v = e[op_local(t2["discr"])]
                        tg = [tg for vv, tg in t2["targets"] if int(vv) == v]
                        nxt = tg if tg else [t2["otherwise"]]
                    for y in nxt:
                        work.append((y, tuple(sorted(e.items()))))
                lits[a["lit"]] = 0 if (vals == {0} and not hit_lookup) else ("lookup" if hit_lookup else sorted(vals, key=str))
            okc = lits.get("$") == 0 and lits.get("pc") == 0
            whyc = "the callback answers %s for the address names before it looks the name up" % {k: v for k, v in lits.items() if k in ("$", "pc")}
    run.check(okc, R, "SK|provider|address-names", f.loc(), "the variable query answers `not known` for `$` and `pc` before any symbol lookup",
              "get_match_statically_known: %s: a user symbol called `pc` would make an operand `pc` (which evaluates to the current address) statically known" % whyc)


def _straight(f, b, limit=6):
    out = []
    n = 0
    while n < limit:
        out.append(b)
        s = f.succs(b)
        if len(s) != 1:
            break
        b = s[0]
        n += 1
    return out


def _returns_only(g, allowed_suffixes):
    """a bool function whose return value is the constant false or a load of a field with one of the given suffixes"""
    for d in g.full_defs(0):
        if d[0] == "call":
            return False
        st = d[3]
        rv = st["rv"]
        if rv["k"] != "use":
            return False
        c = const_int(rv["op"])
        if c == 0:
            continue
        if c is not None:
            return False
        dd = describe_origin(g, g.origin_op(rv["op"]))
        if not any(dd.endswith(s) for s in allowed_suffixes):
            return False
    return True


def brace_scan_by_tokens(run, R="MATCH"):
    """sibling agreement of the two scanners that look for the end of a `{ ... }` block: both count braces on tokens (a brace in a
    comment or a string literal is no brace), none on raw characters"""
    n, bad = 0, []
    for name in ("Walker::<'src>::advance_until_closing_brace", "Walker::<'src>::advance_until_linebreak"):
        g = run.anchor(R, name)
        if g is None:
            continue
        n += 1
        toks = any((t.get("resolved") or t.get("callee") or "").endswith("::next_token") for _, t in g.calls())
        raw = [st for bi, si, st in g.stmts() if st["k"] == "assign" and st["rv"]["k"] == "binop" and st["rv"]["op"] in ("Eq", "Ne")
               and any(o.get("ty") == "char" and str(o.get("int")) in ("123", "125") for o in (st["rv"]["l"], st["rv"]["r"]))]
        if not toks or raw:
            bad.append(name.rsplit("::", 1)[-1])
    run.check(n == 2 and not bad, R, R + "|block-end|by-tokens", "-", "the end of a braced block is found by counting brace tokens",
              "%s counts raw `{`/`}` characters: a `}` inside a comment or a string literal of an asm block ends the block (`ld 7 ; closes with }` gives `invalid pattern token`)" % ", ".join(bad))


def lookahead_skips_comments(run, R="MATCH"):
    """the scan for the literal character that ends an operand steps over comments: it asks the tokenizer whether a Comment token
    starts at the position and continues behind it, so a comment neither contains the wanted character nor counts as operand text"""
    g = run.anchor(R, "Walker::<'src>::find_lookahead_char_index")
    if g is None:
        return
    asks = [bi for bi, t in g.calls() if re.search(r"::(token_at|next_token|next_nth_token)$", t.get("resolved") or t.get("callee") or "")]
    # ... or through a helper of the walker that asks the tokenizer for the token at a position
    for bi, t in g.calls():
        h = run.prog.fn(t.get("resolved") or "")
        if h is not None and h.id != g.id and "syntax::walker::Walker" in h.id and any(re.search(r"::(token_at|next_token|next_nth_token)$", t2.get("resolved") or t2.get("callee") or "") for _, t2 in h.calls()):
            asks.append(bi)
    kinds = set()
    for bi, t in g.calls():
        for a in t["args"]:
            v = promoted_variant(run.prog, g, a)
            if v:
                kinds.add(v)
    for bi, si, st in g.stmts():
        if st["k"] == "assign" and st["rv"]["k"] == "agg" and st["rv"].get("adt", "").endswith("TokenKind") and st["rv"].get("variant"):
            kinds.add(st["rv"]["variant"])
    run.check(bool(asks) and "Comment" in kinds, R, R + "|lookahead|skips-comments", g.loc(), "the operand lookahead steps over Comment tokens",
              "find_lookahead_char_index scans raw characters without recognising comments: a block comment before or inside an operand changes where the operand ends (`op ;*c*; -1-2` against `op {x}-{y}` gives `no match`)")
    # outside comments and strings the scan goes character by character: the literal that ends an operand may be glued to the
    # operand's last token (`ld 12h` against `ld {x}h`), where a token-wise scan never looks
    from rules_sym import deep as _deep
    by_char = False
    for bi, si, st in g.stmts():
        if st["k"] == "assign" and st["rv"]["k"] == "binop" and st["rv"]["op"] in ("Add", "AddWithOverflow"):
            if any("len_utf8(" in _deep(g, o_, 5) for o_ in (st["rv"]["l"], st["rv"]["r"])):
                by_char = True
    if any(re.search(r"<impl str>::(char_indices|chars)$", t.get("callee") or "") for _, t in g.calls()):
        by_char = True      # a walk over the characters of the remaining text
    run.check(by_char, R, R + "|lookahead|by-characters", g.loc(), "the operand lookahead advances one character at a time outside comments and strings",
              "find_lookahead_char_index advances token by token only: a literal character glued to the end of an operand token (`ld 12h` against `ld {x}h`, `org 4k, 7`) is never looked at and the instruction finds no match")
    run.check(bool(asks) and "String" in kinds, R, R + "|lookahead|skips-strings", g.loc(), "the operand lookahead steps over String tokens",
              "find_lookahead_char_index scans the characters of string literals: a separator inside a string operand ends the operand (`add \"+\" + 1` against `add {x} + {y}` gives `no match`)")


def precedence_per_operand(run, R="MATCH"):
    """`a rule that spells an operand literally takes precedence over one that reads the same text as an expression`: the
    candidates have to be compared operand by operand.  Keeping the candidates with the largest TOTAL number of literal pattern
    characters lets a rule with more punctuation elsewhere beat a rule that spells the contested operand"""
    mi = run.anchor(R, "asm::matcher::match_instr")
    if mi is None:
        return
    total = any(n.endswith("get_recursive_exact_part_count") for _, n in callee_names(mi))
    per_operand = any(re.search(r"(per_operand|literal_operand|compare_specificity)", n) for _, n in callee_names(mi))
    run.check(per_operand or not total, R, R + "|precedence|per-operand", mi.loc(), "literal-over-expression precedence is decided per operand",
              "match_instr keeps the candidates with the largest total count of literal pattern characters over the whole rule: with `op a, {y}` and `op {x}, ({y})`, the line `op a, (5)` is encoded by the second rule (5 literal characters against 4) although the first spells the operand `a` literally - `220705` with `a = 7` defined, `unknown symbol a` without")


def matcher_candidate_order(run, R="GATE"):
    """both matchers hand over their candidates in the same order.  The plain search walks the rule blocks and their rules in
    declaration order; the prefix map yields the rules grouped by prefix length, so somewhere on the optimised path the candidates
    (or the map entries) are put into declaration order by a stable sort keyed on the rule block and the rule.  Where the first of
    several equally small candidates is taken as a guess, another order steers the iteration to another result."""
    import json
    prog = run.prog
    mm = run.anchor(R, "asm::matcher::match_with_ruledef_map")
    if mm is None:
        return
    fam = [mm] + [h for h in prog.real_fns() if h.id.endswith("RuledefMap::query_prefixed")]
    fam += [h for _, h in private_helpers(mm)]
    ok = False
    unstable = []
    for f in fam:
        for bi, t in f.calls():
            c = t.get("callee") or ""
            if not re.search(r"::(sort_by_key|sort_by|sort_by_cached_key|sort_unstable_by_key|sort_unstable_by)(::<.*)?$", c):
                continue
            from mir import closure_of_origin
            cid = closure_of_origin(f.origin_op(t["args"][1])) if len(t["args"]) == 2 else None
            g = prog.fn(cid) if cid else None
            if g is None:
                continue
            txt = json.dumps(g.raw.get("blocks")) + "".join(json.dumps(x.raw.get("blocks")) for x in prog.real_fns() if x.kind == "Closure" and x.id.startswith(g.id + "::"))
            if '"ruledef_ref"' in txt and '"rule_ref"' in txt:
                if "unstable" in c:
                    unstable.append(f.loc(t["span"]))
                else:
                    ok = True
    run.check(ok, R, R + "|matcher|candidate-order", mm.loc(), "the optimised matcher puts its candidates into declaration order (stable sort on rule block and rule)",
              ("the optimised matcher sorts its candidates with an unstable sort (%s): several matches of one rule can change places" % ", ".join(unstable)) if unstable else
              "match_with_ruledef_map hands over the candidates in the order of the prefix map (grouped by prefix length), the plain search in declaration order: where the first of several equally small candidates is taken as a guess (`qq {a}` and `q{s: sub} {a}` on `qq f` inside an asm block) the two switches settle on different results")


def index_insert_unconditional(run, R="TAB-idx"):
    """the prefix index lists every rule: `RuledefMap::insert` reaches the push of the new entry on every path (there is no path
    on which a rule handed to it is left out - a dropped rule can only be found with the matcher optimisation switched off)"""
    f = run.anchor(R, "RuledefMap::insert")
    if f is None:
        return
    pushes = {bi for bi, t in f.calls() if re.search(r"Vec::<.*>::(push|insert)$|::push$", t.get("callee") or "")}
    rets = {b for b in f.reachable() if f.blocks[b]["term"]["k"] == "return"}
    seen, work = set(), [0]
    while work:
        x = work.pop()
        if x in seen or x in pushes:
            continue
        seen.add(x)
        work.extend(f.succs(x))
    run.check(bool(pushes) and not (seen & rets), R, R + "|writer|every-rule-listed", f.loc(), "RuledefMap::insert lists the rule it is given on every path",
              "RuledefMap::insert can return without having listed the rule it was given: a rule missing from the prefix index is only found with --debug-no-optimize-matcher" if pushes else "mechanism not found: the push of the new index entry")


def sk_flag_fresh(run, R="SK"):
    """what the static analysis says about a match depends on the match *and* on the place where the instruction stands (the same
    text `.t` names another symbol under another label): in match_all the `statically known` flag and the static size of every
    match are the answers of get_match_statically_known / get_match_static_size for this very match under the current symbol
    context - not a value remembered for an instruction with the same text"""
    from rules_sym import deep
    f = run.anchor(R, "asm::matcher::match_all")
    if f is None:
        return
    n, bad = 0, []
    # match_all itself, or a private helper of the matcher that it hands the matches and the symbol context to
    cands = [(f, None)]
    for cb, h in private_helpers(f):
        for b2, t2 in f.calls():
            if (t2.get("resolved") or "") == h.id:
                cands.append((h, t2))
    for g, site in cands:
        for bi, si, st in g.stmts():
            if st["k"] == "assign" and st["place"]["p"] and isinstance(st["place"]["p"][-1], dict) and st["place"]["p"][-1].get("name") in ("encoding_statically_known", "encoding_size") \
                    and g.local_name(st["place"]["l"]) != "instr" and "instructions" not in deep(g, {"copy": {"l": st["place"]["l"], "p": []}}, 6):
                n += 1
                d = deep(g, st["rv"].get("op") or st["rv"], 10)
                fresh = bool(re.match(r"^(Option::unwrap_or\()?matcher::get_match_(statically_known|static_size)\(", d)) and "HashMap" not in d and "BTreeMap" not in d
                if st["place"]["p"][-1]["name"] == "encoding_statically_known":
                    ctx_ok = "symbol_ctx" in d
                    m_ = re.match(r"^matcher::get_match_statically_known\(P\d+, P\d+, P(\d+)[,)]", d)
                    if not ctx_ok and site is not None and m_ and int(m_.group(1)) - 1 < len(site["args"]):
                        ctx_ok = "symbol_ctx" in deep(f, site["args"][int(m_.group(1)) - 1], 6)
                    fresh = fresh and ctx_ok
                if not fresh:
                    bad.append("%s = %s" % (st["place"]["p"][-1]["name"], d[:70]))
    run.check(n >= 2 and not bad, R, R + "|match-all|flags-fresh", f.loc(), "every match gets the static analysis' own answer for itself under the current symbol context (%d store(s))" % n,
              "match_all stores static information that is not the analysis' answer for this match at this place (%s): an instruction whose text was seen before inherits the flags computed under another label, where the same local name is another symbol" % ("; ".join(bad) or "stores not found"))


def line_scan_rules(run, R="MATCH"):
    """where an instruction line ends: (1) advance_until_linebreak leaves its scanning loop only when the text is over or when the
    brace nesting counter is zero - a line break (or a closing brace) inside `{ }` does not end the line, so an asm-block line may
    spread a substitution over several lines; (2) it looks at tokens only - no search of the raw text for `;`, a newline or a
    brace, which would find them inside block comments and strings; (3) the instruction parser steps over everything ignorable
    (blanks and comments) before it takes the line, so the instruction text never begins with a comment"""
    from mir import natural_loop
    g = run.anchor(R, "Walker::<'src>::advance_until_linebreak")
    if g is not None:
        nt = [bi for bi, t in g.calls() if (t.get("resolved") or t.get("callee") or "").endswith("::next_token")]
        loop = set()
        for h in sorted(g.reachable()):
            lp = natural_loop(g, h)
            if lp and any(b in lp for b in nt) and len(lp) > len(loop):
                loop = lp
        bad = []
        for b in sorted(loop):
            for e in g.succs(b):
                if e in loop:
                    continue
                tt = g.blocks[b]["term"]
                ok = False
                if tt["k"] == "switch" and op_local(tt["discr"]) is not None:
                    o = g.origin_local(op_local(tt["discr"]))
                    if o and o[0] == "binop" and o[1]["op"] == "Eq" and (const_int(o[1]["r"]) == 0 or const_int(o[1]["l"]) == 0):
                        ok = True
                    if o and o[0] == "call" and (o[1].get("resolved") or o[1].get("callee") or "").endswith("::is_over"):
                        ok = True
                if tt["k"] in ("call", "drop", "assert") and e != tt.get("target"):
                    ok = True       # unwind edges
                if not ok:
                    bad.append(g.loc(tt["span"]))
        run.check(bool(loop) and not bad, R, R + "|line-end|outside-braces", g.loc(), "advance_until_linebreak stops only at the end of the text or with the brace nesting at zero",
                  "advance_until_linebreak leaves its loop without testing the brace nesting (%s): a line break inside `{ }` ends the instruction line, so an asm-block line whose substitution braces span several lines is cut" % (", ".join(bad) or "scanning loop not found"))
        raw = [g.loc(t["span"]) for bi, t in g.calls() if re.search(r"<impl str>::(find|rfind|contains|split|split_once|lines|trim_end_matches|char_indices|chars)$", t.get("callee") or "")]
        run.check(not raw, R, R + "|line-end|by-tokens", g.loc(), "advance_until_linebreak looks at tokens only",
                  "advance_until_linebreak searches the raw text of the line (%s): a `;` or a newline inside a block comment or a string cuts the instruction (`ld ;* dst *; 1, 5` gives `no match`)" % ", ".join(raw))
    ip = run.anchor(R, "asm::parser::instruction::parse")
    if ip is not None:
        sk = [bi for bi, t in ip.calls() if (t.get("resolved") or t.get("callee") or "").endswith("::skip_ignorable")]
        al = [bi for bi, t in ip.calls() if (t.get("resolved") or t.get("callee") or "").endswith("::advance_until_linebreak")]
        ok = bool(al) and all(any(ip.dominates(s_, a_) for s_ in sk) for a_ in al)
        run.check(ok, R, R + "|line-start|ignorable-skipped", ip.loc(), "the instruction parser steps over blanks and comments before it takes the line",
                  "asm::parser::instruction::parse takes the instruction line without having stepped over everything ignorable: a line that starts with a block comment keeps it at the front of the instruction text, where the prefix index finds no mnemonic (`;* load *; ld 1, 5` matches only with --debug-no-optimize-matcher)")
