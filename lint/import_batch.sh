#!/bin/bash
# usage: import_batch.sh <round-tag> C05 C06 ... -- import the confirmed (verify log) and caught seeds of /tmp/wt-<prop>
tag=$1; shift
for pr in "$@"; do
  for n in 1 2 3; do
    res=$(grep "RESULT /tmp/wt-$pr seed$n " /tmp/verify_$pr.log)
    if ! echo "$res" | grep -q "605 passed; 0 failed.*demo_with_change_exit=1 demo_without_exit=0"; then echo "$pr seed$n: NOT CONFIRMED: $res"; continue; fi
    out=$(SEED_LINES=200 bash /verif/lint/seedtest.sh /tmp/wt-$pr/seed$n.diff $pr 2>&1)
    keys=$(echo "$out" | grep -v "^KNOWN" | grep "key:" | sed 's/ *key: //' | cut -c1-110 | head -4 | tr '\n' ';')
    if [ -z "$keys" ]; then echo "$pr seed$n: MISSED (not imported)"; continue; fi
    python3 /verif/lint/import_seed.py /tmp/wt-$pr $n $pr-$tag-seed$n $pr "$keys" "605 passed, demo 1/0"
  done
done
