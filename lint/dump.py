#!/usr/bin/env python3
"""development aid: dump MIR of functions matching a suffix"""
import sys, facts, mir
d = facts.extract(sys.argv[2] if len(sys.argv) > 2 else "/repo")
p = mir.load_program(d)
for f in p.find(sys.argv[1], kinds=("Fn","AssocFn","Closure","Static","Const","Promoted","AssocConst")):
    mir.dump_fn(f)
