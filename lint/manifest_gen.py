#!/usr/bin/env python3
"""Regenerates /verif/MANIFEST.json from the table below (single source of truth)."""
import json, os

VERIF = os.path.dirname(os.path.dirname(os.path.abspath(__file__)))

# property -> dict(text, note, technique, design_ref)  (claimed)  or  dict(na=reason)
P = {}

P["C10"] = dict(
    text="Static who-may-iterate / who-may-call analysis over the type-checked MIR of lib+bin: every place where the iteration order of a HashMap/HashSet is created is an obligation that must be discharged by a dominating sort or by a commutative loop body (pure calls and hash insertions only, no early exit); no Debug print of hash containers reachable from the entry points; zero calls to clock/thread/env/atomic/cell/address APIs; every static immutable and Freeze. For this single-threaded code base these are the only channels through which two runs on equal inputs could differ, and the rule sees all sites, not the ones a test happens to execute.",
    note="Decides the structural clause 'no hash order, time, address or global mutable state can reach an output or diagnostic'. Trusted: rustc MIR and callee resolution; std summaries (which methods yield hash order); sort keys are assumed injective; OS/file-system races out of scope.",
    technique="static analysis: MIR dataflow (iterator provenance, dominance of sort, loop-body effect allowlist) + who-may-call lint + static-item audit via rustc_private driver",
    design_ref="3 DET, 4 C10",
)

NA_PENDING = "check not built yet (build in progress, see DESIGN.md section 9)"


def main():
    props = [json.loads(l) for l in open(os.path.join(VERIF, "properties.jsonl"))]
    checks = []
    na = []
    for p in props:
        pid = p["id"]
        e = P.get(pid)
        if e is None or "na" in e:
            na.append({"property_id": pid, "reason": (e or {}).get("na", NA_PENDING)})
            continue
        checks.append({
            "property_id": pid,
            "quick_cmd": "python3 lint/check.py %s --tier quick" % pid,
            "thorough_cmd": "python3 lint/check.py %s --tier thorough" % pid,
            "evidence_file": "/verif/evidence/%s.json" % pid,
            "replay_cmd_template": "python3 lint/check.py %s --replay {path}" % pid,
            "engine": "casmlint",
            "level_claimed": {"category": "other", "text": e["text"], "design_ref": "DESIGN.md section " + e["design_ref"]},
            "level_note": e["note"],
            "technique": e["technique"],
        })
    m = {
        "version": 1,
        "setup_cmd": "cd /verif/driver && CARGO_NET_OFFLINE=true cargo build --offline --release 2>&1 | tail -3 && test -x /verif/driver/target/release/casm-facts",
        "hooks": {
            "guard": "hlorenzi_customasm_verif",
            "enable": "no hooks: the analyses read the unmodified program; the only commits to /repo are unguarded `fix:` commits (see known_findings.json)",
            "baseline_off_cmd": "cd /repo && cargo test --workspace --no-fail-fast --offline",
            "source_commits": [],
            "add_only": True,
        },
        "engines": [
            {"name": "casm-facts", "path": "driver/", "serves_properties": [c["property_id"] for c in checks],
             "kind_free_text": "rustc_private driver (nightly) run as RUSTC_WORKSPACE_WRAPPER under cargo check on /repo's working tree; dumps type-checked MIR (resolved callees, places, constants, ADTs) of lib and bin as JSON facts"},
            {"name": "casmlint", "path": "lint/", "serves_properties": [c["property_id"] for c in checks],
             "kind_free_text": "python3 (stdlib only) rule engine over the facts: CFG/dominators, value origins, call graph, path-state search, constant-table extraction; one obligation per rule instance, exception tables in tables/, positive controls in fixtures/"},
        ],
        "checks": checks,
        "notes": "Technique family: static analysis only. Each check re-extracts MIR facts from /repo's current working tree (cached by tree hash under /verif/.cache), evaluates its rules and writes evidence/<id>.json. Exit 2 + BROKEN-CHECKER means the checker's own controls failed.",
        "not_applicable": na,
    }
    with open(os.path.join(VERIF, "MANIFEST.json"), "w") as fh:
        json.dump(m, fh, indent=1)
    print("claimed:", [c["property_id"] for c in checks])


if __name__ == "__main__":
    main()
