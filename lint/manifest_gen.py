#!/usr/bin/env python3
"""Regenerates /verif/MANIFEST.json from the table below (single source of truth)."""
import json, os

VERIF = os.path.dirname(os.path.dirname(os.path.abspath(__file__)))

# property -> dict(text, note, technique, design_ref)  (claimed)  or  dict(na=reason)
P = {}

P["C10"] = dict(
    text="Static who-may-iterate / who-may-call analysis over the type-checked MIR of lib+bin: every place where the iteration order of a HashMap/HashSet is created is an obligation that must be discharged by a dominating sort or by a commutative loop body (pure calls and hash insertions only, no early exit); no Debug print of hash containers reachable from the entry points; zero calls to clock/thread/env/atomic/cell/address APIs; every static immutable and Freeze. For this single-threaded code base these are the only channels through which two runs on equal inputs could differ, and the rule sees all sites, not the ones a test happens to execute. Added: audited sort keys are checked as expressions.",
    note="Decides the structural clause 'no hash order, time, address or global mutable state can reach an output or diagnostic'. Trusted: rustc MIR and callee resolution; std summaries (which methods yield hash order); sort keys are assumed injective; OS/file-system races out of scope.",
    technique="static analysis: MIR dataflow (iterator provenance, dominance of sort, loop-body effect allowlist) + who-may-call lint + static-item audit via rustc_private driver",
    design_ref="3 DET, 4 C10",
)

P["C18"] = dict(
    text="Static agreement check between four tables that must say the same thing: the usage text (src/usage_help.md, parsed at check time), the getopts registrations in make_opts, the option keys read in parse_command and the literal arms of parse_output_format, all extracted from the type-checked MIR (string-comparison chains, aggregate constants, closure argument tuples, validator closures). Every documented format/parameter/default/alias/option must be accepted as documented, every accepted parameter is validated against an audited value set, unknown names and leftover parameters end in error+Err, each option key drives the documented setting (sticky |= / &= ! across groups), the default format and derived extensions are as stated, a derived name equal to the input is rejected on every path, and per group the bytes are either printed or written (never both), with the written bytes being the formatter's result. All arms and all options are covered, not the combinations a test picks. Added: `--color` and `-t` only take effect in the group that gives them; the budget is stored unchanged.",
    note="Decides table agreement and the control structure of the driver; getopts' own parsing of attached/detached spellings is trusted. The value sets of tables/cli.json were audited by reading the formatters. Does not decide that the formatter output itself is right (C11/C12).",
    technique="static analysis: constant decision-table extraction from MIR + table differ against the parsed usage text; dominance / control-region checks for rejection paths",
    design_ref="3 TAB-cli, 4 C18",
)

P["C11"] = dict(
    text="Static dispatch-table check: for every OutputFormat variant the arm of format_output must call the formatter, with the constant parameters, that the format's name implies (radix 10/16, separator, bits per digit, chunk width, dump geometry), with variant fields passed to the parameter of the same meaning and the produced text being what is returned; wrapper formatters forward the audited constants; every formatter parameter guarded by a panic (match radix / assert base) only ever receives a handled constant or a command-line value validated to that set; parameters used as divisors are validated non-zero. Covers all 20 variants and all call sites. Added: parameter roles of the formatters are recognised from their use (radix, group width, address unit) and must match the dispatch; a units-of-measure inference (bit positions / output byte counts / addresses in address units; + and - link, * and / do not) over the formatters; no remainder-dropping iteration; granule counts round up by exactly divisor - 1; Intel HEX address width.",
    note="Decides the dispatch/parameter clause and crash-freedom of parameter domains, not that each formatter's text decodes back to the bits for every length (value-level, needs decoders; not claimed). Known finding: Intel HEX prints only 16 address bits (no extended address records).",
    technique="static analysis: enum-switch arm extraction from MIR, constant-argument table differ, panic-guarded parameter domain inference with call-site check",
    design_ref="3 TAB-fmt, 4 C11",
)

P["C03"] = dict(
    text="Interprocedural error-discipline analysis over every function reachable from the entry points (225 functions returning Result<_,()>): a path-state search per function (state: reported-must / reported-may / abstract Result tags / flag values / open diagnostic parents / is_last_iteration knowledge) with fixpoint summaries decides (ERR1) every path that returns Err(()) has pushed an error message, so assemble()'s own assertion cannot fail and no failure is silent; (ERR3) every Unresolved / Ok(None) produced in a last pass is preceded by a message; (ERR2-top) the assembled output is stored only on paths where no error can have been reported since the last stop_at_errors barrier, nothing that can report follows the store, and every Ok path stores it; (ERR4) the driver writes/prints only behind the output test and main's exit status follows the verdict; (ERR5) no Result of a fallible call made with the caller's report is dropped; (PAIR) push_parent/pop_parent balance. All paths and call sites are covered, where each test exercises one. Added: (ARGS) every `query.args[i]` of a built-in or user function is behind the argument-count check; (WRITE) the real file server answers Ok only behind the Ok edges of file creation and of writing the given data.",
    note="Decides the loud-failure / clean-success clauses structurally. NOT decided: general panic freedom (451 bounds/overflow assertions and 231 unwrap/expect/unreachable sites rest on run-time invariants; the crash classes that are structural are decided under C13 (byte/char units) and C19 (recursion, unchecked arithmetic)) and I/O fault injection (static counterpart only: every std::fs error arm of FileServerReal pushes and returns Err, via ERR1). Audited exceptions are in tables/err.json, one named function each. Assumes messages pushed under an error-kind parent count as errors (Report::message wraps in parents).",
    technique="static analysis: interprocedural path-sensitive dataflow over MIR (must/may 'reported' facts, Result-tag tracking through `?`, greatest/least fixpoint summaries R/Mok/E/A), dominance checks for the driver",
    design_ref="3 ERR, 4 C03",
)

P["C02"] = dict(
    text="Structural necessary conditions of 'a success is a confirmed fixed point', decided on all paths of the two iteration drivers and the seven stateful resolvers: (FIX1) every result-delivering return of resolve_iteratively and of the asm-block driver is dominated by a pass run with is_last_iteration = true (no guessing) and by the success edge of that pass; (FIX2) each resolver that keeps a value between passes loads the previous value before storing the new one, compares them, and on the `differs` edge can only return Unresolved or Err, every other Resolved being behind the `unchanged` edge or an audited shortcut; (FIX3) `resolved = true` is stored only under optimize_statically_known && <item>_statically_known (&& is_first_iteration, && single match for instructions); (ERR3) an unstable value in a last pass pushes an error. Removing any of these lets a stale guess be emitted or a non-converged run succeed. Added: the single-candidate flag is recognised by its definition (`len() == 1`); delivered values come from the confirming pass.",
    note="Decides the structure that makes the fixed point genuine, not that the solution found is the smallest consistent encoding for every program (value-level). Stability comparisons of sized values use value-and-size equality (FIX2 size-aware; repaired in /repo 8b62bf8).",
    technique="static analysis: dominance / edge-dominance over MIR, happens-before of field load vs store, comparison-operand provenance, control-dependence of shortcut stores",
    design_ref="3 FIX, 4 C02",
)

P["C09"] = dict(
    text="Static shape check of the iteration budget: the pass counter starts at 0 and is only incremented by 1 behind `iter_count < max_iterations`, the value returned is the counter itself, the first/last flags are exactly iter_count == 1 / == max_iterations in both drivers, the confirming pass runs with constant flags (false, true), max_iterations is read by no function other than the audited three (so it can bound the number of passes but not enter any value), assertions are evaluated only behind is_last_iteration, `--iters 0` is rejected, and FIX1 (a result is only delivered after a no-guess pass). Added: the value an asm block delivers is computed by its confirming pass; `no value yet` is answered only after that pass; the reported pass count is resolve_iteratively's return value unchanged; the budget stored is the number given to -t unchanged.",
    note="Decides that the budget can only influence whether a confirmed result is reached, through the who-reads audit and the loop shape. Not decided: that two different budgets reach the same fixed point when several exist (behavioural).",
    technique="static analysis: def-use of the loop counter, who-reads audit of a field, dominance checks",
    design_ref="3 FIX4, 4 C09",
)

P["C08"] = dict(
    text="Static audit of everything the two --debug-no-optimize-* switches can influence: (GATE) every function that touches either switch is in an audited list (a new read site is reported); (FIX3) items are frozen as resolved only under the static-known conjunction; (SK) is_value_statically_known is decided per Expr variant by a path search: a variant may be reported known only as a literal, through the provider's answer, or when every child operand was confirmed known on that path, never for asm blocks, with an exhaustive match; (TAB-idx) the rule-prefix index is a sound over-approximation of the full scan only if writer, reader and matcher normalise alike: same lower-casing, same cap, same token admission predicate, every prefix length probed, same skipping of blanks, same exclusion of sub-rule blocks, and match_instr shares dedup and the literal-part filter between both paths. Added: both candidate loops (index path and full scan) hand every candidate to the matcher and keep every result; first-pass-verdict rule.",
    note="Decides the soundness conditions of both optimisations structurally; equality of outputs for all programs is differential and not claimed. Known finding: the index reader stops at blanks the matcher skips (see known_findings.json). Known finding: with a budget of one pass the static shortcut decides success (`-t 1`).",
    technique="static analysis: who-touches audit, path search with per-child confirmation state, constant/callee agreement between sibling functions",
    design_ref="3 TAB-idx/FIX3, 4 C08",
)

P["C07"] = dict(
    text="Static agreement check of the code that makes matching insensitive to case, spacing and rule order: pattern characters are stored lower-cased and compared with eq_ignore_ascii_case (never primitive ==), literal parts are matched through the blank/comment-skipping cursor, whitespace parts test a Whitespace token, the prefix index lower-cases and admits tokens exactly like the pattern parser, and candidate selection is by duplicate removal plus maximum literal-part count (keyed on exact_part_count), with no use of list position.",
    note="Decides these necessary conditions; invariance of the whole pipeline under re-rendering is metamorphic and not claimed. Known finding: blanks inside the first four literal characters defeat the prefix index (known_findings.json).",
    technique="static analysis: callee/constant agreement between sibling functions over MIR, enum-arm extraction",
    design_ref="3 TAB-idx, 4 C07",
)

P["C13"] = dict(
    text="Units-of-measure inference over every usize value of the crate (union-find through copies, +/- , comparisons, ranges, argument/parameter and result links across calls): byte offsets (str::len, str::get, Span offsets, CharIndices) and character indices (Vec<char> length/index, Chars::count) must never meet in one value class (UNIT); no byte offset is moved by a literal number of bytes outside three audited ASCII cases (UNIT4); every token length comes from the character walker or char::len_utf8, never a literal (UNIT2); only the walker builds spans from offsets (UNIT3); Walker::get_span adds span_offset to both ends, Span::join is (min starts, max ends) on one file, Report::message wraps in the parent stack, and push_parent/pop_parent balance on every path (SPAN, PAIR). These decide, for all source texts including multi-byte characters anywhere, that locations are byte ranges on character boundaries converted consistently to line/column. Added: a duplicate declaration is reported at the declaration being made, the note at the existing one.",
    note="Decides the location-validity clause structurally (two genuine defects found and repaired: CharCounter and the tokenizer fallback). Not decided: that the first error of every fault kind lies on the faulty line (behavioural).",
    technique="static analysis: interprocedural units-of-measure (byte vs char) type inference by union-find over MIR, provenance of token lengths, who-may-construct lint, path-state balance check",
    design_ref="3 UNIT, 4 C13",
)

P["C19"] = dict(
    text="Static resource-limit analysis: (LIM1) every strongly connected component of the resolved call graph (higher-order helpers inlined) must be broken by a depth-guard function (parse depth / evaluation depth) that checks before recursing, must not re-create that guard's counter inside the cycle, and any residual cycle must be an audited structural recursion over an owned tree; (LIM1b) loops that wrap an expression into a new node per iteration must count against the nesting limit; (LIM2) an interprocedural magnitude-class taint (WORD / U32 / DATA) from every user-to-machine integer conversion through locals, struct fields, arguments and results flags each unchecked +, *, << on a user-sized value and each subtraction without a dominating or structural `>=` argument; (LIM3) user-sized loop bounds; (LIM4) every big-integer primitive tests BIGINT_MAX_BITS / zero before the num-bigint operation. Every flagged site is either repaired (8 fix: commits), discharged with a written bound argument (tables/arith.json, one site per line), or listed as a known finding with its failing input. Added: LIM3 per-caller cap obligations and capped-field stores (widths), cap-source verification, depth-counter resets through helpers.",
    note="Decides where limits are enforced structurally; wall-time and memory bounds as numbers are dynamic and not claimed. Contracts (tables/lim.json) assume positions inside the output are in-memory sized; the missing cap on the output size is itself a listed finding. Known findings: unguarded recursion through nested #if/asm/sub-rules/operator chains (F13), the output-position, type-width and --group families (F12).",
    technique="static analysis: call-graph SCC analysis with guard/reset nodes; interprocedural taint with magnitude classes over MIR arithmetic; dominance-based guard recognition",
    design_ref="3 LIM, 4 C19",
)

P["C05"] = dict(
    text="Static table agreement for the expression language: the tokenizer's symbol table (longest match first), the (token, operator) tables of each precedence level with their combinator (left/right associativity) and the order of levels, the evaluator's operator -> primitive dispatch for integers and booleans, the num-bigint operation behind each BigInt primitive (truncating division, truncated remainder, arithmetic shifts), literal radix prefixes and bits per digit, string escapes, encoding names versus the arms of ExprString::to_bigint (its panic arm must be unreachable), and the three builtin-function registries are all extracted from MIR (promoted constant tables, enum switches, string-comparison chains) and compared with the audited operator table of the language (tables/operators.json); LIM4 checks that the checked primitives test their limits first. ERR1 (C03) covers that ill-typed operations are errors. Added: exact value-operation profile of every big-integer primitive; value shapes of the built-in functions.",
    note="Decides which operation each operator/level/literal form denotes and that the dispatch is complete; the arithmetic inside num-bigint and the bit loops of slice/concat are value-level and not claimed. The reference table was transcribed from the pinned tree and read against the documented operator list.",
    technique="static analysis: constant-table extraction from MIR (promoted arrays, enum-switch arms, str-eq chains) + table differ against an audited language table",
    design_ref="3 TAB-op, 4 C05",
)


P["C04"] = dict(
    text="The acceptance predicate of each typed parameter (uN, sN, iN) and of sized data is decided by abstract interpretation of the MIR of the range-checking code over the finite atom set {sign of v, min_size(v) <, =, > N, N = 0}: the extracted decision table (accept / reject-with-error per atom combination) must equal the table derived from the statement's formula; further rules: min_size is computed from the untruncated value (no slice/convert between the evaluated argument and the test), the accepted value is emitted through the constrained-size path with the declared width N, the data directive tests `size <= N` on the definite size or min_size before emission and rejects with an error on the other edge, and the type-name tables (u/s/i + decimal width) agree between parser and checker.",
    note="Decides the acceptance predicate exactly (it is a finite decision table over comparisons) and the no-truncation-before-test data flow; the two's-complement extraction inside num-bigint is trusted. Known finding F16: width 0 (u0/s0/i0) accepts values the formula rejects.",
    technique="static analysis: abstract interpretation of range predicates over a finite ordering/sign domain on MIR, decision-table differ, provenance (no narrowing between evaluation and test), dominance of the rejection edge",
    design_ref="3 RNG, 4 C04",
)

P["C06"] = dict(
    text="Static must-pass-through and who-may-write analysis of the layout code: every call that writes bits into the output BitVec is in an audited table of writers (a new writer is reported); in build_output every emission is dominated by the success edges of check_bank_usage, check_bank_output called with the same position and size as the write, and the overlap checker fed with the same position/size (so an item is checked against its bank window and all previous items before it is written); the position is computed by the one audited address->output-position function; the phases (banks resolved, iterative resolution, stop_at_errors, output) run in order behind their success edges; BitVec::write grows the vector with zeros only (no other initialiser), truncation never happens after a write; fill_banks extends exactly to the end of a bank flagged fill; and the layout arithmetic (outp + (a - addr) * bits + offset, window ends, label alignment) is checked for unchecked/wrapping operations on input-sized operands (LIM2). Added: the overlap checker records only items with bits, asks about and records the same position/size, and answers `no overlap` only after both neighbour comparisons; the bank range test involves position + item size; in every case where a bank has a size the bank-overlap decision reads it; alignments are computed on absolute addresses.",
    note="Decides the structural clause 'nothing is written unchecked, unchecked positions cannot wrap, gaps can only be zero'; the arithmetic identity position = outp + (a - addr) x bits for every value is read off the single audited expression, not proved for all integers. Known findings: remaining unchecked position arithmetic on absurdly large addresses (LIM2 position family, shared with C19).",
    technique="static analysis: dominance / success-edge must-pass-through over MIR, argument-provenance equality between checker and writer calls, who-may-call audit, magnitude-class taint on layout arithmetic",
    design_ref="3 MPT/PIPE, 4 C06",
)

P["C12"] = dict(
    text="Static agreement between what is written and what is listed: every bit-writing call either records a span with the same offset, size and address as the write (span = write, compared by operand provenance) or is an audited span-less writer; listings iterate spans sorted by output offset and print the span's own offset/addr/size fields (no recomputation), take the data from the same BitVec at [offset, offset+size) and the excerpt from the span's own source location through the byte-unit-correct excerpt path (UNIT/SRC rules of C13); the symbol formats walk the declaration list in declaration order, skip exactly the no_emit symbols, print the resolved value field of the definition, and the Mesen offset arithmetic is checked for unchecked operations. Added: layout units (bit / byte / address unit) in the listings; symbol listings sorted by the audited tie-free key expression.",
    note="Decides the structural agreement (rows come from the same records as the bits); that each formatter's text encodes those numbers correctly in every radix is value-level and not claimed beyond the constant-parameter checks of C11.",
    technique="static analysis: operand-provenance equality between write and span record, field-use audit in the listing formatters, sort-before-iterate dominance, enum/flag filter extraction from MIR",
    design_ref="3 MPT, 4 C12",
)

P["C01"] = dict(
    text="Structural necessary conditions of 'bits = language definition, rejected programs are errors', decided on every path: (REJ) in the instruction matcher and resolver, zero surviving matches, more than one surviving match of equal smallest size, an undefined symbol on the last pass, a failed range test and a failed assertion each reach an error report and an Err/Unresolved return on the last iteration, with no path that picks a candidate silently; the candidate chosen is the recorded unique match and its production is evaluated with the argument values bound by that match at the instruction's own address context; (PIPE) the phases run in order behind their success edges and the output is built only after stop_at_errors; (MPT) every instruction/data/label site emits or defines through the audited functions with the encoding/address just resolved; (RNG) the range tables of C04; (ERR5) no Err from the evaluation/matching layer is dropped or overwritten before inspection anywhere reachable from the entry points. Added: match identity (rule block, rule, arguments), both lookahead attempts, alignment on absolute addresses, the matcher shape rules of C07.",
    note="Decides the rejection and dataflow clauses structurally. NOT decided: that the emitted bits equal an independent reference semantics for every program (needs an executable reference and differential runs: out of this family). Known finding F16 (width-0 types) shared with C04.",
    technique="static analysis: path-state search for rejection paths over MIR, dominance / success-edge checks of the pipeline, provenance of the chosen candidate and its arguments, abstract interpretation of range predicates, interprocedural dropped-error analysis",
    design_ref="3 REJ/PIPE/MPT, 4 C01",
)

P["C14"] = dict(
    text="Static confinement and pairing rules for file inclusion: (INC1) every file name that reaches FileServer::get_handle from the assembler is the result of filename_navigate on the including file's name (or a root file name), at every call site including the recursive one; (INC2) every non-<std> result of filename_navigate is behind the success edge of filename_validate_relative, `..` with nothing left to pop is reported and rejected and the pop happens only on the other edge, only <std>/ names are returned verbatim, FileServerReal::get_handle never registers a <std>/ name from the disk, and the file-system API (std::fs, Path::exists/...) is called only by the audited methods of FileServerReal; (INC3) the recursive inclusion happens only on the false edge of the include-stack membership test of the navigated name (the true edge reports and fails), the stack is pushed before and popped after the recursion, the #once set is consulted before the file is opened and filled exactly on the `AST contains DirectiveOnce` edge; (INC4) in incbin and incbinstr/inchexstr the slice of the file contents is dominated by the failing-with-error tests `start >= len` and `end > len`, whose arithmetic is saturating/checked (LIM2). Added: one #once set for all root files; every path component goes through the `..` test; incbin slices the raw bytes; nested includes (known finding).",
    note="Decides confinement, cycle and #once structure and that ranges are tested before slicing; that the returned digits equal the file's digits for every content is value-level and not claimed. One genuine defect found and repaired (<std>/ names reached the disk).",
    technique="static analysis: value-provenance of call arguments over MIR, success-edge dominance, who-may-call audit of the file-system API, edge-dominance of recursion by the membership test, range-test dominance",
    design_ref="3 INC, 4 C14",
)

P["C15"] = dict(
    text="Static scope-agreement analysis of the symbol table: provenance expressions (parameters by position, calls with their arguments, field paths; references, clones and `?` looked through) are extracted from MIR and compared between sibling sites. In SymbolManager::declare the scope tested for duplicates, the scope inserted into and the scope recorded as the new context are all `enclosing[0..level]` of the same context parameter and level parameter; the insertion is behind the false edge of `level > enclosing.len()` (true edge: error) and the `not found` edge of the duplicate lookup (found edge: error); depth = level; the ItemRef is the index pushed at. try_get_by_name looks the written path up below get_parent(None, enclosing[0..level]) and finds nothing when the level exceeds the nesting; traverse/get_parent descend through name 0 in the children of the parent and recurse on the rest; get_by_name turns `not found` into an error. The AST walkers that carry a symbol context (declaration, matching, constants pre-pass, resolution, bank definitions) are discovered from the code and must each replace the context on every path through a Symbol node by the context recorded for that node's declaration, starting from the global context; evaluation receives the walker's current context and eval_variable looks names up with exactly (context of use, written level, written path) and rejects a value-less symbol once guessing is not allowed; the three parsers count one level per Dot token from zero and record the count; all symbols are declared before anything is resolved (PIPE).",
    note="Decides the lexical-scoping structure: which scope a declaration/reference lands in and that all phases agree on it. Not decided: that moving an address-independent constant changes nothing for every program (behavioural; its structural part is the declare-before-resolve phase order and the fixed-point rules of C02).",
    technique="static analysis: provenance-expression agreement between sibling call sites over MIR, edge-dominance of insertion by the rejection tests, discovered-sibling cross-check of AST walkers with a path search over the Symbol arm, counter def-use shape",
    design_ref="3 SYM, 4 C15",
)

P["C16"] = dict(
    text="Static shape analysis of conditional assembly and command-line definitions: in resolve_ifs the condition evaluated is the visited node's own (constants-only evaluation), the node is expanded only on the `is a boolean` edge, the node removed is the one decided, the true arm is spliced at exactly that position on the `true` edge and the false arm (if any) on the other, every expansion is counted and the count returned; check_leftover_ifs ends in Err on every path through a remaining #if, with a message on both outcomes of the strict re-evaluation; the pre-pass loop has `no further constant and no #if expanded` as its only non-error exit (the iteration budget plays no part); only the expansion reads the arms of an #if (who-reads audit, so an unselected arm can have no effect or visibility); in resolve_constant_simple the command-line definition matching the constant's declared full name is looked up before the constant's own expression is evaluated, replaces the value and freezes the symbol, a frozen symbol is never re-evaluated by the resolver, a definition that names no declared symbol fails the assembly, and the phase order puts the leftover check before definitions/matching and the unused-define check before output (PIPE).",
    note="Decides the selection, visibility and override structure. Not decided: that a condition's value is what the expression language says (C05) and termination bounds of the pre-pass. Known finding: an #include inside an #if arm is silently ignored (also listed under C14).",
    technique="static analysis: provenance-expression checks of splice/remove operands, edge-dominance by the condition's boolean, loop-exit classification, who-reads audit of struct fields, dominance of evaluation by the override lookup",
    design_ref="3 COND, 4 C16",
)

P["C17"] = dict(
    text="Static shape analysis of asm-block and user-function evaluation: eval_asm starts with the nesting-depth check of its own context and nothing runs on its failure edge; only instructions and top-level labels are accepted; the block is laid out from the enclosing instruction's position, the block-local position advances by the size of each resolved encoding and every instruction/label is evaluated in a context copy carrying that position; the block's passes forbid guessing only when the enclosing pass does; the text matched is the substituted text, evaluated in the hygienised copy of the caller's context extended by the block's labels; encodings are concatenated in order at full width; every rule parameter (typed or not, nested or not) is bound both by value and by argument text on every path; `{name}` prefers the argument text over the by-value local and both renamings use the same function one level deeper; a user function call checks the depth, checks the argument count before indexing, binds parameter i to argument i in a fresh deeper context and evaluates the body there (every evaluation of the body); asm blocks are never statically known (SK); every recursion cycle through the evaluator passes a depth guard (LIM1); the block's result is delivered only after a confirming strict pass (FIX1).",
    note="Decides the structural conditions of `expansion equals inlining`; equality of bits for every argument text is differential and not claimed. One genuine defect repaired (strictness of the block's confirming pass). Known findings: by-value locals handed through two levels of textual substitution are unbound; nesting depth of asm blocks is not bounded by the parse-depth counter.",
    technique="static analysis: dominance / success-edge checks, provenance expressions of context and position operands, def-use shape of the block-local position, path search for unconditional pairing of value and text bindings, call-graph SCC analysis with guard nodes",
    design_ref="3 ASM/FN, 4 C17",
)

NA_PENDING = "check not built yet (build in progress, see DESIGN.md section 9)"


# third-round additions (DESIGN.md section 10, end)
R3 = {
 "C01": " Also: the overlap checker's guarded insertion and neighbour comparisons (OVL) and the lookup-scope rule of the symbol table (too many dots find nothing).",
 "C02": " Also: ResolverContext::can_guess is exactly the negated strict flag; the stability comparison is over the whole kept value (declared field type), stores through mem::replace recognised; a rule parameter is marked `value known` only behind the static analysis of its argument (expression or nested match).",
 "C03": " Also: in assemble_with_command every Err reachable after a successful write_bytes is the `?` of another write_bytes (no failure after output was written).",
 "C04": " Also: who may declare a BigInt width (field stores, literals, BigInt::new with a width) against an audited table of 13 writers.",
 "C05": " Also: the literal parser's accumulator is updated exactly as value*radix + digit once per accepted digit with the radix that validated the digit; the only Ok of `@` is BigInt::concat over both operands' own declared widths.",
 "C06": " Also: every mutation of the overlap checker's entry list is the one guarded insertion; every Ok of check_bank_output is behind the range test or the `no size` edge.",
 "C08": " Also: the prefix query's result array is only initialised before the probing loop; SK match-locals as in C02.",
 "C09": " Also: can_guess definition and FIX2 whole-value stability comparisons (a change the comparison cannot see would make the result depend on the budget).",
 "C11": " Also: sibling agreement of the 15 formatters on how the bits are obtained (read_bit/len/get_blocks or the audited wrapper), and no partial digit-to-character conversion in the formatter module.",
 "C12": " Also: format_addrspan's line/column are a function of the row's own span over its own file's text; no partial digit-to-character conversion in the listings.",
 "C13": " Also: get_line_column_at_index counts one per character / line over char_indices; the source walker reads the stored text of its own handle unchanged.",
 "C14": " Also: separator-sensitive string operations of filename_navigate read the normalised spelling; every Ok of incbin/incstr is behind both range tests or is the empty-file answer; the #once test reads the node list before anything is spliced in.",
 "C17": " Also: a sub-rule argument is recorded with the span and text its own candidate consumed; can_guess definition.",
 "C18": " Also: the derived output name is the input path after the path library replaced its extension with the one chosen by the format match.",
}
R4 = {
 "C01": " Also (round 4): arguments of an instruction are evaluated in the context of the place where it stands, the rule body in one deeper context holding exactly its parameters; the prefix-index agreement rules (case, tokens); eval_address is handed the pass's own can_guess().",
 "C02": " Also (round 4): stability comparisons of sized values are value-and-size comparisons (is_identical) unless audited as size-blind-safe; an instruction is statically known only when all its candidates are.",
 "C03": " Also (round 4): the panic-guarded parameter domains of the formatters against the validators the driver applies; locating a diagnostic counts characters (no slicing at a byte index).",
 "C06": " Also (round 4): alignment errors are only waived under the pass's own can_guess().",
 "C07": " Also (round 4): exact_part_count counts Exact parts only.",
 "C08": " Also (round 4): instruction flag = all candidates statically known.",
 "C09": " Also (round 4): the driver is given opts.max_iterations unchanged; FIX2 size-aware; FIX3; instruction flag over all candidates.",
 "C11": " Also (round 4): a group that names a file always reaches write_bytes; get_blocks starts a new block at every gap.",
 "C12": " Also (round 4): stable sort of the listing rows; a label's bank is the resolver context's bank; composite expression nodes span their first operand (sibling agreement).",
 "C13": " Also (round 4): a field of a `{...}` directive block is located at its own name token; composite expression nodes span their first operand.",
 "C14": " Also (round 4): the empty-file exemption of the range rule cannot be taken by a test of a requested length.",
 "C16": " Also (round 4): a define's value keeps the width of its text (BigInt width writers audited); every sub-expression is asked should_propagate() before use (an unknown operand is `unknown`, not a type error).",
 "C17": " Also (round 4): argument-context and new_deepened (only the depth is inherited).",
 "C18": " Also (round 4): a name is derived only for groups that are written and unnamed; -d honoured first (COND define rules); the real file server creates (truncates) and writes.",
 "C19": " Also (round 4): LIM2 inspects operator-trait arithmetic on references to primitive integers.",
}
R5 = {
 "C02": " Also (round 5): parameters are always declared to the static analysis with their own argument's answer; arguments are analysed without the rule's parameters in scope; `$`/`pc` are never answered from the symbol table.",
 "C03": " Also (round 5): unchecked arithmetic in the formatters (LIM2), the read of args[1] in the inclusion functions is behind a `contents not empty` test, output names are derived after all inputs are known and every named group reaches the write.",
 "C04": " Also (round 5): no test of the length of a type name decides whether it is an integer type.",
 "C07": " Also (round 5): a blank of the pattern accepts a Whitespace or a Comment token, nothing else.",
 "C08": " Also (round 5): as C02; a function name outside the builtin table is never statically known.",
 "C09": " Also (round 5): the SK variant rules; listed finding: the asm block's inner pass limit is the user's budget.",
 "C11": " Also (round 5): the printed output is the formatted bytes unchanged; the real file server creates and writes.",
 "C12": " Also (round 5): listing digits read only bits inside the row's span; leaf expression spans are made of their own tokens; listed finding: parenthesised operands lose `(`.",
 "C13": " Also (round 5): `expected ...` errors at the cursor; field errors at the field; listed findings: a missing operand is reported on a later line (6 parsers), arguments of a substituted asm line are located in the unsubstituted text, parenthesised operands lose `(`.",
 "C14": " Also (round 5): stored rule productions and #fn bodies are evaluated under a context naming their own file.",
 "C15": " Also (round 5): the walker never sets the context back to global while walking; listed finding: a label declared in a selected #if arm does not enclose what follows the block.",
 "C16": " Also (round 5): listed finding shared with C15 (conditional scope).",
 "C17": " Also (round 5): the block's context differs from the call site's only in position and pass flags; listed finding: labels in asm blocks are not padded to #labelalign.",
 "C18": " Also (round 5): layout units of the Intel HEX address unit; output names derived after all inputs are known; printed bytes unchanged.",
 "C19": " Also (round 5): taint flows through Option/Result combinator closures.",
}
for _k, _v in R5.items():
    if _k in P and "text" in P[_k] and _v not in P[_k]["text"]:
        P[_k]["text"] += _v
for _k, _v in R4.items():
    if _k in P and "text" in P[_k] and _v not in P[_k]["text"]:
        P[_k]["text"] += _v
for _k, _v in R3.items():
    if _k in P and "text" in P[_k] and _v not in P[_k]["text"]:
        P[_k]["text"] += _v

R6 = {
 "C01": " Also (defect-hunt round): the address evaluated for an alignment inherits the caller's can_guess; #labelalign pads labels only; the alignment remainder is brought into 0..align before conversion (negative addresses).",
 "C03": " Also (defect-hunt round): maybe_* accessors never unwrap; the command line is read through args_os; two file-writing groups never share a name; a user number never becomes a run-time format width unbounded (listed finding: group:65536).",
 "C05": " Also (defect-hunt round): slice bounds are compared before either is converted; the string token ends where the unescaper's scan ends; byte strings are read as unsigned.",
 "C06": " Also (defect-hunt round): a boolean field with a value takes that value; alignment at negative addresses.",
 "C07": " Also (defect-hunt round): the end of a braced block and the operand lookahead are found token-wise (comments and strings skipped); listed finding: literal-over-expression precedence is decided by a rule-wide count.",
 "C11": " Also (defect-hunt round): Intel HEX records cover whole address units starting at a unit address.",
 "C12": " Also (defect-hunt round): a listing row's excerpt is one line; Mesen offsets scale the unit distance to bytes.",
 "C14": " Also (defect-hunt round): listed finding: `.` and empty components of the including path are not cleared before `..` is collapsed.",
 "C15": "",
 "C16": "",
 "C17": " Also (defect-hunt round): the alignment rules (guess flag, labels only).",
 "C18": " Also (defect-hunt round): two file-writing groups never share a name (not consulted for -h/-v); no print_all in the driver is handed a constant colour flag.",
 "C19": " Also (defect-hunt round): a WORD-class value is not a run-time format width or precision (listed finding: group:65536).",
}
for _k, _v in R6.items():
    if _k in P and "text" in P[_k] and _v not in P[_k]["text"]:
        P[_k]["text"] += _v

R7 = {
 "C01": " Also (round 6): an out-of-range argument fails its rule even when the production ignores the parameter; divisions by a bank's address unit are exact or checked; the alignment address is not remembered across banks; the operand lookahead goes character by character outside comments and strings.",
 "C02": " Also (round 6): the static flags of a match are computed for this match under the current symbol context, never remembered; `smallest` is decided on the sizes of the encodings just resolved.",
 "C03": " Also (round 6): no text is sliced at a constant byte offset outside three audited sites; the real file server creates the file it was asked for; a derived output name equals none of the inputs.",
 "C04": " Also (round 6): the answer of the argument range check is tested before it is bound to the parameter.",
 "C05": " Also (round 6): both operands of || and && are tested for being booleans, the left one before the right one is evaluated; an expression does not continue over a line break; keywords are whole identifiers; every result a capped primitive builds lies behind the cap test.",
 "C06": " Also (round 6): divisions by a bank's address unit have the remainder taken next to them (no rounding of positions or ends to whole addresses).",
 "C07": " Also (round 6): the operand lookahead steps over strings and otherwise goes by characters; a line ends outside braces only and is scanned by tokens; the instruction parser skips everything ignorable first; every rule is listed in the prefix index.",
 "C08": " Also (round 6): both matchers hand over their candidates in declaration order; every rule is listed in the prefix index; static flags are never remembered across instructions.",
 "C09": " Also (round 6): the budget bounds the resolver passes only - the constant/#if pre-pass runs to its fixed point.",
 "C11": " Also (round 6): get_blocks walks the items sorted by output offset; number formats are compared by kind.",
 "C12": " Also (round 6): the symbol walk descends into the children of every symbol; Mesen offsets add bits before dividing down to bytes; the parser reads the stored text unchanged.",
 "C13": " Also (round 6): a duplicate declaration is located at the later of the two spans (positions compared within one file only).",
 "C14": " Also (round 6): the empty-file answer of the inclusion functions is given only when no range was requested; every non-empty tree an inclusion hands back was parsed in that call.",
 "C15": " Also (round 6): no cell/atomic state in the symbol table; a name at the end of a line does not continue on the next line; names that start with a keyword are names.",
 "C16": " Also (round 6): a name bound during the pre-pass waits for pending #if blocks; a -d number is produced by the language's literal parser; the declaration walker updates the scope on every Symbol node.",
 "C17": " Also (round 6): a line of an asm block ends outside braces only; listed finding: a block that cannot be encoded ends the instruction instead of failing its candidate.",
 "C18": " Also (round 6): a format parameter given twice is rejected; a derived output name equals none of the inputs; every escape sequence goes through add_style.",
 "C19": " Also (round 6): every result a capped big-integer primitive builds lies behind the test against BIGINT_MAX_BITS.",
}
for _k, _v in R7.items():
    if _k in P and "text" in P[_k] and _v not in P[_k]["text"]:
        P[_k]["text"] += _v

R8 = {
 "C13": " Also (third hunt round): listed finding: an undeclared name in a constant's definition is reported at the constant's use by the constants-only phase.",
 "C14": " Also (third hunt round): listed finding: a path in an argument that travels into an asm block as text is resolved next to the rule's file.",
 "C15": " Also (third hunt round): the constants-only evaluators look names up in the symbol context of the place the expression stands at (dotted names in #if conditions, constants feeding them and #bankdef fields).",
 "C16": " Also (third hunt round): as C15; the former finding about dotted names in #if conditions is repaired.",
 "C17": " Also (third hunt round): #fn parameters are distinct names separated by commas; an empty argument leaves no blank at the end of a substituted line.",
 "C18": " Also (third hunt round): an option that takes a value is rejected when it is given without one.",
}
for _k, _v in R8.items():
    if _k in P and "text" in P[_k] and _v not in P[_k]["text"]:
        P[_k]["text"] += _v

R9 = {
 "C03": " Also (round 7): an optional bank setting (#outp, #size, #labelalign, and accessors that answer None for an absent one) is unwrapped only behind a dominating test of that setting; output names are compared after every name was settled.",
 "C07": " Also (round 7): the candidate loops cannot end before every candidate was tried; the exact-part count descends into every nested match.",
 "C08": " Also (round 7): the candidate loops cannot end before every candidate was tried.",
 "C10": " Also (round 7): a map insertion inside a loop over a hash container takes its key from one expression of the element (no collisions for the hash order to arbitrate).",
 "C11": " Also (round 7): a rounded-down granule count (len / granule) is never compared with a position.",
 "C14": " Also (round 7): every Ok of filename_navigate is the unchanged library path or comes after the `..` collapse loop.",
 "C15": " Also (round 7): an #if condition is evaluated under the context of the nearest preceding symbol of any depth (selection by node kind only).",
 "C17": " Also (round 7): the asm driver's pass counter runs up to the same budget as the main resolver's.",
 "C18": " Also (round 7): output names are compared after every name was settled.",
}
for _k, _v in R9.items():
    if _k in P and "text" in P[_k] and _v not in P[_k]["text"]:
        P[_k]["text"] += _v


def main():
    props = [json.loads(l) for l in open(os.path.join(VERIF, "properties.jsonl"))]
    checks = []
    na = []
    for p in props:
        pid = p["id"]
        e = P.get(pid)
        if e is None or "na" in e:
            na.append({"property_id": pid, "reason": (e or {}).get("na", NA_PENDING)})
            continue
        checks.append({
            "property_id": pid,
            "quick_cmd": "python3 lint/check.py %s --tier quick" % pid,
            "thorough_cmd": "python3 lint/check.py %s --tier thorough" % pid,
            "evidence_file": "/verif/evidence/%s.json" % pid,
            "replay_cmd_template": "python3 lint/check.py %s --replay {path}" % pid,
            "engine": "casmlint",
            "level_claimed": {"category": "other", "text": e["text"], "design_ref": "DESIGN.md section " + e["design_ref"]},
            "level_note": e["note"],
            "technique": e["technique"],
        })
    m = {
        "version": 1,
        "setup_cmd": "cd /verif/driver && CARGO_NET_OFFLINE=true cargo build --offline --release 2>&1 | tail -3 && test -x /verif/driver/target/release/casm-facts",
        "hooks": {
            "guard": "hlorenzi_customasm_verif",
            "enable": "no hooks: the analyses read the unmodified program; the only commits to /repo are unguarded `fix:` commits (see known_findings.json)",
            "baseline_off_cmd": "cd /repo && cargo test --workspace --no-fail-fast --offline",
            "source_commits": [],
            "add_only": True,
        },
        "engines": [
            {"name": "casm-facts", "path": "driver/", "serves_properties": [c["property_id"] for c in checks],
             "kind_free_text": "rustc_private driver (nightly) run as RUSTC_WORKSPACE_WRAPPER under cargo check on /repo's working tree; dumps type-checked MIR (resolved callees, places, constants, ADTs) of lib and bin as JSON facts"},
            {"name": "casmlint", "path": "lint/", "serves_properties": [c["property_id"] for c in checks],
             "kind_free_text": "python3 (stdlib only) rule engine over the facts: CFG/dominators, value origins, call graph, path-state search, constant-table extraction; one obligation per rule instance, exception tables in tables/, positive controls in fixtures/"},
        ],
        "checks": checks,
        "notes": "Technique family: static analysis only. Each check re-extracts MIR facts from /repo's current working tree (cached by tree hash under /verif/.cache), evaluates its rules and writes evidence/<id>.json. Exit 2 + BROKEN-CHECKER means the checker's own controls failed.",
        "not_applicable": na,
    }
    with open(os.path.join(VERIF, "MANIFEST.json"), "w") as fh:
        json.dump(m, fh, indent=1)
    print("claimed:", [c["property_id"] for c in checks])


if __name__ == "__main__":
    main()
