"""C04 — typed arguments and sized data accept exactly their range.

The three range predicates are loop-free functions of the atoms sign(v) in {-1,0,1}, min_size(v) <=> N and N == 0.
They are evaluated here on every consistent combination of atoms by a small interpreter over their MIR and compared
with the table the property's statement implies (lemma: m = min_size(v) is the minimal two's-complement width:
v > 0: v < 2^N <=> m <= N, v < 2^(N-1) <=> m < N; v < 0: v >= -2^(N-1) <=> m <= N; min_size(0) = 1)."""
import re
from mir import (peel, op_place, op_local, const_int, describe_origin)
import tables as T


class Sym(str):
    pass


def interp_predicate(f, sign, rel, size_zero, init_env=None, depth=0):
    """run closure f(x) -> bool with BigInt::sign(x) = sign, min_size(x) `rel` size, (size == 0) = size_zero.
    Calls of local helper predicates over (value, width) are interpreted too (two levels)."""
    env = dict(init_env or {})
    helper = init_env is not None
    b = 0
    steps = 0

    def val(op):
        c = const_int(op)
        if c is not None:
            return c
        pl = op_place(op)
        if pl is None:
            return None
        if not pl["p"]:
            return env.get(pl["l"])
        # captured upvar: (*_1).0 -> size
        return env.get(("place", pl["l"], tuple(str(x) for x in pl["p"])), Sym("SZ") if pl["l"] in (1,) or isinstance(env.get(pl["l"]), Sym) else None)

    def cmp(op, a, c):
        if isinstance(a, Sym) or isinstance(c, Sym):
            if a == "MS" and c == "SZ":
                r = rel
            elif a == "SZ" and c == "MS":
                r = {"<": ">", ">": "<", "=": "="}[rel]
            elif a == "SZ" and c == 0:
                r = "=" if size_zero else ">"
            elif a == 0 and c == "SZ":
                r = "=" if size_zero else "<"
            else:
                return None
        else:
            r = "<" if a < c else (">" if a > c else "=")
        return {"Eq": r == "=", "Ne": r != "=", "Lt": r == "<", "Le": r in ("<", "="), "Gt": r == ">", "Ge": r in (">", "=")}[op]

    while steps < 400:
        steps += 1
        blk = f.blocks[b]
        for st in blk["stmts"]:
            if st["k"] != "assign" or st["place"]["p"]:
                continue
            rv = st["rv"]
            dl = st["place"]["l"]
            if rv["k"] == "use":
                pl = op_place(rv["op"])
                if pl is not None and pl["p"] and pl["l"] == 1 and not helper:
                    env[dl] = Sym("UP")          # reference to the captured size
                elif pl is not None and pl["p"] and isinstance(env.get(pl["l"]), Sym) and env.get(pl["l"]) == "UP":
                    env[dl] = Sym("SZ")
                else:
                    env[dl] = val(rv["op"])
            elif rv["k"] == "ref":
                base = env.get(rv["place"]["l"])
                env[dl] = Sym("SZ") if (isinstance(base, Sym) and base == "SZ") else Sym("X")
            elif rv["k"] == "binop":
                a, c = val(rv["l"]), val(rv["r"])
                op = rv["op"]
                if op in ("Eq", "Ne", "Lt", "Le", "Gt", "Ge"):
                    env[dl] = cmp(op, a, c)
                elif op in ("BitOr", "BitAnd") and isinstance(a, bool) and isinstance(c, bool):
                    env[dl] = (a or c) if op == "BitOr" else (a and c)
                else:
                    env[dl] = None
            elif rv["k"] == "unop" and rv["op"] == "Not":
                x = val(rv["x"])
                env[dl] = (not x) if isinstance(x, bool) else None
            else:
                env[dl] = None
        t = blk["term"]
        k = t["k"]
        if k == "return":
            r_ = env.get(0)
            if isinstance(r_, int) and not isinstance(r_, bool) and r_ in (0, 1):
                r_ = bool(r_)
            return r_
        if k == "goto":
            b = t["target"]
        elif k == "call":
            r = t.get("resolved") or ""
            dl = t["dest"]["l"]
            if r.endswith("BigInt::sign"):
                env[dl] = sign
            elif r.endswith("BigInt::min_size"):
                env[dl] = Sym("MS")
            else:
                g = f.prog.fn(r) if t.get("resolved_local") else None
                if g is None or depth >= 2 or g.kind == "Closure":
                    return ("unknown-call", r)
                ienv = {}
                for i_, a_ in enumerate(t["args"]):
                    v_ = val(a_)
                    if v_ is None:
                        return ("unknown-call", r)
                    ienv[i_ + 1] = v_
                res = interp_predicate(g, sign, rel, size_zero, ienv, depth + 1)
                if isinstance(res, tuple):
                    return res
                env[dl] = res
            b = t["target"]
        elif k == "switch":
            v = val(t["discr"])
            if isinstance(v, bool):
                v = 1 if v else 0
            if not isinstance(v, int):
                return ("unknown-switch", b)
            nb = None
            for vv, tg in t["targets"]:
                if int(vv) == v:
                    nb = tg
            b = nb if nb is not None else t["otherwise"]
        elif k in ("drop", "assert"):
            b = t["target"]
        else:
            return ("unknown-term", k)
    return ("loop",)


def oracle(kind, sign, rel, size_zero):
    """should the value be REJECTED according to the statement?"""
    if sign == 0:
        return False
    if kind == "Unsigned":
        return sign == -1 or rel == ">"
    if kind == "Signed":
        return (sign == 1 and rel in ("=", ">")) or (sign == -1 and rel == ">")
    if kind == "Integer":
        return rel == ">"
    raise ValueError(kind)


def consistent_cases():
    for sign in (-1, 0, 1):
        for rel in ("<", "=", ">"):
            for z in (False, True):
                # min_size >= 1 always: N == 0 implies min_size > N
                if z and rel != ">":
                    continue
                # min_size(0) = 1: for v = 0, rel is '>' iff N == 0
                if sign == 0 and ((rel == ">") != z):
                    continue
                yield sign, rel, z


def range_tables(run):
    R = "RNG"
    prog = run.prog
    f = run.anchor(R, "instruction::check_and_constrain_argument")
    if f is None:
        return
    sw = T.enum_switch_arms(f, "RuleParameterType")
    if not sw:
        run.violation(R, R + "|anchor|switch", f.loc(), "mechanism not found: match on the parameter type")
        return
    b0, arms, otherwise, place, variants = sw[0]
    n = 0
    for kind in ("Unsigned", "Signed", "Integer"):
        if kind not in arms:
            run.violation(R, "%s|%s|arm" % (R, kind), f.loc(), "parameter type %s has no arm in check_and_constrain_argument" % kind)
            continue
        reg = T.dominated_region(f, arms[kind], b0)
        cid = None
        prefix = None
        from mir import closure_of_origin
        for b, t in T.region_calls(f, reg):
            if (t.get("resolved") or "").endswith("check_and_constrain_value_for_integer_type"):
                cid = closure_of_origin(f.origin_op(t["args"][-1]))
                from rules_tab import cstr
                prefix = cstr(f, t["args"][3]) if len(t["args"]) > 3 else None
                size_desc = describe_origin(f, f.origin_op(t["args"][2]))
                run.check(("@" + kind) in size_desc, R, "%s|%s|size-arg" % (R, kind), f.loc(t["span"]), "%s(N): the width passed on is the type's own N" % kind,
                          "%s(N): the width passed to the checker is `%s`, not the type's own N" % (kind, size_desc))
        g = prog.fn(cid) if cid else None
        if g is None:
            run.violation(R, "%s|%s|predicate" % (R, kind), f.loc(), "mechanism not found: range predicate closure for %s" % kind)
            continue
        want_prefix = {"Unsigned": "u", "Signed": "s", "Integer": "i"}[kind]
        run.check(prefix == want_prefix, R, "%s|%s|typename" % (R, kind), f.loc(), "%s is reported as `%s<N>`" % (kind, prefix), "%s is reported with prefix `%s`" % (kind, prefix))
        for sign, rel, z in consistent_cases():
            n += 1
            got = interp_predicate(g, sign, rel, z)
            want = oracle(kind, sign, rel, z)
            case = "sign=%+d,min_size%sN,%s" % (sign, rel, "N=0" if z else "N>0")
            key = "%s|%s|%s" % (R, kind, case)
            if not isinstance(got, bool):
                run.violation(R, key, g.loc(), "%s: the range predicate could not be evaluated for %s (%s): it is no longer a function of sign / min_size / width" % (kind, case, got))
                continue
            run.check(got == want, R, key, g.loc(),
                      "%s, %s: %s as the statement prescribes" % (kind, case, "rejected" if got else "accepted"),
                      "%s, %s: the predicate %s the value, the statement's formula %s it" % (kind, case, "rejects" if got else "accepts", "rejects" if want else "accepts"))
    run.count("rng_cases", n)
    run.floor(R, "abstract range cases", n, 33)
    # the constrained value gets exactly the type's width; failures become FailedConstraint, never a truncated value
    h = run.anchor(R, "instruction::check_and_constrain_value_for_integer_type")
    if h:
        fc = [bi for bi, si, st in h.stmts() if st["k"] == "assign" and st["rv"]["k"] == "agg" and st["rv"].get("variant") == "FailedConstraint"]
        size_store = []
        for bi, si, st in h.stmts():
            if st["k"] == "assign" and st["place"]["p"] and isinstance(st["place"]["p"][-1], dict) and st["place"]["p"][-1].get("name") == "size":
                o = peel(h.origin_op(st["rv"]["op"])) if st["rv"]["k"] == "use" else None
                if o and o[0] == "agg" and o[1].get("variant") == "Some":
                    d = describe_origin(h, h.origin_op(o[1]["ops"][0]))
                    size_store.append((bi, d))
        # the predicate call and its switch
        pc = [(bi, t) for bi, t in h.calls() if t.get("callee") in ("std::ops::Fn::call", "std::ops::FnMut::call_mut", "std::ops::FnOnce::call_once")]
        ok = False
        if pc and fc and size_store:
            bi, t = pc[0]
            sw2 = T.bool_test(h, t)
            if sw2:
                treg = T.dominated_region(h, sw2[0], sw2[2])
                freg = T.dominated_region(h, sw2[1], sw2[2])
                ok = all(b in treg for b in fc) and all(b in freg for b, d in size_store) and all(re.match(r"^param:\w+$", d) and _is_usize_param(h, d) for b, d in size_store)
        run.check(ok, R, R + "|constrain", h.loc(), "a value failing the predicate becomes FailedConstraint; a passing value gets size = Some(N)",
                  "check_and_constrain_value_for_integer_type no longer maps failure to FailedConstraint and success to size = Some(N)")
    # every expression argument bound to a rule parameter went through the check
    m = run.anchor(R, "instruction::resolve_instruction_match_inner")
    if m:
        from rules_asm import binding_calls
        sets = binding_calls(prog, m, ("set_local",))
        ok = bool(sets)
        bad = []
        for bi, t in sets:
            o = m.origin_op(t["args"][2]) if len(t["args"]) > 2 else None
            d = describe_origin(m, o) if o else "?"
            src = None
            from rules_err import ErrAnalysis
            # payload of `?` on check_and_constrain_argument or on the nested-match resolver
            ea = ErrAnalysis(prog)
            ct = ea.payload_call_origin(m, o) if o else None
            nm = (ct.get("resolved") or "") if ct else d
            if not (nm.endswith("check_and_constrain_argument") or nm.endswith("resolve_instruction_match")):
                bad.append(nm)
        run.check(ok and not bad, R, R + "|bind-checked", m.loc(), "every value bound to a rule parameter comes from check_and_constrain_argument (or a nested rule's result)",
                  "a rule parameter is bound to a value that did not pass check_and_constrain_argument: %s" % bad)


def min_size_shape(run):
    R = "RNG"
    prog = run.prog
    f = run.anchor(R, "util::bigint::BigInt::min_size")
    if f is None:
        return
    # NoSign -> 1 ; negative -> bits(x + 1) + 1 ; else bits(x)
    consts = [const_int(st["rv"]["op"]) for bi, si, st in f.stmts() if st["k"] == "assign" and st["place"]["l"] == 0 and st["rv"]["k"] == "use" and const_int(st["rv"]["op"]) is not None]
    calls = [(t.get("callee") or "") for bi, t in f.calls()]
    has_bits = sum(1 for c in calls if c.endswith("BigInt::bits")) >= 2
    has_plus1_value = any(c.endswith("Add::add") or "Add" in c for c in calls)
    plus1_bits = False
    for bi, si, st in f.stmts():
        if st["k"] == "assign" and st["rv"]["k"] == "binop" and st["rv"]["op"].startswith("Add") and const_int(st["rv"]["r"]) == 1:
            o = peel(f.origin_op(st["rv"]["l"]))
            if o[0] == "call" and (o[1].get("callee") or "").endswith("bits"):
                plus1_bits = True
    run.check(consts == [1] and has_bits and has_plus1_value and plus1_bits, R, R + "|min_size-shape", f.loc(),
              "min_size: 0 -> 1; negative x -> bits(x + 1) + 1; positive x -> bits(x) (the lemma the range tables rest on)",
              "BigInt::min_size no longer has the shape 0 -> 1, negative -> bits(x+1)+1, positive -> bits(x): the minimal-width lemma behind every range test changed")
    g = run.anchor(R, "util::bigint::BigInt::size_or_min_size")
    if g:
        ok = any((t.get("resolved") or "").endswith("BigInt::min_size") for bi, t in g.calls())
        rets = [describe_origin(g, g.origin_op(st["rv"]["op"])) for bi, si, st in g.stmts() if st["k"] == "assign" and st["place"]["l"] == 0 and st["rv"]["k"] == "use"]
        run.check(ok and any(".size@Some" in d or "size" in d for d in rets), R, R + "|size_or_min_size", g.loc(),
                  "size_or_min_size: the declared size if any, else min_size", "size_or_min_size no longer returns the declared size or else min_size")


def _is_usize_param(h, d):
    """d = `param:<name>`: a usize parameter of h (the declared width), whatever it is called"""
    nm = d.split(":", 1)[1]
    return any(h.local_name(i) == nm and h.local_ty(i) == "usize" for i in range(1, h.arg_count + 1))


def data_width(run):
    R = "RNG"
    prog = run.prog
    f = run.anchor(R, "data_block::resolve_data_element")
    if f is None:
        return
    # reject iff size_or_min_size(value) > elem_size
    cmpb = None
    for bi, si, st in f.stmts():
        if st["k"] == "assign" and st["rv"]["k"] == "binop" and st["rv"]["op"] in ("Gt", "Ge", "Lt", "Le"):
            dl = describe_origin(f, f.origin_op(st["rv"]["l"]))
            dr = describe_origin(f, f.origin_op(st["rv"]["r"]))
            if "size_or_min_size" in dl + dr and "elem_size" in dl + dr:
                cmpb = (bi, st, dl, dr)
    if cmpb is None:
        run.violation(R, R + "|data|test", f.loc(), "mechanism not found: comparison of size_or_min_size(value) with the directive's element size")
        return
    bi, st, dl, dr = cmpb
    ok_shape = st["rv"]["op"] == "Gt" and "size_or_min_size" in dl and "elem_size" in dr
    run.check(ok_shape, R, R + "|data|predicate", f.loc(st["span"]), "data element rejected iff size_or_min_size(value) > element width",
              "the data range test is `%s %s %s`, the statement requires `size_or_min_size(value) > width`" % (dl, st["rv"]["op"], dr))
    t = f.blocks[bi]["term"]
    rej_ok = False
    true_t = None
    if t["k"] == "switch" and op_local(t["discr"]) == st["place"]["l"]:
        ft = [tg for v, tg in t["targets"] if v == "0"]
        true_t = t["otherwise"]
        reg = T.dominated_region(f, true_t, bi)
        from rules_tab import err_return_in_region
        rej_ok = err_return_in_region(f, reg) and not any(b in reg for b in _ok_blocks(f))
    run.check(rej_ok, R, R + "|data|reject-is-error", f.loc(st["span"]), "an over-wide value ends in Err (after the out-of-range message)",
              "an over-wide data value does not end in Err")
    # no truncation: the slice to the element width is reachable without the test only when neither
    # is_last_iteration nor encoding_statically_known holds
    sl = []
    for g in [f] + [x for x in prog.real_fns() if x.kind == "Closure" and x.raw.get("parent") == f.id]:
        for b2, t2 in g.calls():
            if (t2.get("resolved") or "").endswith("BigInt::slice") or (t2.get("resolved") or "").endswith("BigInt::checked_slice"):
                sl.append((g, b2))
    run.check(bool(sl), R, R + "|data|slice-site", f.loc(), "the value is cut to the element width by BigInt::slice (%d site(s))" % len(sl), "mechanism not found: slice to the element width")
    # where the closure holding the slice is created / the slice is called in f
    site_blocks = []
    for bi2, si2, st2 in f.stmts():
        if st2["k"] == "assign" and st2["rv"]["k"] == "agg" and st2["rv"].get("agg") == "closure":
            cid = st2["rv"]["closure"]
            if any(g.id == cid for g, _ in sl):
                site_blocks.append(bi2)
    site_blocks += [b2 for g, b2 in sl if g is f]
    # path search with the atoms is_last_iteration, encoding_statically_known, elem_size is None, and "passed the test"
    from pathsearch import Search

    def atom_of(b):
        tt = f.blocks[b]["term"]
        if tt["k"] != "switch" or op_local(tt["discr"]) is None:
            return None
        dl = op_local(tt["discr"])
        o = f.origin_local(dl)
        if o[0] == "discr":
            d = describe_origin(f, o[1])
            if d.endswith(".elem_size"):
                return ("none", None)
            return None
        root = f.copy_root(dl)
        d = describe_origin(f, f.origin_local(root))
        if d.endswith(".is_last_iteration"):
            return ("last", None)
        if d.endswith(".encoding_statically_known"):
            return ("static", None)
        # a named `is_last_iteration || encoding_statically_known`: a bool assigned `true` on one edge and the other flag
        # on the other
        ds = f.full_defs(root)
        if len(ds) >= 2 and all(x[0] == "stmt" and x[3]["k"] == "assign" and x[3]["rv"]["k"] == "use" for x in ds):
            parts = set()
            for x in ds:
                op = x[3]["rv"]["op"]
                if const_int(op) == 1:
                    parts.add("true")
                elif op_place(op) is not None:
                    parts.add(describe_origin(f, f.origin_op(op)).rsplit(".", 1)[-1])
                else:
                    parts.add("?")
            if parts <= {"true", "is_last_iteration", "encoding_statically_known"} and ("is_last_iteration" in parts or "encoding_statically_known" in parts):
                # which flag decided the `true` assignment: the switch that dominates it
                return ("either", None)
        return None

    pass_edge = None
    tt = f.blocks[bi]["term"]
    if tt["k"] == "switch":
        ft = [tg for v, tg in tt["targets"] if v == "0"]
        if ft:
            pass_edge = (bi, ft[0])

    def step(b, st):
        last, static, none, tested = st
        tt = f.blocks[b]["term"]
        k = tt["k"]
        if k == "return":
            return []
        if k == "switch":
            a = atom_of(b)
            outs = []
            for v, tg in list(tt["targets"]) + [("else", tt["otherwise"])]:
                if v == "else" and f.blocks[tg]["term"]["k"] == "unreachable":
                    continue
                nl, ns, nn, nt = last, static, none, tested
                if a:
                    val = 0 if v == "0" else 1
                    if a[0] == "last":
                        if last is not None and last != val:
                            continue
                        nl = val
                    elif a[0] == "static":
                        if static is not None and static != val:
                            continue
                        ns = val
                    elif a[0] == "either":
                        if val == 0:
                            if last == 1 or static == 1:
                                continue
                            nl, ns = 0, 0
                        else:
                            if last == 0 and static == 0:
                                continue
                            if last is None and static is None:
                                nl = 1
                    elif a[0] == "none":
                        listed0 = any(vv == "0" for vv, _ in tt["targets"])
                        isnone = 1 if (v == "0" or (v == "else" and not listed0)) else 0
                        if none is not None and none != isnone:
                            continue
                        nn = isnone
                if (b, tg) == pass_edge:
                    nt = 1
                outs.append((tg, (nl, ns, nn, nt)))
            return outs
        return [(s_, st) for s_ in f.succs(b)]

    S = Search(f, (None, None, None, 0), step)
    bad_states = []
    for (b, st) in S.seen:
        if b in site_blocks:
            last, static, none, tested = st
            if not tested and none != 1 and not (last == 0 and static == 0):
                bad_states.append(st)
    ok = bool(site_blocks) and pass_edge is not None and not bad_states
    run.check(ok, R, R + "|data|no-truncation", f.loc(), "the cut to the element width is reached either past the range test or only when the pass is neither last nor statically known",
              "the value can be cut to the element width in a last (or statically known) pass without having passed the range test: silent truncation")


def _ok_blocks(f):
    return [bi for bi, si, st in f.stmts() if st["k"] == "assign" and st["place"]["l"] == 0 and not st["place"]["p"] and st["rv"]["k"] == "agg" and st["rv"].get("variant") == "Ok"]


def typenames(run):
    R = "RNG"
    prog = run.prog
    f = run.anchor(R, "directive_ruledef::interpret_typename")
    if f:
        radix = [const_int(t["args"][1]) for bi, t in f.calls() if (t.get("callee") or "").endswith("from_str_radix") and len(t["args"]) > 1]
        run.check(radix == [10], R, R + "|typename|radix", f.loc(), "type widths are decimal", "type widths are parsed with radix %s" % radix)
        # char -> variant
        got = {}
        for b in sorted(f.reachable()):
            t = f.blocks[b]["term"]
            if t["k"] == "switch" and t.get("discr_ty") == "char":
                for v, tg in t["targets"]:
                    for bb in [tg] + f.succs(tg):
                        for st in f.blocks[bb]["stmts"]:
                            if st["k"] == "assign" and st["rv"]["k"] == "agg" and st["rv"].get("adt", "").endswith("AstRuleParameterType"):
                                got[chr(int(v))] = st["rv"]["variant"]
        run.check(got == {"u": "Unsigned", "s": "Signed", "i": "Integer"}, R, R + "|typename|table", f.loc(), "u/s/i map to Unsigned/Signed/Integer", "type name table is %s" % got)
        # a name is an integer type by its letter and its decimal width alone -- not by how many characters it has
        from rules_sym import deep as _deep
        lens = []
        for bi, si, st in f.stmts():
            if st["k"] == "assign" and st["rv"]["k"] == "binop" and st["rv"]["op"] in ("Lt", "Le", "Gt", "Ge", "Eq", "Ne"):
                for o in (st["rv"]["l"], st["rv"]["r"]):
                    if re.search(r"str::len\(P\d+\)|String::len\(P\d+\)|Iterator::count\(str::chars\(P\d+\)\)", _deep(f, o, 4)):
                        lens.append(f.loc(st["span"]))
        run.check(not lens, R, R + "|typename|no-length-test", f.loc(), "no test of the length of a type name decides whether it is an integer type",
                  "interpret_typename tests the length of the type name (%s): integer types of some widths (`u128`, `s1024`) would be taken for sub-rule names" % ", ".join(lens))
    # #d<N>
    for g in prog.real_fns():
        if g.id.startswith("asm::parser::directive::parse") or g.id.startswith("asm::parser::directive_data::parse"):
            for bi, t in g.calls():
                if (t.get("callee") or "").endswith("from_str_radix") and len(t["args"]) > 1:
                    run.check(const_int(t["args"][1]) == 10, R, R + "|dN|radix|" + g.id, g.loc(t["span"]), "%s parses the #d<N> width in decimal" % g.id, "%s parses the #d<N> width with radix %s" % (g.id, const_int(t["args"][1])))


def size_writers(run, R="RNG"):
    """who may declare the width of a BigInt.  `#dN`, typed parameters and `@` trust `size` when it is present
    (size_or_min_size, concat), so a writer that declares a width the value does not fit silently cuts bits downstream.
    Every function that stores into BigInt.size, builds a BigInt literal, or calls BigInt::new with a width is compared
    with the audited table (tables/operators.json: size_writers)."""
    from rules_sym import deep
    prog = run.prog
    audited = run.table("operators")["size_writers"]
    writers = {}
    for f in prog.real_fns():
        root = f.raw.get("root") or f.id
        for bi, si, st in f.stmts():
            if st["k"] != "assign":
                continue
            pr = st["place"]["p"]
            if pr and isinstance(pr[-1], dict) and pr[-1].get("name") == "size" and "Option<usize>" in (pr[-1].get("ty") or ""):
                # the struct the field belongs to
                owner = f.local_ty(st["place"]["l"]) if len(pr) == 1 else None
                if owner is None:
                    prev = [x for x in pr[:-1] if isinstance(x, dict) and x.get("ty")]
                    owner = prev[-1]["ty"] if prev else f.local_ty(st["place"]["l"])
                if re.search(r"(^|::)BigInt$", (owner or "").replace("&mut ", "").replace("&", "")):
                    writers.setdefault(root, []).append(("store", st["span"]))
            if st["rv"]["k"] == "agg" and st["rv"].get("agg") == "adt" and st["rv"].get("adt", "").endswith("bigint::BigInt"):
                flds = st["rv"].get("fields") or []
                if "size" in flds and deep(f, st["rv"]["ops"][flds.index("size")], 3) != "None{}":
                    writers.setdefault(root, []).append(("literal", st["span"]))
        for bi, t in f.calls():
            if (t.get("callee") or "").endswith("bigint::BigInt::new") and len(t["args"]) == 2 and deep(f, t["args"][1], 3) != "None{}":
                writers.setdefault(root, []).append(("new", t["span"]))
    for w in sorted(writers):
        kind, span = writers[w][0]
        f = prog.fn(w)
        run.check(w in audited, R, "%s|size-writer|%s" % (R, w), f.loc(span) if f else "-",
                  "%s declares a BigInt width (%s): audited -- %s" % (w, "/".join(sorted(set(k for k, _ in writers[w]))), audited.get(w, "")),
                  "%s declares the width of a BigInt (%s) but is not an audited writer: `#dN`, typed parameters and `@` trust a declared width, so a width the value does not fit cuts bits silently" % (w, "/".join(sorted(set(k for k, _ in writers[w])))))
    run.floor(R, "BigInt width writers", len(writers), 13)


def constrained_value_tested(run, R="RNG"):
    """the answer of the argument range check decides the candidate whether or not the production reads the parameter: wherever
    `check_and_constrain_argument` is called, its value is asked `should_propagate()` (a failed constraint propagates) and is bound
    to a parameter (`set_local`) only on the `does not propagate` edge"""
    import tables as T
    from rules_tab import value_depends_on
    n = 0
    for f in run.prog.real_fns():
        for bi, t in f.calls():
            if not (t.get("resolved") or t.get("callee") or "").endswith("instruction::check_and_constrain_argument"):
                continue
            n += 1
            dl = t["dest"]["l"]
            tests = []
            for b2, t2 in f.calls():
                if (t2.get("resolved") or t2.get("callee") or "").endswith("Value::should_propagate") and any(value_depends_on(f, a, dl) for a in t2["args"]):
                    bt = T.bool_test(f, t2)
                    if bt:
                        tests.append(bt)
            from rules_asm import binding_calls
            binds = [(b2, t2) for b2, t2 in binding_calls(run.prog, f, ("set_local",)) if any(value_depends_on(f, a, dl) for a in t2["args"])]
            ok = bool(tests) and bool(binds) and all(any(f.edge_dominates(sb, fe, b2) for te, fe, sb in tests) for b2, _ in binds)
            root = f.raw.get("root") or f.id
            run.check(ok, R, "%s|constrained-value-tested|%s" % (R, root.split("::")[-1]), f.loc(t["span"]),
                      "%s: the range check's answer is tested before it is bound to the parameter (%d binding(s))" % (root.split("::")[-1], len(binds)),
                      "%s binds the answer of the range check to the parameter without looking at it (no `should_propagate` test before `set_local`): an out-of-range argument is accepted whenever the production does not read the parameter - `nop {x: u8} => 0x00` assembles `nop 300`" % root.split("::")[-1])
    run.floor(R, "calls of check_and_constrain_argument", n, 1)
