#!/usr/bin/env python3
"""Silence test: behaviour-preserving edits (renamed locals and parameters, reordered independent statements, extracted
helpers) are applied to a scratch copy of /repo; the copy must still compile and the named checks must stay silent.
usage: neutral.py [--name substr] [--jobs N]"""
import argparse, os, re, shutil, subprocess, sys, tempfile
from concurrent.futures import ThreadPoolExecutor

VERIF = os.path.dirname(os.path.dirname(os.path.abspath(__file__)))


def fn_extent(src, fn_name, nth=0):
    """(start, end) offsets of the nth `fn fn_name` item (signature to closing brace at the signature's indentation)"""
    ms = list(re.finditer(r"^([ \t]*)(?:pub(?:\([a-z]+\))? )?fn %s\b" % re.escape(fn_name), src, re.M))
    m = ms[nth]
    # the body's closing brace: first line after the opening `{` line that consists of a `}` at an indentation not deeper
    # than the body's first statement minus one level (files mix tabs and spaces)
    ob = src.index("{", src.index(")", m.end()))
    depth = 0
    i = ob
    while i < len(src):
        c = src[i]
        if c == '"':
            i += 1
            while src[i] != '"':
                i += 2 if src[i] == "\\" else 1
        elif c == "'" and src[i + 2:i + 3] == "'":
            i += 2
        elif c == "'" and src[i + 1] == "\\":
            i = src.index("'", i + 2)
        elif c == "/" and src.startswith("//", i):
            i = src.index("\n", i)
        elif c == "{":
            depth += 1
        elif c == "}":
            depth -= 1
            if depth == 0:
                return m.start(), i + 1
        i += 1
    raise ValueError("no end of fn " + fn_name)


KEYWORDS_BEFORE_BLOCK = {"else", "loop", "unsafe", "move", "in", "match", "if", "while", "for", "return", "async"}


def _rename(body, old, new):
    """rename identifier `old` to `new` in a function's text: every use, binding and parameter, but not struct-literal
    field names (shorthand `old,` becomes `old: new,`), field accesses or method names"""
    out = []
    stack = []      # (delimiter, is_struct_literal)
    i = 0
    n = len(body)
    prev_tok = ""   # previous non-space token (identifier or single char)
    prev_sig = ""   # previous significant char
    while i < n:
        c = body[i]
        if c == "/" and body.startswith("//", i):
            j = body.find("\n", i)
            j = n if j < 0 else j
            out.append(body[i:j]); i = j
            continue
        if c == "'" and body[i + 2:i + 3] == "'":
            out.append(body[i:i + 3]); i += 3; prev_tok = "'"; prev_sig = "'"     # a character literal such as '"' or '{'
            continue
        if c == "'" and body[i + 1:i + 2] == "\\" and body.find("'", i + 2) > 0 and body.find("'", i + 2) - i <= 8:
            j = body.find("'", i + 2)
            out.append(body[i:j + 1]); i = j + 1; prev_tok = "'"; prev_sig = "'"
            continue
        if c == '"':
            j = i + 1
            while j < n and body[j] != '"':
                j += 2 if body[j] == "\\" else 1
            out.append(body[i:j + 1]); i = j + 1; prev_tok = '"'; prev_sig = '"'
            continue
        if c.isalpha() or c == "_":
            j = i
            while j < n and (body[j].isalnum() or body[j] == "_"):
                j += 1
            word = body[i:j]
            if word == old and not (prev_sig == "." and not "".join(out[-3:]).endswith("..")) and not (prev_sig == ":" and out and "".join(out).rstrip().endswith("::")):
                k = j
                while k < n and body[k] in " \t\n":
                    k += 1
                nxt = body[k] if k < n else ""
                nxt2 = body[k:k + 2]
                in_struct = bool(stack) and stack[-1][1] and prev_sig in ("{", ",")
                if nxt == "(" and prev_tok != "|":
                    out.append(word)                       # a function/method of that name, not the variable
                elif in_struct and nxt == ":" and nxt2 != "::":
                    out.append(word)                       # field name
                elif in_struct and nxt in (",", "}"):
                    out.append("%s: %s" % (old, new))     # shorthand
                else:
                    out.append(new)
            else:
                out.append(word)
            prev_tok = word; prev_sig = word[-1]; i = j
            continue
        if c in "({[":
            is_struct = False
            if c == "{":
                is_struct = (prev_tok not in KEYWORDS_BEFORE_BLOCK) and (prev_sig.isalnum() or prev_sig in "_>") and prev_sig not in ")"
                # `-> Type {` (function body) and `=> {` are blocks
                t = "".join(out).rstrip()
                if re.search(r"(->\s*[\w:<>, ()&'\[\]]+|=>|\)|where[^{;]*)$", t) and not re.search(r"[A-Z]\w*(::<[^>]*>)?$", t.split("=>")[-1].strip() if "=>" in t[-40:] else "x"):
                    pass
                if re.search(r"->\s*[^{;=]+$", t[-200:]) or re.search(r"\bwhere\b[^{;]*$", t[-300:]):
                    is_struct = False
                if not re.search(r"[A-Z][A-Za-z0-9_]*(::<[^<>]*>)?$", t):
                    is_struct = False
            stack.append((c, is_struct))
        elif c in ")}]":
            if stack:
                stack.pop()
        out.append(c)
        if not c.isspace():
            prev_tok = c; prev_sig = c
        i += 1
    return "".join(out)


def rename_in_fn(src, fn_name, mapping, nth=0):
    a, b = fn_extent(src, fn_name, nth)
    body = src[a:b]
    for old, new in mapping.items():
        body = _rename(body, old, new)
    return src[:a] + body + src[b:]


CASES = []


def case(name, props):
    def deco(fn):
        CASES.append((name, props, fn))
        return fn
    return deco


def edit(tmp, rel, f):
    p = os.path.join(tmp, rel)
    s = open(p, encoding="utf-8").read()
    s2 = f(s)
    assert s2 != s, "no change in " + rel
    open(p, "w", encoding="utf-8").write(s2)


@case("rename-resolved_count", ["C15", "C16"])
def _(tmp):
    edit(tmp, "src/asm/resolver/directive_if.rs", lambda s: rename_in_fn(s, "resolve_ifs", {"resolved_count": "expanded"}))
    edit(tmp, "src/asm/resolver/constant.rs", lambda s: rename_in_fn(s, "resolve_constants_simple", {"resolved_count": "known"}))


@case("rename-asm-block-locals", ["C17", "C02", "C09", "C19"])
def _(tmp):
    edit(tmp, "src/asm/resolver/eval_asm.rs", lambda s: rename_in_fn(s, "resolve_once", {"cur_position": "pos", "inner_ctx": "ictx", "result": "acc", "new_eval_ctx": "ectx"}))


@case("rename-dot-counters", ["C15"])
def _(tmp):
    edit(tmp, "src/asm/parser/symbol.rs", lambda s: rename_in_fn(s, "parse", {"hierarchy_level": "level"}))
    edit(tmp, "src/expr/parser.rs", lambda s: rename_in_fn(s, "parse_variable", {"hierarchy_level": "dots"}))


@case("rename-symbol-ctx-locals", ["C15"])
def _(tmp):
    edit(tmp, "src/asm/decls/symbol.rs", lambda s: rename_in_fn(s, "collect", {"symbol_ctx": "scope"}))
    edit(tmp, "src/asm/matcher/mod.rs", lambda s: rename_in_fn(s, "match_all", {"symbol_ctx": "scope"}))


@case("rename-incbin-range", ["C14", "C19"])
def _(tmp):
    edit(tmp, "src/asm/resolver/eval_fn.rs", lambda s: rename_in_fn(rename_in_fn(s, "eval_builtin_incbin", {"start": "first", "end": "past", "bytes": "data"}), "eval_builtin_incstr", {"start": "first", "end": "past"}))


@case("rename-include-params", ["C14"])
def _(tmp):
    edit(tmp, "src/asm/parser/mod.rs", lambda s: rename_in_fn(s, "parse_and_resolve_includes", {"seen_filenames": "stack", "once_filenames": "once", "root_filename": "filename", "included_filename": "target"}))


@case("rename-iteration-locals", ["C02", "C09", "C03"])
def _(tmp):
    edit(tmp, "src/asm/resolver/mod.rs", lambda s: rename_in_fn(s, "resolve_iteratively", {"iter_count": "passes"}))
    edit(tmp, "src/asm/resolver/eval_asm.rs", lambda s: rename_in_fn(s, "resolve_iteratively", {"iter_count": "passes"}))


@case("rename-strict-flag-param", ["C02", "C09", "C03", "C17"])
def _(tmp):
    edit(tmp, "src/asm/resolver/eval_asm.rs", lambda s: rename_in_fn(s, "resolve_once", {"is_last_iteration": "strict", "is_first_iteration": "first"}))


@case("rename-bitvec-params", ["C12", "C06"])
def _(tmp):
    edit(tmp, "src/util/bitvec.rs", lambda s: rename_in_fn(rename_in_fn(s, "write_bigint_with_span", {"offset": "at", "bigint": "value"}), "write_bigint", {"index": "at", "bigint": "value"}))


@case("rename-range-check-params", ["C04", "C01"])
def _(tmp):
    edit(tmp, "src/asm/resolver/instruction.rs", lambda s: rename_in_fn(s, "check_and_constrain_value_for_integer_type", {"size": "width", "bigint": "value"}))


@case("rename-driver-locals", ["C18"])
def _(tmp):
    edit(tmp, "src/driver.rs", lambda s: rename_in_fn(s, "derive_output_filename", {"input_filename": "source_name"}))


@case("rename-formatter-params", ["C11", "C12"])
def _(tmp):
    edit(tmp, "src/util/bitvec_format.rs", lambda s: rename_in_fn(s, "format_separator", {"radix": "base", "separator": "sep"}))


@case("rename-symbol-manager-params", ["C15"])
def _(tmp):
    edit(tmp, "src/util/symbol_manager.rs", lambda s: rename_in_fn(rename_in_fn(s, "declare", {"hierarchy_level": "level", "ctx": "scope", "name": "ident"}), "try_get_by_name", {"hierarchy_level": "level", "ctx": "scope"}))


@case("rename-overlap-params", ["C06"])
def _(tmp):
    edit(tmp, "src/util/overlap_checker.rs", lambda s: rename_in_fn(rename_in_fn(s, "check_and_insert", {"position": "at", "size": "len"}), "check_overlap", {"position": "at", "size": "len", "index": "found"}))



@case("rename-can-guess-param", ["C03", "C01", "C02", "C15"])
def _(tmp):
    edit(tmp, "src/asm/resolver/iter.rs", lambda s: rename_in_fn(rename_in_fn(s, "eval_address", {"can_guess": "may_guess"}), "get_address", {"can_guess": "may_guess"}))


@case("rename-iterator-new-params", ["C02", "C09", "C03", "C15"])
def _(tmp):
    edit(tmp, "src/asm/resolver/iter.rs", lambda s: rename_in_fn(s, "new", {"is_first_iteration": "first", "is_last_iteration": "last"}))


@case("rename-annotated-params", ["C11", "C12", "C18", "C19"])
def _(tmp):
    edit(tmp, "src/util/bitvec_format.rs", lambda s: rename_in_fn(rename_in_fn(s, "format_annotated", {"base": "radix_", "digits_per_group": "grp"}), "format_tcgame", {"base": "radix_", "digits_per_group": "grp"}))


@case("rename-char-counter-locals", ["C13", "C12"])
def _(tmp):
    edit(tmp, "src/util/char_counter.rs", lambda s: rename_in_fn(s, "get_line_column_at_index", {"index": "byte_at", "line": "ln", "column": "col"}))


@case("rename-build-output-locals", ["C06", "C12", "C01"])
def _(tmp):
    edit(tmp, "src/asm/output/mod.rs", lambda s: rename_in_fn(s, "build_output", {"position": "pos_", "size": "len_", "span": "sp_", "addr": "address"}))


@case("rename-resolver-locals", ["C02", "C03"])
def _(tmp):
    edit(tmp, "src/asm/resolver/label.rs", lambda s: rename_in_fn(s, "resolve_label", {"prev_value": "before", "value": "now"}))
    edit(tmp, "src/asm/resolver/res.rs", lambda s: rename_in_fn(s, "resolve_res", {"prev_value": "before", "value": "now"}))


@case("rename-matcher-locals", ["C07", "C08", "C01"])
def _(tmp):
    edit(tmp, "src/asm/matcher/mod.rs", lambda s: rename_in_fn(rename_in_fn(s, "match_instr", {"matches": "found", "walker": "w"}), "match_with_ruledef_map", {"matches": "found", "entries": "buckets", "prefix": "pfx"}))


@case("rename-walker-locals", ["C13", "C07"])
def _(tmp):
    edit(tmp, "src/syntax/walker.rs", lambda s: rename_in_fn(s, "find_lookahead_char_index", {"index": "at", "wanted_char": "wanted"}))


@case("rename-driver-parse-command", ["C18", "C10", "C09"])
def _(tmp):
    edit(tmp, "src/driver.rs", lambda s: rename_in_fn(s, "parse_command", {"parsed": "m", "command": "cmd"}))


@case("if-else-instead-of-match", ["C16", "C03"])
def _(tmp):
    edit(tmp, "src/asm/mod.rs", lambda s: s.replace("    match had_error\n    {\n        false => Ok(()),\n        true => Err(()),\n    }", "    if had_error\n    {\n        Err(())\n    }\n    else\n    {\n        Ok(())\n    }"))


@case("extract-helper-overlap-report", ["C06", "C03", "C13"])
def _(tmp):
    def f(s):
        s = s.replace("""            report.push_parent(
                "output overlap",
                span);

            report.note_span(
                "overlaps with:",
                overlapping_entry.span);

            report.pop_parent();

            return Err(());""", """            report_overlap(report, span, overlapping_entry.span);

            return Err(());""")
        s = s.replace("impl OverlapChecker\n{", """fn report_overlap(
    report: &mut diagn::Report,
    span: diagn::Span,
    other: diagn::Span)
{
    report.push_parent(
        "output overlap",
        span);

    report.note_span(
        "overlaps with:",
        other);

    report.pop_parent();
}


impl OverlapChecker\n{""", 1)
        return s
    edit(tmp, "src/util/overlap_checker.rs", f)


@case("add-debug-println", ["C02", "C09", "C10", "C03"])
def _(tmp):
    edit(tmp, "src/asm/resolver/mod.rs", lambda s: s.replace("    let mut iter_count = 0;", "    let mut iter_count = 0;\n\n    if opts.debug_iterations\n    {\n        println!(\"resolving...\");\n    }", 1))


@case("reorder-independent-statements", ["C17", "C02"])
def _(tmp):
    edit(tmp, "src/asm/resolver/eval_asm.rs", lambda s: s.replace("    let mut result = util::BigInt::new(0, Some(0));\n    let mut cur_position = position_at_start;\n    let mut unstable = false;", "    let mut unstable = false;\n    let mut cur_position = position_at_start;\n    let mut result = util::BigInt::new(0, Some(0));"))


@case("rename-format-output-param", ["C11", "C18", "C12"])
def _(tmp):
    edit(tmp, "src/driver.rs", lambda s: rename_in_fn(s, "format_output", {"format": "kind", "output": "bits"}))


@case("rename-parse-output-format-locals", ["C18", "C11", "C10"])
def _(tmp):
    edit(tmp, "src/driver.rs", lambda s: rename_in_fn(s, "parse_output_format", {"params": "given", "format_id": "fmt_name"}))


@case("rename-prefix-index-locals", ["C07", "C08"])
def _(tmp):
    edit(tmp, "src/asm/defs/ruledef_map.rs", lambda s: rename_in_fn(rename_in_fn(s, "parse_prefix", {"prefix": "key", "prefix_index": "n"}), "insert", {"prefix": "key", "prefix_index": "n"}))


@case("rename-report-params", ["C03", "C13", "C15", "C02"])
def _(tmp):
    edit(tmp, "src/asm/decls/symbol.rs", lambda s: rename_in_fn(s, "collect", {"report": "rep"}))
    edit(tmp, "src/asm/resolver/label.rs", lambda s: rename_in_fn(s, "resolve_label", {"report": "rep", "ctx": "rc"}))


@case("rename-span-walker-locals", ["C13"])
def _(tmp):
    edit(tmp, "src/syntax/walker.rs", lambda s: rename_in_fn(s, "get_span", {"start": "from", "end": "to"}) if "fn get_span" in s else s + "\n")


@case("rename-eval-fn-locals", ["C17", "C03"])
def _(tmp):
    edit(tmp, "src/asm/resolver/eval_fn.rs", lambda s: rename_in_fn(s, "eval_fn", {"args_ctx": "callee_ctx", "function": "func", "param_index": "k"}))


@case("rename-navigate-locals", ["C14"])
def _(tmp):
    edit(tmp, "src/util/file_navigation.rs", lambda s: rename_in_fn(s, "filename_navigate", {"path_components": "parts", "new_path_components": "kept", "relative_components": "rel", "nav": "wanted"}))


@case("rename-resolve-ifs-locals", ["C16"])
def _(tmp):
    edit(tmp, "src/asm/resolver/directive_if.rs", lambda s: rename_in_fn(s, "resolve_ifs", {"condition_result": "cond", "node": "if_node", "n": "at"}))


@case("rename-query-prefixed-locals", ["C07", "C08"])
def _(tmp):
    edit(tmp, "src/asm/defs/ruledef_map.rs", lambda s: rename_in_fn(s, "query_prefixed", {"i": "n", "j": "m", "subprefix": "probe", "results": "found"}))


@case("rename-bigint-params", ["C05", "C04", "C19"])
def _(tmp):
    edit(tmp, "src/util/bigint.rs", lambda s: rename_in_fn(rename_in_fn(s, "checked_div", {"rhs": "divisor"}), "concat", {"lhs_slice": "hi", "rhs_slice": "lo", "rhs": "low", "result": "joined"}))


@case("rename-expr-parser-locals", ["C05", "C19"])
def _(tmp):
    edit(tmp, "src/expr/parser.rs", lambda s: rename_in_fn(s, "parse_binary_ops", {"lhs": "left", "rhs": "right"}))


@case("rename-range-closures", ["C04", "C01"])
def _(tmp):
    edit(tmp, "src/asm/resolver/instruction.rs", lambda s: rename_in_fn(s, "check_and_constrain_argument", {"x": "v", "size": "width", "bigint": "val"}))


@case("rename-data-block-locals", ["C04", "C19", "C02"])
def _(tmp):
    edit(tmp, "src/asm/resolver/data_block.rs", lambda s: rename_in_fn(s, "resolve_data_element", {"encoding_size": "got", "elem_size": "want", "maybe_encoding": "enc"}))


def run_case(c, only_prop=None):
    name, props, fn = c
    if only_prop is not None:
        props = [only_prop]
    tmp = tempfile.mkdtemp(prefix="casm-neutral-")
    try:
        subprocess.run(["rsync", "-a", "--exclude", "target", "--exclude", ".git", "/repo/", tmp + "/"], check=True)
        try:
            fn(tmp)
        except Exception as e:
            return (name, "error", "edit failed: %r" % e)
        out = []
        for p in props:
            pr = subprocess.run([sys.executable, os.path.join(VERIF, "lint", "check.py"), p, "--repo", tmp, "--no-evidence"], capture_output=True, text=True)
            if pr.returncode == 2:
                return (name, "error", "does not compile / cannot be analysed: " + (pr.stdout + pr.stderr)[-400:])
            if pr.returncode != 0:
                keys = re.findall(r"key: (.*)", pr.stdout)
                out.append("%s: %s" % (p, keys[:4]))
        return (name, "FALSE ALARM" if out else "silent", "; ".join(out))
    finally:
        shutil.rmtree(tmp, ignore_errors=True)


ALL_PROPS = ["C%02d" % i for i in range(1, 20)]


def _patch_case(path):
    def fn(tmp):
        pr = subprocess.run(["patch", "-p1", "-s", "-i", path], cwd=tmp, capture_output=True, text=True)
        if pr.returncode != 0:
            raise RuntimeError("patch does not apply: " + (pr.stdout + pr.stderr)[-200:])
    return fn


FILE_PROPS = [
    (r"src/util/(file_navigation|fileserver)\.rs|src/asm/parser/mod\.rs", ["C14"]),
    (r"src/util/symbol_manager\.rs", ["C15", "C13", "C16"]),
    (r"src/util/symbol_format\.rs", ["C12", "C10"]),
    (r"src/util/overlap_checker\.rs", ["C06"]),
    (r"src/util/bitvec", ["C11", "C12", "C06"]),
    (r"src/util/bigint\.rs", ["C05", "C04"]),
    (r"src/util/char_counter\.rs", ["C13", "C12"]),
    (r"src/asm/resolver/", ["C02", "C09", "C01", "C06", "C15", "C16", "C17", "C04", "C14", "C08"]),
    (r"src/asm/matcher/", ["C01", "C07", "C08", "C02", "C15", "C17"]),
    (r"src/asm/output/", ["C06", "C12", "C01"]),
    (r"src/asm/mod\.rs", ["C16", "C01", "C09", "C15", "C06"]),
    (r"src/driver\.rs", ["C18", "C11", "C09", "C12"]),
    (r"src/expr/", ["C05", "C17", "C08", "C02"]),
    (r"src/syntax/", ["C13", "C07", "C05"]),
    (r"src/asm/parser/", ["C15", "C16", "C04", "C14", "C07"]),
    (r"src/asm/(decls|defs)/", ["C15", "C08", "C07", "C06", "C04"]),
    (r"src/diagn/", ["C13"]),
]
GLOBAL_PROPS = ["C03", "C10", "C13", "C19"]     # analyses that look at every function


def props_of_patch(path):
    files = re.findall(r"^\+\+\+ b/(\S+)", open(path, encoding="utf-8").read(), re.M)
    out = set(GLOBAL_PROPS)
    for fl in files:
        for rx, ps in FILE_PROPS:
            if re.search(rx, fl):
                out |= set(ps)
    return sorted(out)


def _load_patches():
    """behaviour-preserving refactorings kept as patches under /verif/neutral (written by independent sub-agents or by hand);
    neutral/index.json may restrict the properties a patch is relevant for"""
    import json, glob
    d = os.path.join(VERIF, "neutral")
    idx = {}
    try:
        idx = json.load(open(os.path.join(d, "index.json")))
    except Exception:
        pass
    for pth in sorted(glob.glob(os.path.join(d, "*.diff"))):
        name = "patch-" + os.path.basename(pth)[:-5]
        if not any(c[0] == name for c in CASES):
            CASES.append((name, idx.get(os.path.basename(pth)) or props_of_patch(pth), _patch_case(pth)))


_load_patches()


def main():
    ap = argparse.ArgumentParser()
    ap.add_argument("--name", default="")
    ap.add_argument("--jobs", type=int, default=8)
    a = ap.parse_args()
    cs = [c for c in CASES if a.name in c[0]]
    with ThreadPoolExecutor(max_workers=a.jobs) as ex:
        res = list(ex.map(run_case, cs))
    bad = 0
    for name, st, d in res:
        print("%-12s %s %s" % (st, name, d))
        if st != "silent":
            bad += 1
    print("%d behaviour-preserving variants, %d not silent" % (len(res), bad))
    return 1 if bad else 0


if __name__ == "__main__":
    sys.exit(main())
