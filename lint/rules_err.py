"""ERR — error discipline (C03, C01 rejections, C16 barriers).

Interprocedural summaries over every function:
  R(F)   : whenever F returns Err(()), an error message has been pushed to F's report (must)
  Mok(F) : F may push an error message and still return normally / Ok (may)
  E(F)   : F (or a callee) can push an error message at all
computed as fixpoints with a path-state search per function; state =
(must_reported, may_reported, tags of tracked Result locals, values of tracked bool flags,
 open parent kinds, is_last_iteration knowledge)."""
import re
from collections import defaultdict
from mir import (peel, op_place, op_local, const_int, describe_origin, fn_uses)
from pathsearch import Search

RESULT_UNIT = re.compile(r"^std::result::Result<.*, \(\)>$")
REPORT_TY = re.compile(r"diagn::(report::)?Report\b")
OPT_REPORT_TY = re.compile(r"^std::option::Option<&mut diagn::(report::)?Report>$")
RP = "diagn::report::Report::"
ERROR_PUSH = {RP + "error", RP + "error_span"}
MSG_PUSH = {RP + "message", RP + "message_with_parents_dedup", RP + "push_multiple"}
NONERR_PUSH = {RP + "warning", RP + "warning_span", RP + "note", RP + "note_span"}
PUSH_PARENT = {RP + "push_parent": "E", RP + "push_parent_note": "N", RP + "push_parent_short_note": "N"}
POP_PARENT = RP + "pop_parent"
STOP = RP + "stop_at_errors"
TRY_BRANCH = "std::ops::Try::branch"
FROM_RESIDUAL = "std::ops::FromResidual::from_residual"
CAN_GUESS = re.compile(r"ResolverContext::<.*>::can_guess$|ResolverContext::can_guess$")
# std combinators that keep the Ok/Err-ness of their receiver
KEEP_ERRNESS = ("std::result::Result::<T, E>::map", "std::result::Result::<T, E>::map_err", "std::result::Result::<T, E>::and_then",
                "std::convert::Into::into", "std::result::Result::<T, E>::inspect", "std::result::Result::<T, E>::inspect_err")


def is_result_unit(ty):
    return bool(RESULT_UNIT.match(ty))


def is_cf_result(ty):
    return ty.startswith("std::ops::ControlFlow<std::result::Result<std::convert::Infallible, ()>")


class ErrAnalysis:
    def __init__(self, prog, table=None):
        self.prog = prog
        self.fns = [f for f in prog.real_fns()]
        self.R = {}
        self.Mok = {}
        self.E = {}
        self.A = {}
        self.prep = {}
        self.table = table or {}
        self.infallible = {(e["fn"], e["root"]) for e in self.table.get("infallible_sources", [])}
        self.closure_reported = {e["fn"]: e["closure"] for e in self.table.get("closure_reported", [])}
        self.by_design = {e["fn"] for e in self.table.get("unreported_by_design", [])}
        self.correlated = {e["fn"] for e in self.table.get("correlated_loops", [])}
        self.soft_none = {e["fn"] for e in self.table.get("soft_none", [])}
        self.propagators = {e["fn"] for e in self.table.get("unresolved_propagators", [])}
        self.exempt_closures = set(self.closure_reported.values())
        self.contract = {(e["fn"], e["root"]): e["on"] for e in self.table.get("contract_sources", [])}
        self.used_exceptions = set()
        for f in self.fns:
            self.R[f.id] = True
            self.Mok[f.id] = False
            self.E[f.id] = False
            self.A[f.id] = False

    # ---------------------------------------------------------------- helpers
    def report_arg_real(self, f, t):
        """does the call pass the caller's own report (not a throw-away Report::new() / None)?
        returns True / False / None (no report argument)"""
        res = None
        for a, ty in zip(t["args"], t.get("arg_tys", [])):
            if OPT_REPORT_TY.match(ty):
                o = peel(f.origin_op(a))
                if o[0] == "agg" and o[1].get("variant") == "None":
                    return False
                res = True if res is None else res
                continue
            if not REPORT_TY.search(ty) or "Option<" in ty:
                continue
            res = True if res is None else res
            o = peel(f.origin_op(a))
            if o[0] == "call" and (o[1].get("callee") or "").endswith("Report::new"):
                if not self.local_report_is_consumed(f, o[1]["dest"]["l"]):
                    return False
            if o[0] == "multi":
                for d in o[2]:
                    if d[0] == "call" and (d[2].get("callee") or "").endswith("Report::new"):
                        if not self.local_report_is_consumed(f, o[1]):
                            return False
        return res

    def local_report_is_consumed(self, f, l):
        """a Report created in this function is the real one if it is printed, transferred or returned"""
        from rules_det import alias_closure
        aliases, uses = alias_closure(f, l)
        for bi, kind, obj in uses:
            if kind == "term" and obj["k"] == "call":
                c = obj.get("resolved") or obj.get("callee") or ""
                if c.endswith("Report::print_all") or c.endswith("Report::transfer_to"):
                    return True
            if kind == "stmt" and obj["k"] == "assign" and obj["rv"]["k"] == "agg":
                return True   # moved into a returned aggregate
        return False

    def callee_info(self, f, t):
        """(kind, targets, real) kind: 'stop' | 'local' | 'extern' | 'unknown'"""
        r = t.get("resolved") or t.get("callee") or ""
        if r == STOP:
            return ("stop", (), True)
        tg, known = self.prog.call_targets(f, t)
        real = self.report_arg_real(f, t)
        if tg:
            return ("local", tuple(tg), real is not False)
        if t.get("callee") is None or t.get("resolved_kind") == "virtual" or not known:
            return ("unknown", (), real is not False)
        return ("extern", (), real is not False)

    def call_tag(self, f, t, depth=0):
        """abstract tag of the Result produced by call terminator t"""
        kind, targets, real = self.callee_info(f, t)
        name = t.get("resolved") or t.get("callee") or "indirect"
        c = t.get("callee") or ""
        if kind == "stop":
            return ("stop",)
        if kind == "local":
            return ("call", kind, targets, real, name)
        if depth < 6 and c in KEEP_ERRNESS and t["args"]:
            inner = self.value_tag(f, t["args"][0], None, depth + 1)
            if inner[0] != "unk":
                return inner
        if c in ("std::option::Option::<T>::ok_or_else", "std::result::Result::<T, E>::map_err", "std::result::Result::<T, E>::or_else") and len(t["args"]) >= 2:
            # the Err value is manufactured by the closure: fine if that closure always pushes an error
            from mir import closure_of_origin
            cid = closure_of_origin(f.origin_op(t["args"][1]))
            if cid and self.A.get(cid, False):
                if c.endswith("map_err"):
                    inner = self.value_tag(f, t["args"][0], None, depth + 1)
                    if inner[0] == "ok":
                        return ("ok",)
                return ("erep", name)
        if c == "std::option::Option::<T>::ok_or" and t["args"]:
            o = peel(f.origin_op(t["args"][0]))
            if o[0] == "call":
                root = o[1].get("callee") or ""
                if (f.id, root) in self.infallible:
                    self.used_exceptions.add(("infallible", f.id, root))
                    return ("ok",)
        if (f.id, c) in self.infallible:
            self.used_exceptions.add(("infallible", f.id, c))
            return ("ok",)
        if (f.id, c) in self.contract and t["args"]:
            d = describe_origin(f, f.origin_op(t["args"][0]))
            if ("." + self.contract[(f.id, c)]) in d:
                self.used_exceptions.add(("contract", f.id, c))
                return ("call", "local", ("asm::assemble::{closure#0}",), True, "asm::assemble (output is None only after a reported failure)")
        if c.endswith("iter::Iterator::collect") and t["args"] and is_result_unit(f.local_ty(t["dest"]["l"]) or ""):
            # `iter.map(|x| fallible(x)).collect::<Result<Vec<_>, ()>>()`: Err exactly when the closure answered Err
            from mir import closure_of_origin
            o = peel(f.origin_op(t["args"][0]))
            if o[0] == "call" and (o[1].get("callee") or "").endswith("iter::Iterator::map") and len(o[1]["args"]) >= 2:
                cid = closure_of_origin(f.origin_op(o[1]["args"][1]))
                if cid and self.prog.fn(cid) is not None:
                    return ("call", "local", (cid,), True, name + " over " + cid)
        if f.id in self.closure_reported and kind == "extern":
            # e.g. Iterator::fold(Ok(()), closure): the closure is the only Err source
            cl = self.closure_reported[f.id]
            g = self.prog.fn(cl)
            if g is not None and self.closure_err_is_reported(g):
                self.used_exceptions.add(("closure_reported", f.id, cl))
                return ("call", "local", (cl,), True, name + " via " + cl)
        return ("call", kind, (), real, name)

    def loop_pushes_error(self, f):
        from mir import natural_loop
        for b, t in f.calls():
            if (t.get("resolved") or "") in ERROR_PUSH:
                for h in f.reachable():
                    lp = natural_loop(f, h)
                    if lp and b in lp:
                        return True
        return False

    def closure_err_is_reported(self, g):
        """every block of closure g that creates an Err (aggregate, or `.and(Err)`) is dominated by an error push"""
        pushes = [b for b, t in g.calls() if (t.get("resolved") or "") in ERROR_PUSH]
        if not pushes:
            return False
        ok = True
        n = 0
        for bi, si, st in g.stmts():
            if st["k"] == "assign" and st["rv"]["k"] == "agg" and st["rv"].get("agg") == "adt" and st["rv"]["adt"].endswith("Result") and st["rv"]["variant"] == "Err":
                n += 1
                if not any(g.dominates(p, bi) for p in pushes):
                    ok = False
        return ok and n > 0

    def value_tag(self, f, op, P, depth=0):
        """tag of a Result-typed operand"""
        l = op_local(op)
        if l is None:
            return ("unk", "const")
        if P is not None and l in P["tracked"]:
            return ("var", l)
        o = peel(f.origin_local(l))
        if o[0] == "call":
            t = o[1]
            c = t.get("callee") or ""
            if c == TRY_BRANCH and t["args"]:
                return self.value_tag(f, t["args"][0], P, depth + 1)
            return self.call_tag(f, t, depth)
        if o[0] == "multi":
            return ("var", o[1]) if (P is not None and o[1] in P["tracked"]) else ("unk", "multi")
        if o[0] == "agg" and o[1].get("agg") == "adt" and o[1]["adt"].endswith("Result"):
            return ("ok",) if o[1]["variant"] == "Ok" else ("err",)
        if o[0] == "param":
            return ("unk", "param:" + str(f.local_name(o[1])))
        return ("unk", describe_origin(f, o))

    def last_flag_of(self, f, op):
        """is operand a read of `is_last_iteration` (returns +1), of can_guess() (returns -1), else 0"""
        l = op_local(op)
        if l is None:
            return 0
        l = f.copy_root(l)
        o = f.origin_local(l)
        if o[0] == "place":
            pr = o[2]
            if pr and isinstance(pr[-1], dict) and pr[-1].get("name") == "is_last_iteration":
                return 1
        if f.local_name(l) == "is_last_iteration":
            return 1
        if o[0] == "param" and f.local_name(o[1]) == "is_last_iteration":
            return 1
        if o[0] == "multi" and f.local_name(o[1]) == "is_last_iteration":
            return 1
        if o[0] == "call" and CAN_GUESS.search(o[1].get("resolved") or o[1].get("callee") or ""):
            return -1
        if o[0] == "param" and f.local_name(o[1]) == "can_guess":
            return -1
        if o[0] == "unop" and o[1]["op"] == "Not":
            return -self.last_flag_of(f, o[1]["x"])
        return 0

    def payload_call_origin(self, f, o, depth=0):
        """the local call whose Ok payload this origin is (through `?`, as_ref, moves), else None"""
        n = 0
        while o is not None and n < 12:
            n += 1
            if o[0] in ("ref", "cast"):
                o = o[1]
                continue
            if o[0] == "place":
                # (x as Continue).0 / (x as Ok).0 / deref
                o = o[1]
                continue
            if o[0] == "call":
                t = o[1]
                c = t.get("callee") or ""
                if c in (TRY_BRANCH, "std::option::Option::<T>::as_ref", "std::option::Option::<T>::as_mut", "std::result::Result::<T, E>::unwrap") and t["args"]:
                    o = f.origin_op(t["args"][0])
                    continue
                tg, known = self.prog.call_targets(f, t)
                return t if tg else None
            if o[0] == "multi":
                # a named local with one call def and otherwise nothing
                ds = [d for d in o[2] if d[0] == "call"]
                if len(ds) == 1 and len(o[2]) == 1:
                    return ds[0][2]
                return None
            return None
        return None

    def payload_call(self, f, place):
        return self.payload_call_origin(f, f.origin_place(place))

    def _named_option_local(self, f, op):
        """the named Option local whose presence `op.is_some()` asks about (receiver `&local`), else None"""
        pl = op_place(op)
        if pl is None:
            return None
        l = pl["l"]
        for _ in range(4):
            ds = f.full_defs(l)
            if len(ds) == 1 and ds[0][0] == "stmt" and ds[0][3]["k"] == "assign" and ds[0][3]["rv"]["k"] in ("ref", "use"):
                rv = ds[0][3]["rv"]
                p2 = rv["place"] if rv["k"] == "ref" else op_place(rv["op"])
                if p2 is None or p2["p"]:
                    return None
                l = p2["l"]
                if f.local_name(l):
                    break
            else:
                break
        if f.local_name(l) and l > f.arg_count and not f.partial_defs(l) and (f.local_ty(l) or "").startswith("std::option::Option<"):
            return l
        return None

    def prepare(self, f):
        if f.id in self.prep:
            return self.prep[f.id]
        P = {}
        flags = set()
        for l, d in enumerate(f.locals):
            if d["ty"] == "bool" and d.get("name") and l > f.arg_count:
                ds = f.full_defs(l)
                if ds and all(x[0] == "stmt" and x[3]["k"] == "assign" and x[3]["rv"]["k"] == "use" and const_int(x[3]["rv"]["op"]) is not None for x in ds):
                    flags.add(l)
        P["flags"] = flags
        tracked = set()
        if is_result_unit(f.ret):
            tracked.add(0)
        for l, d in enumerate(f.locals):
            if l != 0 and is_result_unit(d["ty"]) and len(f.full_defs(l)) > 1:
                tracked.add(l)
        # tuples that carry a Result<_, ()> in a field (`let (flag, result) = match .. { .. => (a, Err(())) }`): the field's tag is
        # kept under a synthetic key, and the local the field is read into is tracked like a multi-definition Result local
        tuples = {}
        for l, d in enumerate(f.locals):
            ty = d["ty"] or ""
            if l != 0 and ty.startswith("(") and ty.endswith(")") and "Result<" in ty:
                fields, depth_, cur = [], 0, ""
                for ch in ty[1:-1]:
                    if ch in "<([":
                        depth_ += 1
                    elif ch in ">)]":
                        depth_ -= 1
                    if ch == "," and depth_ == 0:
                        fields.append(cur.strip())
                        cur = ""
                    else:
                        cur += ch
                if cur.strip():
                    fields.append(cur.strip())
                idx = [i for i, ft in enumerate(fields) if is_result_unit(ft)]
                if idx:
                    tuples[l] = idx
        for l, d in enumerate(f.locals):
            if l != 0 and l not in tracked and is_result_unit(d["ty"]):
                for x in f.full_defs(l):
                    if x[0] == "stmt" and x[3]["k"] == "assign" and x[3]["rv"]["k"] == "use":
                        pl = x[3]["rv"]["op"].get("move") or x[3]["rv"]["op"].get("copy")
                        if pl and pl["l"] in tuples and len(pl.get("p") or []) == 1 and isinstance(pl["p"][0], dict) and pl["p"][0].get("f") in tuples[pl["l"]]:
                            tracked.add(l)
        P["tuples"] = tuples
        P["tracked"] = tracked
        sw = {}
        for b in f.reachable():
            t = f.blocks[b]["term"]
            if t["k"] != "switch":
                continue
            dl = op_local(t["discr"])
            if dl is None:
                continue
            if dl in flags:
                sw[b] = ("flag", dl)
                continue
            lf = self.last_flag_of(f, t["discr"])
            if lf:
                sw[b] = ("last", lf)
                continue
            ds = f.full_defs(dl)
            if len(ds) != 1:
                continue
            d = ds[0]
            if d[0] == "stmt" and d[3]["k"] == "assign" and d[3]["rv"]["k"] == "discr":
                rv = d[3]["rv"]
                pl = rv["place"]
                adt = rv["adt"]
                if OPT_REPORT_TY.match(adt) or (adt.startswith("std::option::Option<&mut") and REPORT_TY.search(adt)):
                    # `if let Some(report) = report` on an optional report parameter: analysed as if present
                    base = peel(f.origin_local(pl["l"])) if not pl["p"] else None
                    sw[b] = ("optreport",)
                    continue
                if adt.endswith("resolver::ResolutionState") or adt.endswith("asm::ResolutionState"):
                    src_call = self.payload_call(f, pl)
                    if src_call is not None:
                        vmap = {v: name for v, name in (rv.get("variants") or {}).items()}
                        listed = set(v for v, _ in t["targets"])
                        missing = [v for v in vmap if v not in listed]
                        if len(missing) == 1:
                            vmap["else"] = vmap[missing[0]]
                        sw[b] = ("rstate", src_call, vmap)
                    continue
                if adt.startswith("std::option::Option<") and not (is_result_unit(adt) or is_cf_result(adt)):
                    src_call = self.payload_call(f, pl)
                    if src_call is not None and (src_call.get("resolved") or "") in self.soft_none:
                        sw[b] = ("softnone", "0" if any(v == "0" for v, _ in t["targets"]) else "else")
                        continue
                    # consistency of repeated tests of the same Option local (knowledge is dropped at each redefinition)
                    if not pl["p"] and not f.partial_defs(pl["l"]) and f.local_name(pl["l"]) and pl["l"] > f.arg_count:
                        sw[b] = ("dcons", pl["l"])
                    continue
                if not (is_result_unit(adt) or is_cf_result(adt)):
                    continue
                vm = {}
                for v, name in (rv.get("variants") or {}).items():
                    vm[v] = "ok" if name in ("Ok", "Continue") else "err"
                listed = set(v for v, _ in t["targets"])
                missing = [v for v in vm if v not in listed]
                if len(missing) == 1:
                    vm["else"] = vm[missing[0]]
                src = None
                if all(pr == "deref" for pr in pl["p"]):
                    base = pl["l"]
                    if pl["p"]:
                        bo = f.origin_local(base)
                        if bo[0] == "ref" and bo[1][0] == "multi":
                            src = ("tracked", bo[1][1]) if bo[1][1] in tracked else None
                        elif bo[0] == "ref":
                            src = ("op", {"copy": {"l": base, "p": []}})
                    else:
                        src = ("tracked", base) if base in tracked else ("op", {"copy": {"l": base, "p": []}})
                sw[b] = ("result", src, vm)
            elif d[0] == "stmt" and d[3]["k"] == "assign" and d[3]["rv"]["k"] == "use":
                sl = op_local(d[3]["rv"]["op"])
                if sl in flags:
                    sw[b] = ("flag", sl)
                elif sl is not None and len(f.full_defs(sl)) == 1 and f.full_defs(sl)[0][0] == "call":
                    t2 = f.full_defs(sl)[0][2]
                    if (t2.get("callee") or "") in ("std::option::Option::<T>::is_some", "std::option::Option::<T>::is_none") and t2["args"]:
                        o2 = f.origin_op(t2["args"][0])
                        if o2[0] == "ref":
                            o2 = o2[1]
                        src_call = self.payload_call_origin(f, o2)
                        if src_call is not None and (src_call.get("resolved") or "") in self.soft_none:
                            sw[b] = ("softnone", ("0" if any(v == "0" for v, _ in t["targets"]) else "else") if t2["callee"].endswith("is_some") else ("else" if any(v == "0" for v, _ in t["targets"]) else "1"))
            elif d[0] == "call" and (d[2].get("callee") or "") in ("std::option::Option::<T>::is_some", "std::option::Option::<T>::is_none") and d[2]["args"]:
                ap = op_place(d[2]["args"][0])
                src_call = None
                if ap is not None:
                    o2 = f.origin_op(d[2]["args"][0])
                    if o2[0] == "ref":
                        o2 = o2[1]
                    src_call = self.payload_call_origin(f, o2)
                if src_call is not None and (src_call.get("resolved") or "") in self.soft_none:
                    sw[b] = ("softnone", ("0" if any(v == "0" for v, _ in t["targets"]) else "else") if d[2]["callee"].endswith("is_some") else ("else" if any(v == "0" for v, _ in t["targets"]) else "1"))
                else:
                    ol = self._named_option_local(f, d[2]["args"][0])
                    if ol is not None:
                        sw[b] = ("dconsb", ol, d[2]["callee"].endswith("is_some"))
            elif d[0] == "call":
                c = d[2].get("callee") or ""
                if c in ("std::result::Result::<T, E>::is_err", "std::result::Result::<T, E>::is_ok") and d[2]["args"]:
                    ao = f.origin_op(d[2]["args"][0])
                    src = None
                    if ao[0] == "ref" and ao[1][0] == "multi" and ao[1][1] in tracked:
                        src = ("tracked", ao[1][1])
                    else:
                        src = ("op", d[2]["args"][0])
                    vm = {"0": "ok", "else": "err"} if c.endswith("is_err") else {"0": "err", "else": "ok"}
                    sw[b] = ("result", src, vm)
        P["switch"] = sw
        # call terms whose Result is inspected by a local switch
        inspected = set()
        for b, info in sw.items():
            if info[0] == "result" and info[1] is not None and info[1][0] == "op":
                tag_src = peel(f.origin_op(info[1][1]))
                n = 0
                while tag_src[0] == "call" and n < 6:
                    n += 1
                    inspected.add(id(tag_src[1]))
                    c = tag_src[1].get("callee") or ""
                    if (c == TRY_BRANCH or c in KEEP_ERRNESS) and tag_src[1]["args"]:
                        tag_src = peel(f.origin_op(tag_src[1]["args"][0]))
                    else:
                        break
        P["inspected"] = inspected
        self.prep[f.id] = P
        return P

    # ---------------------------------------------------------------- per function
    def analyse(self, f, probe=None):
        if f.id == STOP:
            return {"R": True, "Mok": False, "E": False, "A": False, "findings": [], "search": None, "unres": [], "softnone": []}
        P = self.prepare(f)
        R, Mok, E = self.R, self.Mok, self.E
        result_fn = is_result_unit(f.ret)

        def set_tag(vals, l, tag):
            d = dict(vals)
            d[l] = tag
            return tuple(sorted(d.items(), key=lambda x: x[0]))

        def get_tag(vals, l):
            for k, v in vals:
                if k == l:
                    return v
            return None

        unres_sites = []   # (block, state) at creation of ResolutionState::Unresolved / Ok(None)

        def step(b, st):
            must, may, vals, fl, par, last, sn = st
            blk = f.blocks[b]
            for s in blk["stmts"]:
                if s["k"] != "assign":
                    continue
                if probe:
                    probe("stmt", b, s, (must, may, vals, fl, par, last, sn))
                rv = s["rv"]
                if rv["k"] == "agg" and rv.get("agg") == "adt" and rv["adt"].endswith("resolver::ResolutionState") and rv["variant"] == "Unresolved":
                    unres_sites.append((b, (must, may, vals, fl, par, last, sn), s))
                if s["place"]["p"]:
                    continue
                dl = s["place"]["l"]
                if ("d", dl) in dict(fl):
                    d = dict(fl)
                    del d[("d", dl)]
                    fl = tuple(sorted(d.items(), key=str))
                if dl in P["flags"] and rv["k"] == "use":
                    c = const_int(rv["op"])
                    d = dict(fl)
                    d[dl] = c
                    fl = tuple(sorted(d.items(), key=str))
                elif dl in P.get("tuples", {}) and rv["k"] == "agg" and rv.get("agg") == "tuple":
                    for i_ in P["tuples"][dl]:
                        if i_ < len(rv["ops"]):
                            tag = self.value_tag(f, rv["ops"][i_], P)
                            if tag[0] == "var":
                                tag = get_tag(vals, tag[1]) or ("unk", "unassigned")
                            vals = set_tag(vals, 100000 + dl * 16 + i_, tag)
                elif dl in P["tracked"]:
                    pl_ = (rv["op"].get("move") or rv["op"].get("copy")) if rv["k"] == "use" and isinstance(rv.get("op"), dict) else None
                    if rv["k"] == "agg" and rv.get("agg") == "adt" and rv["adt"].endswith("Result"):
                        vals = set_tag(vals, dl, ("ok",) if rv["variant"] == "Ok" else ("err",))
                    elif pl_ and pl_["l"] in P.get("tuples", {}) and len(pl_.get("p") or []) == 1 and isinstance(pl_["p"][0], dict) and pl_["p"][0].get("f") in P["tuples"][pl_["l"]]:
                        vals = set_tag(vals, dl, get_tag(vals, 100000 + pl_["l"] * 16 + pl_["p"][0]["f"]) or ("unk", "tuple field"))
                    elif rv["k"] == "use":
                        tag = self.value_tag(f, rv["op"], P)
                        if tag[0] == "var":
                            tag = get_tag(vals, tag[1]) or ("unk", "unassigned")
                        vals = set_tag(vals, dl, tag)
                    else:
                        vals = set_tag(vals, dl, ("unk", rv["k"]))
            t = blk["term"]
            k = t["k"]
            if k == "return":
                return [("return", (must, may, vals, fl, par, last, sn))]
            if k in ("goto", "drop", "assert"):
                return [(t["target"], (must, may, vals, fl, par, last, sn))]
            if k == "call":
                if t["target"] is None:
                    return []
                c = t.get("resolved") or t.get("callee") or ""
                cc = t.get("callee") or ""
                nm, ny = must, may
                kind, targets, real = self.callee_info(f, t)
                lbl = "%s (line %d)" % (c.rsplit("::", 2)[-1] if "::" in c else c, t["span"]["line"])
                if probe:
                    probe("call", b, t, (must, may, vals, fl, par, last, sn))
                if c in ERROR_PUSH:
                    if real:
                        nm, ny = 1, ny or lbl
                elif c in MSG_PUSH:
                    if real:
                        mk = self.message_kind(f, t)
                        if mk in ("error", "error-fused") or (par and par[0] == "E"):
                            nm, ny = 1, ny or lbl
                        elif mk == "maybe":
                            ny = ny or lbl
                elif c in NONERR_PUSH:
                    if real and par and par[0] == "E":
                        nm, ny = 1, ny or lbl
                elif c in PUSH_PARENT:
                    if real and len(par) < 6:
                        par = par + (PUSH_PARENT[c],)
                elif c == POP_PARENT:
                    if real and par:
                        par = par[:-1]
                elif kind == "stop":
                    pass
                elif kind == "local":
                    dty0 = f.local_ty(t["dest"]["l"]) if not t["dest"]["p"] else ""
                    if real and targets and all(self.A.get(x, False) for x in targets) and not is_result_unit(dty0):
                        nm, ny = 1, ny or lbl
                    elif id(t) not in P["inspected"]:
                        dty = f.local_ty(t["dest"]["l"]) if not t["dest"]["p"] else ""
                        if not is_result_unit(dty):
                            if real and any(Mok.get(x, False) for x in targets):
                                ny = ny or ("callee " + c)
                dl = t["dest"]["l"] if not t["dest"]["p"] else None
                if dl is not None and ("d", dl) in dict(fl):
                    d = dict(fl)
                    del d[("d", dl)]
                    fl = tuple(sorted(d.items(), key=str))
                if dl is not None and dl in P["tracked"]:
                    if cc == FROM_RESIDUAL:
                        vals = set_tag(vals, dl, ("err",))
                    else:
                        vals = set_tag(vals, dl, self.call_tag(f, t))
                return [(t["target"], (nm, ny, vals, fl, par, last, sn))]
            if k == "switch":
                info = P["switch"].get(b)
                outs = []
                edges = [(v, tg) for v, tg in t["targets"]] + [("else", t["otherwise"])]
                if info is None:
                    return [(tg, (must, may, vals, fl, par, last, sn)) for _, tg in edges]
                if info[0] == "optreport":
                    # take only the Some edge (value 1)
                    for v, tg in edges:
                        if v == "1" or (v == "else" and not any(vv == "1" for vv, _ in t["targets"])):
                            outs.append((tg, (must, may, vals, fl, par, last, sn)))
                    return outs
                if info[0] == "softnone":
                    for v, tg in edges:
                        if v == "else" and f.blocks[tg]["term"]["k"] == "unreachable":
                            continue
                        nsn = 1 if v == info[1] else sn
                        outs.append((tg, (must, may if v != info[1] else (may or "soft failure (None) of a listed source"), vals, fl, par, last, nsn)))
                    return outs
                if info[0] == "dcons":
                    key = ("d", info[1])
                    cur = dict(fl).get(key)
                    listed = [vv for vv, _ in t["targets"]]
                    for v, tg in edges:
                        if v == "else" and f.blocks[tg]["term"]["k"] == "unreachable":
                            continue
                        if v == "else" and len(listed) == 1:
                            v = "1" if listed[0] == "0" else "0"   # two-variant Option: the unlisted variant
                        if cur is not None and cur != v:
                            continue
                        d2 = dict(fl)
                        d2[key] = v
                        outs.append((tg, (must, may, vals, tuple(sorted(d2.items(), key=str)), par, last, sn)))
                    return outs
                if info[0] == "dconsb":
                    # `opt.is_some()` / `opt.is_none()` on a named Option local: the same knowledge as a match on it
                    key = ("d", info[1])
                    cur = dict(fl).get(key)
                    for v, tg in edges:
                        truth = (v != "0")
                        some = truth if info[2] else (not truth)
                        vv = "1" if some else "0"
                        if cur is not None and cur != vv:
                            continue
                        d2 = dict(fl)
                        d2[key] = vv
                        outs.append((tg, (must, may, vals, tuple(sorted(d2.items(), key=str)), par, last, sn)))
                    return outs
                if info[0] == "rstate":
                    ct, vmap = info[1], info[2]
                    for v, tg in edges:
                        name = vmap.get(v)
                        if name is None:
                            if v == "else" and f.blocks[tg]["term"]["k"] == "unreachable":
                                continue
                            outs.append((tg, (must, may, vals, fl, par, last, sn)))
                            continue
                        nm, nsn = must, sn
                        if name == "Unresolved":
                            cl = self.call_is_last(f, ct, last)
                            if cl == 1 and nm != 1:
                                nm = 1  # ERR3 contract of the callee: Unresolved in a last pass has been reported
                            elif cl == "flag":
                                nsn = 1  # reported if this turns out to be a last pass (decided when the flag is tested)
                        outs.append((tg, (nm, may, vals, fl, par, last, nsn)))
                    return outs
                if info[0] == "last":
                    sign = info[1]
                    for v, tg in edges:
                        # bool switch: "0" edge = false, else = true
                        val = 0 if v == "0" else 1
                        is_last = val if sign > 0 else 1 - val
                        if last is not None and last != is_last:
                            continue
                        outs.append((tg, (must, may, vals, fl, par, is_last, sn)))
                    return outs
                if info[0] == "flag":
                    cur = dict(fl).get(info[1])
                    for v, tg in edges:
                        if cur is None:
                            outs.append((tg, (must, may, vals, fl, par, last, sn)))
                        elif v == "else":
                            if all(str(cur) != vv for vv, _ in t["targets"]):
                                outs.append((tg, (must, may, vals, fl, par, last, sn)))
                        elif str(cur) == v:
                            outs.append((tg, (must, may, vals, fl, par, last, sn)))
                    return outs
                _, src, vm = info
                for v, tg in edges:
                    side = vm.get(v)
                    if side is None:
                        if v == "else" and f.blocks[tg]["term"]["k"] == "unreachable":
                            continue
                        outs.append((tg, (must, may, vals, fl, par, last, sn)))
                        continue
                    nm, ny, nv = must, may, vals
                    if src is None:
                        tag = ("unk", "?")
                    elif src[0] == "tracked":
                        tag = get_tag(vals, src[1]) or ("unk", "unassigned")
                    else:
                        tag = self.value_tag(f, src[1], P)
                        if tag[0] == "var":
                            tag = get_tag(vals, tag[1]) or ("unk", "unassigned")
                    if tag[0] == "ok" and side == "err":
                        continue
                    if tag[0] == "err" and side == "ok":
                        continue
                    if tag[0] == "erep":
                        if side == "err":
                            nm, ny = 1, ny or ("closure of " + tag[1])
                    if tag[0] == "stop":
                        if side == "ok":
                            nm, ny = 0, 0
                        else:
                            nm, ny = 1, ny or "stop_at_errors"
                    elif tag[0] == "call":
                        _, kind, targets, real, name = tag[:5]
                        if kind == "local":
                            if side == "err":
                                if real and all(R.get(x, False) for x in targets):
                                    nm = 1
                                elif nm == 0:
                                    nm = 2 if real else 3  # unreported: 2 = the callee's fault, 3 = called without the real report
                                if real and any(E.get(x, False) for x in targets):
                                    ny = ny or ("Err of " + name)
                            else:
                                if real and any(Mok.get(x, False) for x in targets):
                                    ny = ny or ("callee " + name + " (can push an error and still return Ok)")
                    if src is not None and src[0] == "tracked":
                        if side == "ok":
                            nv = set_tag(vals, src[1], ("ok",))
                        elif tag[0] == "call":
                            nv = set_tag(vals, src[1], tag[:5] + ("err-edge", nm))
                        else:
                            nv = set_tag(vals, src[1], ("err",))
                    outs.append((tg, (nm, ny, nv, fl, par, last, sn)))
                return outs
            return []

        init = (0, 0, tuple(), tuple(), tuple(), None, 0)
        S = Search(f, init, step)
        res = {"R": True, "Mok": False, "E": False, "A": bool(S.at_return), "findings": [], "unres": unres_sites, "softnone": []}
        for b, t in f.calls():
            c = t.get("resolved") or t.get("callee") or ""
            kind, targets, real = self.callee_info(f, t)
            if c in ERROR_PUSH and real:
                res["E"] = True
            elif c in MSG_PUSH and real:
                res["E"] = True
            elif c in NONERR_PUSH and real:
                # may become an error under an error-kind parent
                if any(cc2 in PUSH_PARENT and PUSH_PARENT[cc2] == "E" for cc2 in ((t2.get("resolved") or "") for _, t2 in f.calls())):
                    res["E"] = True
            elif kind == "local" and real and any(E.get(x, False) for x in targets):
                res["E"] = True
        for b, states in S.at_return.items():
            for st in states:
                must, may, vals, fl, par, last, sn = st
                node = ("ret", b, st)
                if must != 1 and sn and last == 1:
                    must = 1   # a listed soft-none source returned None in a last pass: it has reported (obligation N)
                if must != 1:
                    res["A"] = False
                if par:
                    res["findings"].append(("PAIR", "unbalanced", node, "returns with %d parent(s) still pushed on the report" % len(par)))
                if not result_fn:
                    if may:
                        res["Mok"] = True
                    continue
                tag = get_tag(vals, 0)
                if tag is None:
                    continue
                if tag[0] == "ok":
                    if may:
                        res["Mok"] = True
                        res["findings"].append(("ERR2", "ok-after-report", node, "returns Ok although an error may have been reported on this path"))
                elif tag[0] == "err":
                    if must == 3:
                        res["R"] = False
                        res["findings"].append(("ERR1", "err-propagated-silent-callee", node, "propagates the Err of a callee that was given no report (None / a throw-away Report::new()), so nothing was pushed"))
                    elif must == 2:
                        res["R"] = False
                        res["findings"].append(("ERR1d", "err-propagated", node, "propagates the Err of a callee that may not have pushed a message"))
                    elif not must:
                        res["R"] = False
                        res["findings"].append(("ERR1", "err-unreported", node, "returns Err(()) on a path where no error message was pushed"))
                elif tag[0] in ("stop", "erep"):
                    pass
                elif tag[0] == "call":
                    _, kind, targets, real, name = tag[:5]
                    erredge = len(tag) > 5
                    if kind == "local":
                        if must != 1 and not (real and all(R.get(x, False) for x in targets)):
                            res["R"] = False
                            res["findings"].append(("ERR1d", "err-from-callee|" + name, node, "returns the result of `%s`, which can be Err without a message" % name))
                        if not erredge and (may or (real and any(Mok.get(x, False) for x in targets))):
                            res["Mok"] = True
                            if may:
                                res["findings"].append(("ERR2", "ok-after-report", node, "returns the result of `%s` (possibly Ok) although an error may have been reported before the call" % name))
                    else:
                        if must != 1:
                            res["R"] = False
                            res["findings"].append(("ERR1", "err-unreported-extern|" + name, node, "returns the result of `%s`, an Err of which carries no message" % name))
                        if may and not erredge:
                            res["Mok"] = True
                            res["findings"].append(("ERR2", "ok-after-report", node, "returns the result of `%s` (possibly Ok) although an error may have been reported" % name))
                else:
                    if must != 1:
                        res["R"] = False
                        res["findings"].append(("ERR1", "err-unknown", node, "returns a Result of unrecognised origin (%s) that may be an unreported Err" % (tag[1:],)))
                    if may:
                        res["Mok"] = True
        res["search"] = S
        return res

    def call_is_last(self, f, ct, last):
        """is the pass performed by call `ct` a last iteration? 1 / 0 / None"""
        tg, _ = self.prog.call_targets(f, ct)
        for gid in tg:
            g = self.prog.fn(gid)
            if g is None:
                continue
            for i in range(1, g.arg_count + 1):
                if g.local_name(i) == "is_last_iteration" and i - 1 < len(ct["args"]):
                    a = ct["args"][i - 1]
                    ci = const_int(a)
                    if ci is not None:
                        return ci
                    if self.last_flag_of(f, a) == 1:
                        return last if last is not None else "flag"
                    return None
        return last if last is not None else "flag"

    def message_kind(self, f, t):
        """kind of the Message passed to Report::message & co: 'error' | 'other' | 'maybe'"""
        if len(t["args"]) < 2:
            return "maybe"
        o = peel(f.origin_op(t["args"][1]))
        if o[0] == "call":
            c = o[1].get("resolved") or o[1].get("callee") or ""
            if re.search(r"Message::error(_span)?$", c):
                return "error"
            if re.search(r"Message::(warning|note|short_note)(_span)?$", c):
                return "other"
        d = describe_origin(f, o)
        if "@FailedConstraint" in d:
            # payload of Value::FailedConstraint / InstructionMatchResolution::FailedConstraint:
            # always built from Message::error* (side obligation FC-ctor)
            return "error"
        if o[0] == "call" and (o[1].get("resolved") or "").endswith("Message::fuse_topmost"):
            return "error-fused"
        return "maybe"

    # ---------------------------------------------------------------- fixpoint
    def _post(self, f, r):
        if f.id in self.correlated:
            # Err iff the error-pushing loop over the same container ran at least once
            if self.loop_pushes_error(f):
                r["R"] = True
                r["Mok"] = False
                r["findings"] = [x for x in r["findings"] if x[0] not in ("ERR1", "ERR2")]
                self.used_exceptions.add(("correlated_loop", f.id))
        if f.id in self.exempt_closures:
            if self.closure_err_is_reported(f):
                r["R"] = True
                r["Mok"] = False
                r["findings"] = [x for x in r["findings"] if not x[0].startswith("ERR1") and x[0] != "ERR2"]
        if f.id in self.by_design:
            r["findings"] = [x for x in r["findings"] if not x[0].startswith("ERR1")]
            self.used_exceptions.add(("by_design", f.id))
        return r

    def solve(self, max_iter=40):
        order = sorted(self.fns, key=lambda f: f.id)
        results = {}
        rounds = 0
        for outer in range(8):
            # phase 1: least fixpoint of A (always reports) under the current R
            for f in order:
                self.A[f.id] = False
            for it in range(max_iter):
                rounds += 1
                ch = False
                for f in order:
                    r = self.analyse(f)
                    if r["A"] and not self.A[f.id]:
                        self.A[f.id] = True
                        ch = True
                if not ch:
                    break
            # phase 2: R downwards, Mok/E upwards
            r_changed = False
            for it in range(max_iter):
                rounds += 1
                changed = False
                for f in order:
                    r = self._post(f, self.analyse(f))
                    results[f.id] = r
                    if is_result_unit(f.ret):
                        if self.R[f.id] and not r["R"]:
                            self.R[f.id] = False
                            changed = True
                            r_changed = True
                    if r["Mok"] and not self.Mok[f.id]:
                        self.Mok[f.id] = True
                        changed = True
                    if r["E"] and not self.E[f.id]:
                        self.E[f.id] = True
                        changed = True
                if not changed:
                    break
            if not r_changed:
                break
        self.results = results
        self.iterations = rounds
        return results


# ====================================================================== rule wrappers

_cache = {}


def solved(run):
    key = id(run.prog)
    if key not in _cache:
        A = ErrAnalysis(run.prog, run.table("err"))
        A.solve()
        _cache[key] = A
    return _cache[key]


def _witness(A, fid, node):
    r = A.results.get(fid)
    if not r or not r.get("search"):
        return None
    return r["search"].witness_lines(node)


def err1(run, reach):
    """Err => reported, for every function reachable from the entry points"""
    A = solved(run)
    n = 0
    for fid in sorted(reach):
        f = run.prog.fn(fid)
        if f is None or not is_result_unit(f.ret):
            continue
        n += 1
        r = A.results.get(fid, {})
        roots = [x for x in r.get("findings", []) if x[0] == "ERR1"]
        derived = [x for x in r.get("findings", []) if x[0] == "ERR1d"]
        key = "ERR1|" + fid
        if fid in A.by_design:
            run.exception("ERR1", key, f.loc(), "%s returns Err without a message by design (tables/err.json); any caller that propagates it is flagged" % fid)
            continue
        if roots:
            seen = set()
            for (rule, kind, node, detail) in roots:
                if kind in seen:
                    continue
                seen.add(kind)
                run.violation("ERR1", key + "|" + kind, f.loc(), "%s %s: assemble() asserts that a failed run has a message, so this path panics or fails silently" % (fid, detail), _witness(A, fid, node))
        elif derived:
            # consequence of another function's violation (or of a by-design source being propagated)
            bydesign_src = [x for x in derived if any(b in x[1] for b in A.by_design)]
            if bydesign_src:
                rule, kind, node, detail = bydesign_src[0]
                run.violation("ERR1", key + "|propagates-by-design-source", f.loc(), "%s %s" % (fid, detail), _witness(A, fid, node))
            else:
                rule, kind, node, detail = derived[0]
                # only report when no callee is itself a reported root, to keep the report at root causes
                run.violation("ERR1", key + "|derived", f.loc(), "%s %s (consequence of a callee's violation)" % (fid, detail), _witness(A, fid, node))
        else:
            run.ok("ERR1", key, f.loc(), "%s: every path returning Err(()) has pushed an error message" % fid)
    run.count("err1_functions", n)
    for e in sorted(A.used_exceptions):
        run.exception("ERR1", "ERR1|exception|" + "|".join(e), "-", "audited exception used: %s" % (e,))
    return n


def err3(run):
    """last pass is loud: every creation of ResolutionState::Unresolved (and every Ok(None) of the listed
    soft-failure sources) happens after an error push, or when the pass is known not to be the last"""
    A = solved(run)
    n = 0
    for fid, r in sorted(A.results.items()):
        f = run.prog.fn(fid)
        sites = defaultdict(list)
        for (b, st, s) in r.get("unres", []):
            sites[(b, s["span"]["line"])].append(st)
        for (b, line), sts in sorted(sites.items()):
            n += 1
            key = "ERR3|%s|Unresolved" % fid
            if fid in A.propagators:
                run.exception("ERR3", key, "%s:%d" % (f.file, line), "%s propagates an Unresolved it received (tables/err.json)" % fid)
                continue
            if fid in {e["fn"] for e in A.table.get("prepass", [])}:
                run.exception("ERR3", key, "%s:%d" % (f.file, line), "%s belongs to the constant pre-pass, not to the iterated passes (tables/err.json)" % fid)
                continue
            bad = [st for st in sts if not (st[0] == 1 or st[5] == 0 or (st[6] and st[5] == 1))]
            run.check(not bad, "ERR3", key, "%s:%d" % (f.file, line),
                      "%s: Unresolved is produced only after an error push or when is_last_iteration is known false (%d path states)" % (fid, len(sts)),
                      "%s can return Unresolved in a last pass without pushing an error (state must=%s last=%s): resolve_iteratively then fails with no message and assemble() panics" % (
                          fid, bad[0][0] if bad else "-", bad[0][5] if bad else "-"))
    run.floor("ERR3", "Unresolved creation sites", n, 9)
    # N: Ok(None) of soft-failure sources
    for fid in sorted(A.soft_none):
        f = run.prog.fn(fid)
        if f is None:
            run.violation("ERR3", "ERR3|N|anchor|" + fid, "-", "mechanism not found: %s" % fid)
            continue
        states = []

        def probe(kind, b, obj, st):
            if kind == "stmt" and obj["rv"]["k"] == "agg" and obj["rv"].get("agg") == "adt" and obj["rv"]["adt"].endswith("Result") and obj["rv"]["variant"] == "Ok" and obj["place"]["l"] == 0:
                o = peel(f.origin_op(obj["rv"]["ops"][0])) if obj["rv"]["ops"] else None
                if o and o[0] == "agg" and o[1].get("variant") == "None":
                    states.append((obj["span"]["line"], st))
        A.analyse(f, probe=probe)
        bad = [(ln, st) for ln, st in states if not (st[0] == 1 or st[5] == 0)]
        run.check(bool(states) and not bad, "ERR3", "ERR3|N|" + fid, f.loc(),
                  "%s: every `Ok(None)` is returned after an error push or when the pass is known not to be the last (%d path states)" % (fid, len(states)),
                  "%s can return Ok(None) in a last pass without a message (line %s)" % (fid, bad[0][0] if bad else "?"))


def err2_top(run):
    """the run closure of asm::assemble: output is stored only on paths where no error can have been
    reported since the last stop_at_errors barrier; nothing that can report follows the store;
    every Ok path stores the output"""
    A = solved(run)
    cl = run.prog.fn("asm::assemble::{closure#0}")
    if cl is None:
        run.violation("ERR2", "ERR2|top|anchor", "-", "mechanism not found: the `run` closure of asm::assemble")
        return
    stores = []
    after = []

    def is_output_store(st):
        if st["k"] != "assign" or not st["place"]["p"]:
            return False
        d = describe_origin(cl, cl.origin_place(st["place"]))
        return "assembly__output" in d or d.endswith(".output")

    def probe(kind, b, obj, st):
        if kind == "stmt" and is_output_store(obj):
            stores.append((b, obj, st))

    r = A.analyse(cl, probe=probe)
    run.check(len(set(b for b, _, _ in stores)) == 1, "ERR2", "ERR2|top|store-site", cl.loc(),
              "exactly one site stores the assembled output", "expected exactly one `assembly.output = Some(..)` store in the run closure, found %d" % len(set(b for b, _, _ in stores)))
    if not stores:
        return
    sb = stores[0][0]
    bad = [(b, obj, st) for (b, obj, st) in stores if st[1]]
    run.check(not bad, "ERR2", "ERR2|top|store-clean", cl.loc(stores[0][1]["span"]),
              "the output is stored only on paths where no error can have been reported since the last stop_at_errors barrier (%d path states)" % len(stores),
              "the assembled output is stored although an error may already have been reported by %s and no `stop_at_errors()?` barrier lies in between: a run could print an error and still deliver output" % (bad[0][2][1] if bad else "?"))
    # nothing that can report after the store
    reach = set()
    work = list(cl.succs(sb))
    while work:
        x = work.pop()
        if x in reach:
            continue
        reach.add(x)
        work.extend(cl.succs(x))
    late = []
    for b in sorted(reach | {sb}):
        t = cl.blocks[b]["term"]
        if t["k"] != "call":
            continue
        if b == sb:
            continue
        kind, targets, real = A.callee_info(cl, t)
        c = t.get("resolved") or t.get("callee") or ""
        if (kind == "local" and real and any(A.E.get(x, False) for x in targets)) or c in ERROR_PUSH or c in MSG_PUSH:
            late.append((b, t))
    run.check(not late, "ERR2", "ERR2|top|nothing-fails-after-store", cl.loc(late[0][1]["span"]) if late else cl.loc(),
              "no call that can report an error follows the store of the output",
              "`%s` can report an error after the output has been stored: the driver writes the output of a failed run" % ((late[0][1].get("resolved") or late[0][1].get("callee")) if late else "?"))
    # every Ok return passed the store
    oks = []
    for b, states in r["search"].at_return.items():
        for st in states:
            tag = dict(st[2]).get(0)
            if tag and tag[0] in ("ok",):
                oks.append(("ret", b, st))
    missing = [n for n in oks if sb not in r["search"].witness(n)]
    # witness is one path only; use dominance for the must-claim
    ok_blocks = [bi for bi, si, st in cl.stmts() if st["k"] == "assign" and st["place"]["l"] == 0 and not st["place"]["p"] and st["rv"]["k"] == "agg" and st["rv"].get("variant") == "Ok"]
    dom_ok = all(cl.dominates(sb, ob) for ob in ok_blocks) and bool(ok_blocks)
    run.check(dom_ok, "ERR2", "ERR2|top|ok-implies-output", cl.loc(),
              "every Ok(()) of the run closure is dominated by the store of the output", "the run closure can return Ok(()) without having stored an output")
    # the closure itself satisfies R (static form of assert!(report.has_errors()))
    run.check(A.R.get(cl.id, False), "ERR2", "ERR2|top|closure-R", cl.loc(), "the run closure pushes a message on every Err path (assert!(report.has_errors()) cannot fail)",
              "the run closure can return Err without any message: assemble() panics on its own assertion")
    # assemble(): error flag and assertion are driven by the closure's result
    asm_fn = run.prog.fn("asm::assemble")
    if asm_fn is None:
        run.violation("ERR2", "ERR2|top|assemble-anchor", "-", "mechanism not found: asm::assemble")


def err5(run, reach):
    """no verdict swallowed: the Result<_,()> of a call made with the caller's own report is inspected,
    propagated or returned"""
    A = solved(run)
    n = 0
    for fid in sorted(reach):
        f = run.prog.fn(fid)
        if f is None:
            continue
        for b, t in f.calls():
            if t["dest"]["p"]:
                continue
            dty = f.local_ty(t["dest"]["l"])
            if not is_result_unit(dty):
                continue
            kind, targets, real = A.callee_info(f, t)
            if kind not in ("local", "stop") or not real:
                continue
            if kind == "local" and not any(A.E.get(x, False) for x in targets):
                continue
            n += 1
            name = t.get("resolved") or t.get("callee") or "indirect"
            key = "ERR5|%s|%s" % (fid, name)
            verdict = (True, "returned") if t["dest"]["l"] == 0 else consumption(f, t["dest"]["l"])
            run.check(verdict[0], "ERR5", key, f.loc(t["span"]),
                      "%s: result of `%s` is %s" % (fid, name, verdict[1]),
                      "%s: the Result of `%s` is %s: its failure would be reported but the run would carry on" % (fid, name, verdict[1]))
    run.count("err5_call_sites", n)
    return n


INSPECTORS = ("std::ops::Try::branch", "std::result::Result::<T, E>::is_err", "std::result::Result::<T, E>::is_ok", "std::result::Result::<T, E>::map",
              "std::result::Result::<T, E>::map_err", "std::result::Result::<T, E>::and_then", "std::result::Result::<T, E>::unwrap", "std::result::Result::<T, E>::expect",
              "std::result::Result::<T, E>::and", "std::result::Result::<T, E>::or_else")
SWALLOWERS = ("std::result::Result::<T, E>::ok", "std::result::Result::<T, E>::unwrap_or", "std::result::Result::<T, E>::unwrap_or_default", "std::result::Result::<T, E>::unwrap_or_else",
              "std::mem::drop", "std::result::Result::<T, E>::is_ok_and")


def overwritten_before_inspection(f, var):
    """`var` is a Result local assigned at several places: can one assignment be overwritten by another
    (e.g. on the next loop iteration) before the value is looked at?"""
    def_blocks = set()
    for d in f.full_defs(var):
        def_blocks.add(d[1])
    use_blocks = set()
    for bi, kind, obj in fn_uses(f, var):
        use_blocks.add(bi)
    for db in def_blocks:
        # the assignment happens at the end of db (call dest) or inside it; start from successors
        seen = set()
        work = list(f.succs(db))
        # a use in the same block after the def: treat statement-defs conservatively as not inspected in-block
        while work:
            x = work.pop()
            if x in seen:
                continue
            seen.add(x)
            if x in def_blocks:
                return (db, x)
            if x in use_blocks:
                continue
            work.extend(f.succs(x))
    return None


def consumption(f, l, depth=0):
    """how is the Result in local l consumed: (ok?, description)"""
    from rules_det import alias_closure
    aliases, uses = alias_closure(f, l)
    for a in aliases:
        if a != 0 and len(f.full_defs(a)) > 1:
            ow = overwritten_before_inspection(f, a)
            if ow:
                return (False, "stored in `%s`, which can be assigned again (line %d) before the previous value was looked at" % (
                    f.local_name(a) or "a temporary", f.blocks[ow[1]]["term"]["span"]["line"]))
    if 0 in aliases:
        return (True, "returned")
    if not uses:
        return (False, "never looked at (dropped)")
    good = None
    for bi, kind, obj in uses:
        if kind == "term" and obj["k"] == "call":
            c = obj.get("callee") or ""
            if c in INSPECTORS:
                good = "inspected (%s)" % c.rsplit("::", 1)[-1]
                continue
            if c in SWALLOWERS:
                return (False, "discarded through `%s`" % c.rsplit("::", 1)[-1])
            good = good or "passed on to `%s`" % c
        elif kind == "term" and obj["k"] == "switch":
            good = "matched on"
        elif kind == "stmt" and obj["k"] == "assign":
            rv = obj["rv"]
            if rv["k"] == "discr":
                good = "matched on"
            elif obj["place"]["l"] == 0:
                good = "returned"
            elif rv["k"] == "use" and not obj["place"]["p"] and depth < 4:
                sub = consumption(f, obj["place"]["l"], depth + 1)
                if not sub[0]:
                    return sub
                good = sub[1]
            else:
                good = good or "stored"
    return (True, good or "used")


def pair(run, reach):
    A = solved(run)
    n = 0
    tol = {e["fn"]: e for e in A.table.get("pair_err_paths", [])}
    for fid in sorted(reach):
        f = run.prog.fn(fid)
        r = A.results.get(fid)
        if f is None or r is None:
            continue
        pushes = [1 for b, t in f.calls() if (t.get("resolved") or "") in PUSH_PARENT]
        if not pushes:
            continue
        n += 1
        fnd = [x for x in r["findings"] if x[0] == "PAIR"]
        key = "PAIR|" + fid
        if not fnd:
            run.ok("PAIR", key, f.loc(), "%s: push_parent/pop_parent balance on every path (%d push site(s))" % (fid, len(pushes)))
            continue
        # imbalance only on paths that return Err?
        only_err = all((dict(x[2][2][2]).get(0) or ("?",))[0] == "err" for x in fnd)
        if only_err and fid in tol:
            run.exception("PAIR", key, f.loc(), "%s leaves a parent pushed only on a path that returns Err (%s)" % (fid, tol[fid]["reason"]))
        else:
            rule, kind, node, detail = fnd[0]
            run.violation("PAIR", key, f.loc(), "%s %s: every later message would be wrapped in the wrong location" % (fid, detail), _witness(A, fid, node))
    run.count("pair_functions", n)
    return n


def err4(run):
    """driver honours the verdict: outputs are written/printed only behind the `output is Some` test;
    main exits non-zero exactly on the Err edge of drive_from_commandline"""
    import tables as T
    prog = run.prog
    f = run.anchor("ERR4", "driver::assemble_with_command")
    if f:
        gate = None
        for bi, t in f.calls():
            if (t.get("callee") or "") == "std::option::Option::<T>::ok_or" and t["args"]:
                d = describe_origin(f, f.origin_op(t["args"][0]))
                if ".output" in d:
                    gate = (bi, t)
        if gate is None:
            run.violation("ERR4", "ERR4|gate|anchor", f.loc(), "mechanism not found: `assembly.output ... ok_or(())?` test in assemble_with_command")
        else:
            gb, gt = gate
            # continue edge of the `?` on the gate
            cont = None
            for b in f.reachable():
                t = f.blocks[b]["term"]
                if t["k"] == "switch":
                    o = f.origin_op(t["discr"])
                    if o[0] == "discr":
                        src = peel(o[1])
                        if src[0] == "call" and (src[1].get("callee") or "") == TRY_BRANCH:
                            a0 = peel(f.origin_op(src[1]["args"][0]))
                            if a0[0] == "call" and a0[1] is gt:
                                for v, tg in t["targets"]:
                                    if v == "0":
                                        cont = tg
            sinks = []
            for bi, t in f.calls():
                c = t.get("callee") or ""
                if c.endswith("FileServer::write_bytes") or (t.get("resolved") or "") == "driver::format_output":
                    sinks.append((bi, t))
            run.floor("ERR4", "output sinks in assemble_with_command", len(sinks), 2)
            for bi, t in sinks:
                nm = (t.get("resolved") or t.get("callee")).rsplit("::", 1)[-1]
                ok = cont is not None and f.dominates(cont, bi)
                run.check(ok, "ERR4", "ERR4|gated|" + nm, f.loc(t["span"]),
                          "%s is reached only through the success edge of the `output is Some` test" % nm,
                          "%s can be reached without passing the success edge of `assembly.output...ok_or(())?`: output of a failed assembly could be written" % nm)
            # the gate follows the call to assemble
            asm_calls = [bi for bi, t in f.calls() if (t.get("resolved") or "").startswith("asm::assemble")]
            run.check(bool(asm_calls) and all(f.dominates(a, gb) for a in asm_calls), "ERR4", "ERR4|gate-after-assemble", f.loc(gt["span"]),
                      "the output test is applied to the result of asm::assemble", "the output test does not follow the call to asm::assemble")
    m = run.anchor("ERR4", "main")
    if m:
        sw = None
        for b in m.reachable():
            t = m.blocks[b]["term"]
            if t["k"] == "switch":
                o = m.origin_op(t["discr"])
                if o[0] == "discr":
                    src = peel(o[1])
                    if src[0] == "call" and (src[1].get("resolved") or "") == "driver::drive_from_commandline":
                        sw = (b, t, o[2])
        exits = [(bi, t) for bi, t in m.calls() if (t.get("callee") or "") == "std::process::exit"]
        if sw is None:
            run.violation("ERR4", "ERR4|main|anchor", m.loc(), "mechanism not found: main does not branch on the result of drive_from_commandline")
        else:
            b, t, rv = sw
            vm = rv.get("variants") or {}
            err_t = None
            ok_t = None
            listed = {v: tg for v, tg in t["targets"]}
            for v, name in vm.items():
                tg = listed.get(v, t["otherwise"])
                if name == "Err":
                    err_t = tg
                else:
                    ok_t = tg
            err_reg = T.dominated_region(m, err_t) if err_t is not None else set()
            ok_reg = T.dominated_region(m, ok_t) if ok_t is not None else set()
            good = [e for e in exits if e[0] in err_reg and (const_int(e[1]["args"][0]) or 0) != 0]
            bad = [e for e in exits if e[0] not in err_reg or (const_int(e[1]["args"][0]) or 0) == 0]
            run.check(bool(good) and not bad, "ERR4", "ERR4|main|exit-status", m.loc(),
                      "main exits with a non-zero status exactly on the Err edge of drive_from_commandline",
                      "main's exit status does not follow the driver's verdict (exit calls: %s)" % [(m.blocks[e[0]]["term"]["span"]["line"], const_int(e[1]["args"][0])) for e in exits])
            # every path through the Err edge reaches an exit (the Err region cannot fall through to a normal return)
            falls = [x for x in err_reg if m.blocks[x]["term"]["k"] == "return"]
            run.check(not falls, "ERR4", "ERR4|main|err-never-returns", m.loc(), "the Err edge cannot fall through to a normal return (status 0)",
                      "on the Err edge main can return normally, i.e. exit status 0 after a failure")


def idx0(run, reach):
    """functions that index a collection parameter with a constant and no length test have a non-emptiness
    precondition; every call site must establish it (crash class: index out of bounds)"""
    R = "IDX0"
    prog = run.prog
    from rules_tab import value_depends_on

    def len_guarded(f, block, root_pred):
        """is `block` dominated by a switch whose discriminant depends on len()/is_empty() of the collection?"""
        for b in f.dominators().get(block, ()):
            t = f.blocks[b]["term"]
            if t["k"] != "switch" or b == block:
                continue
            dl = op_local(t["discr"])
            if dl is None:
                continue
            # walk back the discriminant's dependencies for a len()/is_empty() call on the collection
            seen = set()
            work = [dl]
            while work:
                l = work.pop()
                if l in seen or len(seen) > 40:
                    continue
                seen.add(l)
                for d in f.full_defs(l):
                    if d[0] == "call":
                        c = d[2].get("callee") or ""
                        if re.search(r"::(len|is_empty)$", c) and d[2]["args"] and root_pred(f.origin_op(d[2]["args"][0])):
                            return True
                        for a in d[2]["args"]:
                            al = op_local(a)
                            if al is not None:
                                work.append(al)
                    elif d[3]["k"] == "assign":
                        from mir import rv_operands
                        for o in rv_operands(d[3]["rv"]):
                            al = op_local(o)
                            if al is not None:
                                work.append(al)
        return False

    pre = {}   # fid -> (param index, const index, span)
    for f in prog.real_fns():
        for bi, t in f.calls():
            if (t.get("callee") or "") != "std::ops::Index::index" or len(t["args"]) != 2:
                continue
            ci = const_int(t["args"][1])
            if ci is None or not re.search(r"(Vec<|\[)", t["arg_tys"][0]):
                continue
            o = peel(f.origin_op(t["args"][0]))
            if o[0] != "param":
                continue
            pidx = o[1]
            if len_guarded(f, bi, lambda oo, pidx=pidx: peel(oo) == ("param", pidx)):
                continue
            pre.setdefault(f.id, (pidx, ci, t["span"]))
    # `assert!(x.len() >= 1)` on something computed from a parameter (a string's characters): the same precondition
    for f in prog.real_fns():
        if f.id in pre:
            continue
        for bi, t in f.calls():
            if not (t.get("callee") or "").endswith("panicking::panic") or "assertion failed" not in str((t["args"] or [{}])[0].get("const", "")):
                continue
            if not re.search(r"len\(\) (>=|>) \d", str(t["args"][0].get("const", ""))):
                continue
            # the collection whose length is tested, back to a parameter
            for b2 in f.dominators().get(bi, ()):
                tt = f.blocks[b2]["term"]
                if tt["k"] != "switch" or op_local(tt["discr"]) is None:
                    continue
                o = f.origin_local(op_local(tt["discr"]))
                if o[0] == "binop" and o[1]["op"] in ("Ge", "Gt"):
                    lo = f.origin_op(o[1]["l"])
                    if lo[0] == "call" and re.search(r"::len$", lo[1].get("callee") or ""):
                        seen = set()
                        work = [lo[1]["args"][0]]
                        while work:
                            x = work.pop()
                            ox = peel(f.origin_op(x)) if op_place(x) is not None else None
                            if ox is None or id(ox) in seen:
                                continue
                            seen.add(id(ox))
                            if ox[0] == "param":
                                pre.setdefault(f.id, (ox[1], 0, t["span"]))
                            elif ox[0] == "call" and ox[1]["args"] and len(seen) < 8:
                                work.append(ox[1]["args"][0])
                            elif ox[0] == "multi":
                                for dd in f.full_defs(ox[1]):
                                    if dd[0] == "call" and dd[2]["args"]:
                                        work.append(dd[2]["args"][0])
    run.count("idx0_precondition_functions", len(pre))
    n = 0
    for fid, (pidx, ci, span) in sorted(pre.items()):
        g = prog.fn(fid)
        sites = 0
        for f in prog.real_fns():
            if f.id not in reach and f.id.split("::{closure")[0] not in reach:
                continue
            for bi, t in f.calls():
                tg, _ = prog.call_targets(f, t)
                direct = fid in tg
                viaclosure = False
                if not direct:
                    # closure passed to Option::map & co: the closure parameter is the payload; accept (non-emptiness of a
                    # payload is established where the Option is built) -- only direct calls are obligations
                    continue
                if pidx - 1 >= len(t["args"]):
                    continue
                sites += 1
                n += 1
                a = t["args"][pidx - 1]
                root = peel(f.origin_op(a))
                def same_root(oo, root=root):
                    return peel(oo) == root or (root[0] == "multi" and peel(oo)[0] == "multi" and peel(oo)[1] == root[1])
                ok = len_guarded(f, bi, same_root)
                key = "IDX0|%s|called-from|%s" % (fid, f.id)
                aud = {e["key"]: e["reason"] for e in run.table("err").get("idx0_audited", [])}
                if not ok and key in aud:
                    run.exception(R, key, f.loc(t["span"]), "%s passes a value to %s that is non-empty for a reason the length-test rule cannot see: %s" % (f.id, fid.rsplit("::", 1)[-1], aud[key]))
                    continue
                run.check(ok, R, key, f.loc(t["span"]),
                          "%s: the collection passed to %s (which reads element %d without a length test) is known non-empty here" % (f.id, fid.rsplit("::", 1)[-1], ci),
                          "%s passes `%s` to %s, which reads element %d without a length test; nothing here establishes that it is non-empty: index out of bounds panic" % (
                              f.id, describe_origin(f, root), fid.rsplit("::", 1)[-1], ci))
    return n


def maybe_no_unwrap(run, R="IDX0"):
    """a function whose name promises a soft answer (`maybe_*`, `try_*`, returning Option) does not itself insist on a value being
    there: no unwrap/expect inside it (the name and the body would state opposite beliefs, and the caller that asked softly panics)"""
    import re as _re
    n, bad = 0, []
    for f in run.prog.real_fns():
        last = _re.sub(r"<.*?>", "", f.id).rsplit("::", 1)[-1]
        if f.kind not in ("Fn", "AssocFn") or not _re.match(r"^(maybe_|try_)", last) or not (f.ret or "").startswith("std::option::Option<"):
            continue
        n += 1
        for bi, t in f.calls():
            c = t.get("callee") or ""
            if _re.search(r"(Option::<T>|Result::<T, E>)::(unwrap|expect)$", c) and not (t.get("span") or {}).get("mac"):
                bad.append("%s (%s)" % (f.loc(t["span"]), f.id))
    run.check(not bad, R, R + "|maybe-no-unwrap", "-", "no `maybe_*`/`try_*` function returning Option unwraps inside (%d function(s))" % n,
              "a function that promises a soft answer unwraps a value itself: %s: the caller that asked whether something exists would panic instead of being told `no`" % ", ".join(bad))
    run.floor(R, "soft-answer functions", n, 5)


PANICKING_ENV = {"std::env::args": "panics when an argument is not valid Unicode (use args_os)",
                 "std::env::vars": "panics when a variable is not valid Unicode (use vars_os)"}


def no_panicking_env(run, R="ERR4"):
    """the program reads its command line (and environment) only through calls that cannot panic on what the user typed"""
    bad = []
    n = 0
    for f in run.prog.real_fns():
        for bi, t in f.calls():
            c = t.get("resolved") or t.get("callee") or ""
            if c in ("std::env::args_os", "std::env::args", "std::env::vars", "std::env::vars_os"):
                n += 1
            if c in PANICKING_ENV:
                bad.append("%s calls %s, which %s" % (f.loc(t["span"]), c, PANICKING_ENV[c]))
    run.check(n >= 1 and not bad, R, R + "|args-cannot-panic", "-", "the command line is read with a call that accepts any bytes (%d site(s))" % n,
              "%s: `customasm $'\\xff.asm'` panics instead of reporting that the file does not exist" % ("; ".join(bad) or "no read of the command line found"))


# ---- OPT1: user-optional settings are never insisted on without a dominating test ---------------------------------------------
# A bank's `#outp`, `#size` and `#labelalign` are optional in the language: the definitions hold them as `Option` fields, and
# whether they are present is decided by the user's source.  An `unwrap()`/`expect()` on one of them (directly, or through an
# accessor that answers `None` when the field is absent, found from the code: an Option-returning function that applies `?` to
# such a field) is a panic on a legal program unless a test of that very setting dominates it.
USER_OPTIONAL_FIELDS = (r"\.output_offset\b", r"\.label_align\b", r"bankdefs\b.*\)\.size\b")
OPT_GUARD_FNS = ("asm::output::check_bank_output",)     # fails (Err, propagated by `?`) when the current bank has no output position


def _optional_accessors(prog):
    import re as _re
    import rules_sym
    acc = {}
    for f in prog.real_fns():
        if f.kind not in ("Fn", "AssocFn") or not (f.ret or "").startswith("std::option::Option<"):
            continue
        for bi, t in f.calls():
            # `field?`, or an Option combinator that answers None for None (`field.map(..)`, `and_then`, `zip`, `filter`, `copied` ...)
            if ((t.get("callee") or "") == TRY_BRANCH or _re.search(r"Option::<T>::(map|and_then|zip|filter|copied|cloned|as_ref|xor)$", t.get("callee") or "")) and t["args"]:
                try:
                    e = str(rules_sym.deep(f, t["args"][0], d=4))
                except Exception:
                    continue
                if any(_re.search(p, e) for p in USER_OPTIONAL_FIELDS):
                    acc[f.id] = e
    return acc


def optional_setting_unwrap(run, R="OPT1"):
    import re as _re
    import rules_sym
    acc = _optional_accessors(run.prog)
    pats = list(USER_OPTIONAL_FIELDS) + [_re.escape(_re.sub(r"<.*?>", "", a).split("::", 1)[-1].rsplit("::", 2)[-2] + "::" + a.rsplit("::", 1)[-1]) + r"\(" for a in acc]
    names = ["output_offset", "label_align", "size"] + [a.rsplit("::", 1)[-1] for a in acc]
    n = 0
    seen = {}
    for f in run.prog.real_fns():
        for bi, t in sorted(f.calls(), key=lambda x: x[0]):
            c = t.get("callee") or ""
            if not _re.search(r"(Option::<T>|Result::<T, E>)::(unwrap|expect)$", c) or (t.get("span") or {}).get("mac") or not t["args"]:
                continue
            try:
                e = str(rules_sym.deep(f, t["args"][0], d=5))
            except Exception:
                e = "?"
            which = [p for p in pats if _re.search(p, e)]
            if not which:
                continue
            n += 1
            guard = None
            from rules_mpt import success_edge_of_call
            for bj, u in f.calls():
                if bj == bi or not f.dominates(bj, bi):
                    continue
                cu = u.get("callee") or ""
                if cu in OPT_GUARD_FNS:
                    se = success_edge_of_call(f, bj, u)
                    if se is not None and f.edge_dominates(se[0], se[1], bi) and len(u["args"]) == 7 and str(rules_sym.deep(f, u["args"][6], d=2)) == "true":
                        guard = "%s at %s (asked about writing; its failure is propagated by `?`)" % (cu.rsplit("::", 1)[-1], f.loc(u["span"]))
                        break
                m = _re.search(r"Option::<T>::(is_none|is_some)$", cu)
                if m and u["args"] and not u["dest"]["p"] and u.get("target") is not None:
                    try:
                        eu = str(rules_sym.deep(f, u["args"][0], d=5))
                    except Exception:
                        continue
                    st = f.blocks[u["target"]]["term"]
                    if eu != e or st["k"] != "switch" or st.get("discr_ty") != "bool":
                        continue
                    dl = st["discr"].get("move") or st["discr"].get("copy") or {}
                    if dl.get("l") != u["dest"]["l"]:
                        continue
                    zero = [tg for v, tg in st["targets"] if v == "0"]
                    present = st.get("otherwise") if m.group(1) == "is_some" else (zero[0] if zero else None)
                    if present is not None and f.edge_dominates(u["target"], present, bi):
                        guard = "%s at %s (the call sits on the branch where the setting is present)" % (m.group(1), f.loc(u["span"]))
                        break
            what = next(nm for p, nm in zip(pats, names) if _re.search(p, e))
            seen[(f.id, what)] = seen.get((f.id, what), 0) + 1
            key = "%s|%s|%s|#%d" % (R, f.id, what, seen[(f.id, what)])
            run.check(guard is not None, R, key, f.loc(t["span"]),
                      "%s insists (%s) on the optional bank setting `%s` behind a dominating test: %s" % (f.id, c.rsplit("::", 1)[-1], what, guard),
                      "%s calls %s() on `%s`, a bank setting the user may leave out, and no test of it dominates the call (no is_some/is_none on the same value, no %s): a legal program without that setting panics here" % (
                          f.id, c.rsplit("::", 1)[-1], e[:160], "/".join(g.rsplit("::", 1)[-1] for g in OPT_GUARD_FNS)))
    run.check(bool(acc), R, R + "|accessors", "-", "accessors answering None for an absent bank setting (found from the code): %s" % sorted(acc),
              "no accessor of an optional bank setting found (anchor lost)")
    # 4 such uses on the pinned tree; a clean-up that replaces an `is_none` + `unwrap` pair by `let Some(..) else` removes uses
    # without harm, so the vacuity guard is the accessor anchor above plus one remaining use, not the full count
    run.floor(R, "insisting uses of optional bank settings", n, 1)
    return n
