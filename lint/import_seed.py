#!/usr/bin/env python3
"""import a confirmed seeded change from a sub-agent worktree into /verif/seeded/<id>/"""
import json, os, shutil, sys, glob, re
wt, n, sid, prop = sys.argv[1:5]
caught = sys.argv[5]
verify = sys.argv[6] if len(sys.argv) > 6 else ""
d = os.path.join("/verif/seeded", sid)
os.makedirs(d, exist_ok=True)
shutil.copy(os.path.join(wt, "seed%s.diff" % n), os.path.join(d, "patch.diff"))
note = open(os.path.join(wt, "seed%s.md" % n)).read() if os.path.exists(os.path.join(wt, "seed%s.md" % n)) else ""
open(os.path.join(d, "note.md"), "w").write(note)
for p in glob.glob(os.path.join(wt, "demo%s*" % n)) + glob.glob(os.path.join(wt, "demo_common*")):
    dst = os.path.join(d, os.path.basename(p))
    if os.path.isdir(p):
        shutil.copytree(p, dst, dirs_exist_ok=True)
    else:
        shutil.copy(p, dst)
m = re.search(r"(?im)^.*(needs|manifest).*$", note)
meta = {
    "id": sid, "property": prop,
    "breaks": note.strip().split("\n")[0][:300],
    "needs_to_manifest": (m.group(0).strip()[:400] if m else "see note.md"),
    "source": "independent sub-agent given only the property text and a scratch worktree",
    "confirmed": "applied in a scratch worktree; `cargo test --offline`: 605 passed; demo exits non-zero with the change and 0 without (" + verify + ")",
    "checks_run": "lint/seedtest.sh patch.diff " + prop,
    "caught_by": caught,
}
json.dump(meta, open(os.path.join(d, "meta.json"), "w"), indent=1)
print("imported", sid)
