#!/bin/bash
# usage: reftest.sh <patch.diff>   -- apply a behaviour-preserving change to a scratch copy of /repo and run ALL checks on it;
# prints the keys of every new violation (there should be none)
P=$(readlink -f $1)
T=$(mktemp -d /tmp/casm-ref-XXXX)
rsync -a --exclude target --exclude .git /repo/ $T/
( cd $T && patch -p1 -s < $P ) || { echo "PATCH DOES NOT APPLY"; rm -rf $T; exit 3; }
bad=0
for prop in C01 C02 C03 C04 C05 C06 C07 C08 C09 C10 C11 C12 C13 C14 C15 C16 C17 C18 C19; do
  out=$(python3 /verif/lint/check.py $prop --repo $T --no-evidence 2>&1)
  rc=$?
  if [ $rc -eq 2 ]; then echo "$prop: cannot analyse: $(echo "$out" | tail -3)"; bad=1; break; fi
  if [ $rc -ne 0 ]; then echo "$(basename $P) $prop: $(echo "$out" | grep 'key:' | sed 's/ *key: //' | tr '\n' ';' | cut -c1-600)"; bad=1; fi
done
rm -rf $T
[ $bad -eq 0 ] && echo "silent: $(basename $P)"
exit $bad
